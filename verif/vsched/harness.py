"""E1 harness: builds a real Controller (+ComponentState/Engine/RepeatingEngine/monitor) from a FlowIR document,
runs it under the controlled runtime following a choice vector and records an event log for the oracles.

Nothing in /repo is modified: all seams are module attributes re-pointed from here (see install()).
"""
import collections
import datetime as _dt
import hashlib
import os
import shutil
import tempfile

from verif.core.runner import HarnessError
from verif.vsched import runtime as vrt

_INSTALLED = False
ORIG_WD = {}   # real WorkingDirectory listing functions, saved before they are replaced
EXIT_JITTER = 1e-3
M = None  # namespace of imported product modules


class _Stable:
    stable = True

    def isSystemStable(self, *a, **k):
        return self.stable

    def printStatus(self, *a, **k):
        pass

    def addException(self, *a, **k):
        pass

    def prune(self):
        pass


STABLE = _Stable()


class VFS:
    """Virtual answers for WorkingDirectory.output / outputSinceDate / outputBeforeDate (control-flow relevant only)."""
    outputs = collections.defaultdict(list)   # directory -> [virtual seconds]

    @classmethod
    def reset(cls):
        cls.outputs = collections.defaultdict(list)

    @classmethod
    def write(cls, directory):
        cls.outputs[os.path.realpath(directory)].append(vrt.RT.clock_read())

    @classmethod
    def times(cls, directory):
        return cls.outputs.get(os.path.realpath(directory), [])


class H:
    """Per-execution harness state."""
    events = []
    live = []            # live FakeTasks, in launch order
    script = {}          # reference -> list of [reason, duration] (last entry repeats)
    outmode = {}         # reference -> 'launch+exit' | 'exit' | 'never'
    launches = collections.Counter()
    controller = None
    on_launch = None     # optional callback(job, task)
    hook_answers = {}    # reference -> list of restart-hook answers
    exit_files = None    # optional fn(job, launch index) -> {file name: content} written when the task succeeds


def ev(kind, **kw):
    kw['kind'] = kind
    kw['t'] = round(vrt.RT.now, 6)
    H.events.append(kw)


def install():
    """Imports the product modules and re-points every nondeterminism seam to the virtual runtime (once per process)."""
    global _INSTALLED, M
    if _INSTALLED:
        return M
    import types
    import reactivex.scheduler as rs
    import reactivex.scheduler.timeoutscheduler as ts
    import experiment.runtime.utilities.rx as erx
    import experiment.runtime.engine as eng
    import experiment.runtime.control as control
    import experiment.runtime.workflow as workflow
    import experiment.runtime.monitor as monitor
    import experiment.runtime.backends as backends
    import experiment.runtime.task as task
    import experiment.model.codes as codes
    import experiment.model.storage as storage
    import experiment.utilities.data as udata

    M = types.SimpleNamespace(eng=eng, control=control, workflow=workflow, monitor=monitor, backends=backends,
                              codes=codes, storage=storage, erx=erx, rs=rs, ts=ts)

    counter = [0]

    def new_tp(n=None, *a, **k):
        counter[0] += 1
        return vrt.VSched('tp%s#%d' % (n, counter[0]), single=(n == 1))

    M.tp_counter = counter
    rs.ThreadPoolScheduler = new_tp
    rs.NewThreadScheduler = lambda *a, **k: vrt.VSched('newthread')
    ts.TimeoutScheduler.singleton = classmethod(lambda cls: vrt.RT.pools.setdefault('timeout', vrt.VSched('timeout')))
    erx.ThreadPoolGenerator.get_pool = classmethod(lambda cls, p: vrt.RT.pools.setdefault(p.value, vrt.VSched(p.value)))

    thr = vrt.make_threading_shim()
    tim = vrt.make_time_shim()
    dtm = vrt.make_datetime_shim()
    for m in (eng, control, workflow, monitor):
        m.threading = thr
        if hasattr(m, 'time'):
            m.time = tim
        if hasattr(m, 'datetime'):
            m.datetime = dtm
    monitor.ThreadingEvent = vrt.VEvent
    monitor.moduleLock = vrt.VRLock()
    monitor.MonitorExceptionTracker.defaultTracker = classmethod(lambda cls: STABLE)
    eng.ENGINE_RUN_START_DELAY_SECONDS = 0.0
    eng.ENGINE_LAUNCH_DELAY_SECONDS = 0.0

    # ---- virtual output answers
    def v_output(self):
        return [os.path.join(self.directory, 'vout%d' % i) for i, _ in enumerate(VFS.times(self.directory))]

    def v_since(self, date):
        return [os.path.join(self.directory, 'vout%d' % i) for i, t in enumerate(VFS.times(self.directory))
                if vrt.RT.base + _dt.timedelta(seconds=t) > date]

    def v_before(self, date):
        return [os.path.join(self.directory, 'vout%d' % i) for i, t in enumerate(VFS.times(self.directory))
                if vrt.RT.base + _dt.timedelta(seconds=t) < date]

    # the real listing functions stay reachable: C13 part C checks that the virtual listing above and the real code agree
    ORIG_WD['output'] = storage.WorkingDirectory.output
    ORIG_WD['outputSinceDate'] = storage.WorkingDirectory.outputSinceDate
    ORIG_WD['isUpdatedSinceDate'] = storage.WorkingDirectory.isUpdatedSinceDate
    storage.WorkingDirectory.output = property(v_output)
    storage.WorkingDirectory.outputSinceDate = v_since
    storage.WorkingDirectory.outputBeforeDate = v_before

    # ---- scripted task backend
    class FakeTask(task.Task):
        def __init__(self, job, **kw):
            self.job = job
            ref = job.reference
            sc = H.script.get(ref) or [['Success', 0.0]]
            idx = H.launches[ref]
            H.launches[ref] += 1
            reason, duration = sc[min(idx, len(sc) - 1)]
            if reason == 'LaunchOSError':
                ev('launch-failed', ref=ref, n=idx, why='OSError')
                raise OSError('scripted submission failure')
            self._planned = reason
            self._duration = float(duration)
            self._reason = None
            self._done = False
            self.returncode = None
            self._perf = udata.Matrix()
            self.launched_at = vrt.RT.now
            self.index = idx
            H.live.append(self)
            mode = H.outmode.get(ref, 'launch+exit')
            self._outmode = mode
            snap = H.on_launch(job, self) if H.on_launch else None
            ev('launch', ref=ref, n=idx, snap=snap, via=('restart' if 'outputFile' not in kw else 'repeat'))
            if mode == 'launch+exit':
                VFS.write(job.workingDirectory.directory)
                ev('output', ref=ref)

        def exit_enabled(self):
            # a task may exit up to EXIT_JITTER virtual seconds early: lets the explorer place an exit in the middle of a
            # chain of notification hops that all carry (almost) the same virtual time-stamp
            return (not self._done) and vrt.RT.now >= self.launched_at + self._duration - EXIT_JITTER

        def finish(self, reason=None):
            if self._done:
                return
            self._reason = reason or self._planned
            self.returncode = 0 if self._reason == 'Success' else 1
            if self._outmode in ('launch+exit', 'exit') and self._reason == 'Success':
                VFS.write(self.job.workingDirectory.directory)
                ev('output', ref=self.job.reference)
            if H.exit_files and self._reason == 'Success':
                # real files a task leaves behind (e.g. the condition file of a DoWhile loop):
                # {component name without the iteration prefix: {file name: [content of iteration 0, 1, ... (last repeats)]}}
                cname = self.job.reference.split('.', 1)[1]
                iteration = 0
                if '#' in cname:
                    iteration, cname = cname.split('#', 1)
                    iteration = int(iteration)
                for fname, contents in (H.exit_files.get(cname) or {}).items():
                    with open(os.path.join(self.job.workingDirectory.directory, fname), 'w') as fh:
                        fh.write(contents[min(iteration, len(contents) - 1)])
            self._done = True
            if self in H.live:
                H.live.remove(self)
            ev('exit', ref=self.job.reference, n=self.index, reason=self._reason)

        def poll(self):
            return self.returncode

        def wait(self):
            while not self._done:
                vrt.RT.yield_blocked(('task', self))

        def isAlive(self):
            return not self._done

        def kill(self):
            self.finish('Killed')

        def terminate(self):
            self.finish('Cancelled')

        @property
        def exitReason(self):
            return codes.exitReasons[self._reason] if self._reason else None

        @property
        def status(self):
            if not self._done:
                return codes.RUNNING_STATE
            return codes.FINISHED_STATE if self._reason == 'Success' else codes.FAILED_STATE

        @property
        def performanceInfo(self):
            return self._perf

        @classmethod
        def default_performance_info(cls):
            return udata.Matrix()

    M.FakeTask = FakeTask
    for name in ('simulator', 'local'):
        backends.backendGeneratorMap[name] = lambda job, **kw: FakeTask(job, **kw)
        backends.backendTaskMap[name] = FakeTask

    # ---- observation wrappers (add-only: call through to the original)
    orig_run = workflow.ComponentState.run
    orig_finish = workflow.ComponentState.finish

    def run_wrapper(self):
        snap = H.on_launch(self.specification, None) if H.on_launch else None
        ev('comp-run', ref=self.specification.reference, state=self.state, snap=snap)
        return orig_run(self)

    def finish_wrapper(self, finalState):
        ev('comp-finish', ref=self.specification.reference, final=finalState, state=self.state)
        return orig_finish(self, finalState)

    workflow.ComponentState.run = run_wrapper
    workflow.ComponentState.finish = finish_wrapper
    _INSTALLED = True
    return M


class FakeStatus:
    def monitorComponent(self, *a, **k):
        pass


class Scenario:
    """A workflow + the environment script."""

    def __init__(self, doc, script=None, outmode=None, stages=None, extra_files=None, name='', do_restart_sources=None,
                 exit_files=None, memo=None):
        self.memo = memo or {}
        self.doc = doc
        self.script = script or {}
        self.outmode = outmode or {}
        self.stages = stages
        self.extra_files = extra_files or {}
        self.name = name
        self.do_restart_sources = do_restart_sources
        self.exit_files = exit_files or {}

    def to_json(self):
        return {'doc': self.doc, 'script': self.script, 'outmode': self.outmode, 'stages': self.stages,
                'extra_files': self.extra_files, 'name': self.name, 'exit_files': self.exit_files}

    @classmethod
    def from_json(cls, j):
        return cls(j['doc'], j.get('script'), j.get('outmode'), j.get('stages'), j.get('extra_files'), j.get('name', ''), exit_files=j.get('exit_files'))


class Execution:
    __slots__ = ('points', 'choices', 'labels', 'alts', 'result', 'final', 'events', 'errors', 'steps', 'vtime', 'fps',
                 'stage_states', 'stop_executing', 'comp_done', 'extra', 'preempt')


def reset_class_state():
    M.workflow.ComponentState.componentScheduler = None
    M.eng.Engine.enginePoolScheduler = None
    M.eng.Engine.triggerPoolScheduler = None
    M.eng.Engine.taskPoolScheduler = None
    M.tp_counter[0] = 0
    M.monitor.moduleLock = vrt.VRLock()
    STABLE.stable = True
    VFS.reset()
    H.events = []
    H.live = []
    H.launches = collections.Counter()
    H.controller = None
    H.hook_answers = {}
    H.exit_files = None


class FakeCDB:
    """Stand-in for the component database: `memo` maps a component reference to 'hit' (a past execution with the same
    memoization hash exists and its files can be fetched) or 'fetch-fails' (it exists but fetching its files raises)."""

    def __init__(self, memo, comps):
        self.memo = dict(memo)
        self.by_hash = {}
        for c in comps:
            ref = c.specification.reference
            if ref in self.memo:
                hs = c.memoization_hash
                if hs is None:
                    raise HarnessError('no memoization hash for %s: the memoization scenario is vacuous' % ref)
                self.by_hash[hs] = ref

    def cdb_get_document_component(self, query=None, _api_verbose=False, **kw):
        hs = (query or {}).get('memoization-hash')
        ref = self.by_hash.get(hs)
        ev('cdb-query', ref=ref)
        if ref is None:
            return []
        return [{'location': '/nonexistent/past/%s' % ref, 'instance': 'file://past/pkg-2029-12-31T235959.000000.instance',
                 'stage': 0, 'name': 'past-' + ref.split('.', 1)[1], 'memoization-hash': hs}]

    def cdb_query_component_files_exist(self, instance_uri, stage_index, component_name):
        return True

    def cdb_download_component_files(self, instance_uri, stage_index, component_name, output_dir):
        ref = [r for r in self.memo if component_name == 'past-' + r.split('.', 1)[1]][0]
        ev('cdb-fetch', ref=ref, mode=self.memo[ref])
        if self.memo[ref] != 'hit':
            raise IOError('scripted failure while fetching the files of a memoization candidate')
        with open(os.path.join(output_dir, 'memoized.out'), 'w') as f:
            f.write('from a past execution')

    def __getattr__(self, name):
        # anything else the controller may call on its database handle (upserts of documents ...) is accepted silently
        if name.startswith('__'):
            raise AttributeError(name)
        return lambda *a, **k: None


def build_controller(scn, location):
    """The recipe of tests/utils.generate_controller_for_flowir, without the initialise() call."""
    import networkx
    from verif.gen.pkg import experiment_from_doc
    exp = experiment_from_doc(scn.doc, location, extra_files=scn.extra_files, check_executables=False, validate=True)
    comps = []
    for job_name in networkx.topological_sort(exp.graph):
        data = exp.graph.nodes[job_name]
        stage = exp._stages[data['stageIndex']]
        spec = data['componentSpecification']
        job = stage.jobWithName(spec.identification.componentName)
        comps.append(M.workflow.ComponentState(job, exp.experimentGraph, create_engine=True))
    cdb = None
    if getattr(scn, 'memo', None):
        cdb = FakeCDB(scn.memo, comps)
    controller = M.control.Controller(exp, do_restart_sources=scn.do_restart_sources, cdb=cdb)
    controller._verif_keepalive = comps
    return exp, controller


def fingerprint(controller):
    parts = []
    for n in sorted(controller.graph.nodes):
        try:
            c = controller.get_compstate(n)
        except Exception:
            continue
        e = c.engine
        parts.append((n, c.controllerState, c.finishCalled, e.exitReason() if e is not None else None,
                      getattr(e, 'restarts', None), getattr(e, '_resubmissionAttempts', None)))
    pend = collections.Counter((t.pool or t.label, t.state, t.block[0] if t.block else None) for t in vrt.RT.threads
                               if t.state != 'done' and not t.cancelled)
    s = repr((parts, sorted(controller.comp_done), sorted(c.specification.reference for c in controller.comp_staged_in),
              controller.stop_executing, sorted(pend.items()), [(t.job.reference, t.index) for t in H.live]))
    return hashlib.sha1(s.encode()).hexdigest()[:16]


STALL = 0.05
STALLS = [STALL]   # durations offered at a line-level preemption point (a scenario may add longer ones)


def alternatives(rt):
    """Canonical order: enabled activities by (due, fifo) — enabled task exits (oldest first) — let time pass."""
    alts = [('t', t) for t in rt.enabled()]
    for task in H.live:
        if task.exit_enabled():
            alts.append(('exit', task))
    nt = rt.next_time()
    cand = [nt] if nt is not None else []
    for task in H.live:
        if not task._done and not task.exit_enabled():
            cand.append(task.launched_at + task._duration)
    if cand:
        alts.append(('tick', min(cand)))
    lr = rt.last_run
    if rt.trace_fn is not None and lr is not None and lr.state == 'blocked' and lr.block[0] == 'preempt':
        # the activity that just reached a line-level preemption point is descheduled for STALL virtual seconds: one
        # deviation that lets every chain of hand-offs among the other activities complete first
        for dur in STALLS:
            alts.append(('stall', (lr, dur)))
    return alts


def alt_label(a):
    kind, obj = a
    if kind == 't':
        return obj.label
    if kind == 'exit':
        return 'exit:%s#%d' % (obj.job.reference, obj.index)
    if kind == 'stall':
        return 'stall:%s:%g' % (obj[0].label, obj[1])
    return 'tick'


def execute(scn, choices, horizon=900.0, step_cap=30000, want_fps=True, main=None, setup=None, extra_alts=None, probe=None,
            trace=None, pause=None, stalls=None):
    """One complete execution. `choices` = prefix of choice indices, afterwards choice 0 (canonical) everywhere.

    main(exp, controller, result) may replace the default stage loop; setup(exp, controller) runs before it in the
    explorer thread; extra_alts(rt) -> list of (label, callable) environment events appended after task exits.
    """
    install()
    rt = vrt.Runtime()
    vrt.set_runtime(rt)
    reset_class_state()
    STALLS[:] = [STALL] + [d for d in (stalls or []) if d != STALL]
    if trace:
        # line-level preemption points: every source line of the listed functions is a scheduling point
        wanted = set(tuple(t) for t in trace)

        def local(frame, event, arg):
            if event == 'line' and not rt.poison:
                rt.yield_blocked(('preempt', '%s:%d' % (frame.f_code.co_name, frame.f_lineno)))
            return local

        def glob(frame, event, arg):
            code = frame.f_code
            if (os.path.basename(code.co_filename), code.co_name) in wanted:
                return local
            return None

        rt.trace_fn = glob
    H.script = {k: [list(x) for x in v] for k, v in scn.script.items()}
    H.outmode = dict(scn.outmode)
    H.exit_files = dict(scn.exit_files)
    base = '/dev/shm' if os.access('/dev/shm', os.W_OK) else None
    location = tempfile.mkdtemp(prefix='e1-', dir=base)
    x = Execution()
    x.points, x.choices, x.labels, x.alts, x.fps, x.extra = [], [], [], [], set(), {}
    x.preempt = []   # per choice point: the running activity sits at a line-level preemption point
    result = {}
    try:
        exp, controller = build_controller(scn, location)
        H.controller = controller
        if setup:
            setup(exp, controller)
        stages = scn.stages if scn.stages is not None else list(range(len(exp._stages)))

        def default_main():
            try:
                for s in stages:
                    controller.initialise(exp._stages[s], FakeStatus())
                    ev('stage-start', stage=s)
                    try:
                        controller.run()
                        ev('stage-end', stage=s, outcome='ok')
                        result.setdefault('stages', []).append([s, 'ok'])
                    except Exception as e:
                        ev('stage-end', stage=s, outcome=type(e).__name__)
                        result.setdefault('stages', []).append([s, type(e).__name__])
                        break
                result['ret'] = 'done'
            except vrt.Poison:
                raise
            except BaseException as e:  # noqa
                result['ret'] = 'main-raised:%s' % type(e).__name__

        if pause:
            # scripted environment: the operator pauses the controller at virtual time pause[0] and wakes it up at pause[1]
            def pauser():
                rt.yield_blocked(('sleep',), due=float(pause[0]))
                controller.sleep()
                ev('pause')
                rt.yield_blocked(('sleep',), due=float(pause[1]))
                controller.wake_up()
                ev('wake-up')

            rt.spawn(pauser, 'env:pause')
        if main is None:
            rt.spawn(default_main, 'main')
        else:
            rt.spawn(lambda: main(exp, controller, result), 'main')
        i = 0
        while 'ret' not in result:
            alts = alternatives(rt)
            if extra_alts:
                more = extra_alts(rt)
                if more:
                    tick = [a for a in alts if a[0] == 'tick']
                    alts = [a for a in alts if a[0] != 'tick'] + [('env', m) for m in more] + tick
            if not alts:
                result['ret'] = 'DEADLOCK'
                break
            if rt.now > horizon:
                result['ret'] = 'HORIZON'
                break
            if i >= step_cap:
                result['ret'] = 'STEPCAP'
                break
            c = choices[i] if i < len(choices) else 0
            if c >= len(alts):
                raise HarnessError('replay divergence: choice %d at point %d but only %d alternatives (%s)' % (
                    c, i, len(alts), [alt_label(a) if a[0] != 'env' else a[1][0] for a in alts]))
            kind, obj = alts[c]
            x.points.append(len(alts))
            x.alts.append([alt_label(a) if a[0] != 'env' else 'env:' + a[1][0] for a in alts])
            x.choices.append(c)
            x.preempt.append(bool(alts) and alts[-1][0] == 'stall')
            x.labels.append(alt_label((kind, obj)) if kind != 'env' else 'env:' + obj[0])
            if want_fps:
                x.fps.add(fingerprint(controller))
            if probe is not None:
                probe(rt, controller, x)
            if kind == 't':
                rt.run_thread(obj)
            elif kind == 'tick':
                rt.advance_to(obj)
            elif kind == 'exit':
                obj.finish()
            elif kind == 'stall':
                obj[0].block = ('sleep',)
                obj[0].block_due = rt.now + obj[1]
            else:
                obj[1]()
            i += 1
        x.result = result
        x.steps = i
        x.vtime = rt.now
        x.final = {}
        for n in sorted(controller.graph.nodes):
            try:
                c = controller.get_compstate(n)
                x.final[n] = {'state': c.state, 'controllerState': c.controllerState,
                              'engineAlive': c.engine.isAlive() if c.engine is not None else None,
                              'in_done': n in controller.comp_done, 'staged': c in controller.comp_staged_in,
                              'launches': H.launches.get(n, 0)}
            except Exception as e:  # noqa
                x.final[n] = {'state': 'NO-COMPONENT:%s' % type(e).__name__}
        x.stage_states = {}
        for s, st in controller._stageStates.items():
            try:
                x.stage_states[s] = st.state
            except Exception as e:  # noqa
                x.stage_states[s] = 'raised:%s' % type(e).__name__
        x.stop_executing = controller.stop_executing
        x.comp_done = sorted(controller.comp_done)
        x.events = H.events
        x.errors = list(rt.errors)
        return x
    finally:
        try:
            rt.teardown()
        finally:
            H.controller = None
            shutil.rmtree(location, ignore_errors=True)
