"""E1 — controlled runtime for the st4sd runtime classes (Controller / ComponentState / Engine / RepeatingEngine / monitor).

Every source of scheduling nondeterminism is replaced by a deterministic virtual runtime that owns a baton:
rx schedulers, threads, events, locks, sleeps, the wall clock and the task backend.  Activities run on real OS
threads but only while they hold the baton; the explorer decides at every scheduling point which enabled
activity / environment event happens next.
"""
import datetime as _dt
import itertools
import os
import sys
import threading as _th
import traceback
import types

from verif.core.runner import HarnessError


class Poison(BaseException):
    """Raised inside a parked managed thread to tear it down."""


class MThread:
    __slots__ = ('rt', 'fn', 'label', 'pool', 'due', 'seq', 'sem', 'state', 'block', 'cancelled', 'real', 'exc',
                 'block_due', 'owner')

    def __init__(self, rt, fn, label, pool=None, due=0.0, owner=None):
        self.rt = rt
        self.fn = fn
        self.label = label
        self.pool = pool
        self.due = due
        self.seq = next(rt.seq)
        self.sem = _th.Semaphore(0)
        self.state = 'new'      # new | ready | blocked | done
        self.block = None       # ('sleep',) ('event', ev) ('lock', l) ('task', t) ('join', mt) ('preempt', label)
        self.block_due = None
        self.cancelled = False
        self.real = None
        self.exc = None
        self.owner = owner

    def __repr__(self):
        return '<%s#%d %s %s due=%.3f>' % (self.label, self.seq, self.state, self.block and self.block[0], self.due)


class _Worker:
    """A reusable OS thread that executes one managed activity at a time (thread creation is the dominant cost of an
    execution otherwise). A worker is busy from the moment an activity starts until it finishes (it stays parked inside
    yield_blocked while the activity is blocked)."""
    idle = []
    pid = None

    def __init__(self):
        self.sem = _th.Semaphore(0)
        self.job = None
        self.thread = _th.Thread(target=self.loop, daemon=True, name='managed-worker')
        self.thread.start()

    @classmethod
    def get(cls):
        # worker threads do not survive a fork: forget the ones created by another process
        if cls.pid != os.getpid():
            cls.pid = os.getpid()
            cls.idle = []
        return cls.idle.pop() if cls.idle else cls()

    def loop(self):
        while True:
            self.sem.acquire()
            rt, t = self.job
            self.job = None
            try:
                if not rt.poison:
                    if rt.trace_fn is not None:
                        sys.settrace(rt.trace_fn)
                    t.fn()
            except Poison:
                pass
            except BaseException as e:  # noqa
                t.exc = e
                rt.errors.append((t.label, repr(e), traceback.format_exc()))
            finally:
                sys.settrace(None)
                t.state = 'done'
                t.fn = None
                _Worker.idle.append(self)
                rt.explorer_sem.release()


class Runtime:
    BATON_TIMEOUT = 600.0   # real seconds; generous because one step can take long on an overloaded machine

    def __init__(self):
        self.seq = itertools.count()
        self.now = 0.0
        self.base = _dt.datetime(2030, 1, 1)
        self.threads = []
        self.current = None
        self.explorer_sem = _th.Semaphore(0)
        self.nsteps = 0
        self.single = set()       # names of pools with exactly one worker (FIFO, one at a time)
        self.pool_busy = {}
        self.poison = False
        self.errors = []          # exceptions escaping managed activities (label, exc, traceback)
        self.trace_fn = None      # optional sys.settrace function installed in managed threads
        self.last_run = None
        self.pools = {}

    # ------------------------------------------------------------------ time
    def clock_read(self):
        self.now += 1e-6
        return self.now

    def datetime_now(self):
        return self.base + _dt.timedelta(seconds=self.clock_read())

    # ------------------------------------------------------------------ called from managed threads
    def in_managed(self):
        c = self.current
        return c is not None and _th.current_thread() is c.real

    def yield_blocked(self, block, due=None):
        t = self.current
        if t is None or _th.current_thread() is not t.real:
            raise HarnessError('blocking call %r outside a managed thread (%s)' % (block[0], _th.current_thread().name))
        t.state = 'blocked'
        t.block = block
        t.block_due = due
        self.explorer_sem.release()
        t.sem.acquire()
        if self.poison:
            raise Poison()
        t.block = None
        t.block_due = None

    def spawn(self, fn, label, pool=None, delay=0.0, owner=None):
        t = MThread(self, fn, label, pool, self.now + max(0.0, delay), owner)
        self.threads.append(t)
        return t

    # ------------------------------------------------------------------ explorer side
    def _enabled(self, t):
        if t.state == 'done':
            return False
        if t.state == 'new':
            if t.cancelled or t.due > self.now:
                return False
            if t.pool in self.single:
                busy = self.pool_busy.get(t.pool)
                if busy is not None and busy.state != 'done':
                    return False
                for o in self.threads:
                    if o is not t and o.pool == t.pool and o.state == 'new' and not o.cancelled \
                            and (o.due, o.seq) < (t.due, t.seq):
                        return False
            return True
        if t.state == 'blocked':
            b = t.block
            k = b[0]
            if k == 'sleep':
                return t.block_due <= self.now
            if k == 'event':
                return b[1]._flag or (t.block_due is not None and t.block_due <= self.now)
            if k == 'lock':
                return b[1]._owner is None
            if k == 'task':
                return b[1]._done
            if k == 'join':
                return b[1].state == 'done'
            if k == 'preempt':
                return True
        return False

    def _key(self, t):
        if t.state == 'new':
            return (t.due, t.seq)
        if t.block[0] == 'sleep' or (t.block[0] == 'event' and not t.block[1]._flag):
            return (t.block_due, t.seq)
        return (0.0, t.seq)

    def enabled(self):
        en = [t for t in self.threads if self._enabled(t)]
        en.sort(key=self._key)
        lr = self.last_run
        if lr is not None and lr in en and lr.state == 'blocked' and lr.block[0] == 'preempt':
            en.remove(lr)
            en.insert(0, lr)
        return en

    def next_time(self):
        c = []
        for t in self.threads:
            if t.state == 'done':
                continue
            if t.state == 'new':
                if not t.cancelled and t.due > self.now:
                    c.append(t.due)
            elif t.state == 'blocked' and t.block_due is not None and t.block_due > self.now:
                if t.block[0] == 'sleep' or (t.block[0] == 'event' and not t.block[1]._flag):
                    c.append(t.block_due)
        return min(c) if c else None

    def run_thread(self, t):
        self.current = t
        self.last_run = t
        if t.state == 'new':
            if t.pool in self.single:
                self.pool_busy[t.pool] = t
            t.state = 'ready'
            w = _Worker.get()
            t.real = w.thread
            t.sem = w.sem
            w.job = (self, t)
        else:
            t.state = 'ready'
        t.sem.release()
        if not self.explorer_sem.acquire(timeout=self.BATON_TIMEOUT):
            raise HarnessError('managed activity %r did not yield within %.0fs (blocked on an un-shimmed primitive?)'
                               % (t, self.BATON_TIMEOUT))
        self.current = None
        self.nsteps += 1
        if t.state == 'done' or self.nsteps % 16 == 0:
            self.threads = [x for x in self.threads if x.state != 'done' and not (x.cancelled and x.state == 'new')]

    def advance_to(self, when):
        if when > self.now:
            self.now = when

    def teardown(self):
        """Releases every parked managed thread with the poison flag so that no OS thread is leaked."""
        self.poison = True
        parked = [t for t in self.threads if t.state == 'blocked' and t.real is not None]
        for t in parked:
            self.current = t
            t.sem.release()
            if not self.explorer_sem.acquire(timeout=self.BATON_TIMEOUT):
                raise HarnessError('teardown: %r did not terminate' % t)
        self.current = None
        self.threads = []


RT = None  # type: Runtime


def set_runtime(rt):
    global RT
    RT = rt


# ---------------------------------------------------------------------- shims
class VEvent:
    def __init__(self):
        self._flag = False

    def is_set(self):
        return self._flag

    isSet = is_set

    def set(self):
        self._flag = True

    def clear(self):
        self._flag = False

    def wait(self, timeout=None):
        if self._flag:
            return True
        RT.yield_blocked(('event', self), due=(RT.now + timeout) if timeout is not None else None)
        return self._flag


class VRLock:
    def __init__(self):
        self._owner = None
        self._count = 0

    def _me(self):
        return RT.current if RT.in_managed() else 'explorer'

    def acquire(self, blocking=True, timeout=-1):
        me = self._me()
        if self._owner is None or self._owner is me:
            self._owner = me
            self._count += 1
            return True
        if not blocking:
            return False
        while self._owner is not None:
            RT.yield_blocked(('lock', self))
        self._owner = me
        self._count += 1
        return True

    def release(self):
        self._count -= 1
        if self._count <= 0:
            self._count = 0
            self._owner = None

    def __enter__(self):
        self.acquire()
        return self

    def __exit__(self, *a):
        self.release()

    def locked(self):
        return self._owner is not None


class VThread:
    def __init__(self, group=None, target=None, name=None, args=(), kwargs=None, daemon=None):
        self._target = target
        self.name = name or 'vthread'
        self._args = args
        self._kwargs = kwargs or {}
        self._mt = None
        self.daemon = daemon

    def start(self):
        self._mt = RT.spawn(lambda: self._target(*self._args, **self._kwargs), 'thread:%s' % self.name)

    def join(self, timeout=None):
        if self._mt is not None and self._mt.state != 'done':
            RT.yield_blocked(('join', self._mt), due=(RT.now + timeout) if timeout is not None else None)

    def is_alive(self):
        return self._mt is not None and self._mt.state != 'done'

    isAlive = is_alive


class _CurrentThread:
    name = 'managed'
    ident = 1

    def getName(self):
        return self.name


def make_threading_shim():
    m = types.SimpleNamespace()
    m.Thread = VThread
    m.Event = VEvent
    m._Event = VEvent
    m.RLock = VRLock
    m.Lock = VRLock
    m.current_thread = lambda: _CurrentThread()
    m.currentThread = m.current_thread
    m.get_ident = lambda: 1
    return m


def make_time_shim():
    import time as _time
    m = types.SimpleNamespace()

    def sleep(s):
        RT.yield_blocked(('sleep',), due=RT.now + max(0.0, s))

    m.sleep = sleep
    m.time = lambda: 1.9e9 + RT.clock_read()
    m.strftime = _time.strftime
    m.localtime = _time.localtime
    m.gmtime = _time.gmtime
    m.monotonic = lambda: RT.clock_read()
    return m


class VDateTime(_dt.datetime):
    @classmethod
    def now(cls, tz=None):
        n = RT.datetime_now()
        return cls(n.year, n.month, n.day, n.hour, n.minute, n.second, n.microsecond)

    @classmethod
    def utcnow(cls):
        return cls.now()

    @classmethod
    def today(cls):
        return cls.now()


def make_datetime_shim():
    m = types.ModuleType('datetime')
    m.datetime = VDateTime
    m.timedelta = _dt.timedelta
    m.date = _dt.date
    m.time = _dt.time
    m.timezone = _dt.timezone
    return m


from reactivex.scheduler.periodicscheduler import PeriodicScheduler  # noqa: E402
from reactivex.disposable import Disposable, SingleAssignmentDisposable, CompositeDisposable  # noqa: E402


class VSched(PeriodicScheduler):
    """An rx scheduler whose actions become pending activities of the virtual runtime."""

    def __init__(self, name, single=False):
        super().__init__()
        self.name = name
        if single:
            RT.single.add(name)

    @property
    def now(self):
        return RT.base + _dt.timedelta(seconds=RT.now)

    def schedule(self, action, state=None):
        return self.schedule_relative(0.0, action, state)

    def schedule_relative(self, duetime, action, state=None):
        secs = max(0.0, self.to_seconds(duetime))
        sad = SingleAssignmentDisposable()

        def fn():
            sad.disposable = self.invoke_action(action, state)

        mt = RT.spawn(fn, 'rx:%s' % self.name, pool=self.name, delay=secs)

        def dispose():
            mt.cancelled = True

        return CompositeDisposable(sad, Disposable(dispose))

    def schedule_absolute(self, duetime, action, state=None):
        return self.schedule_relative(self.to_datetime(duetime) - self.now, action, state)
