"""C01 / C02: scenarios (workflow x environment script), reference model of stage outcomes, judges and the
deviation-bounded exploration driver over the real Controller."""
import copy
import itertools
import json
import os

from verif.core.runner import HarnessError, canon, case_id

FINAL = ('finished', 'failed', 'component_shutdown')

# ---------------------------------------------------------------------------------------------- workflows


def comp(name, refs=(), stage=0, wa=None, variables=None, backend='simulator'):
    c = {'name': name, 'stage': stage,
         'command': {'executable': 'ls', 'arguments': ' '.join(refs) or '/tmp'},
         'references': list(refs),
         'resourceManager': {'config': {'backend': backend}}}
    if wa:
        c['workflowAttributes'] = dict(wa)
    if variables:
        c['variables'] = dict(variables)
    return c


def obs(name, refs, stage=0, interval=7.0, retries=None, variables=None):
    wa = {'repeatInterval': interval}
    if retries is not None:
        wa['repeatRetries'] = retries
    v = {'check-producer-output': 'false'}
    v.update(variables or {})
    return comp(name, refs, stage, wa, v)


def workflows():
    """name -> (doc, meta). meta: node -> {'producers': [...], 'stage': i, 'repeat': bool, 'aggregate': bool,
    'replica_of': base or None}; nodes are expanded (replicated) names."""
    W = {}

    def add(name, comps, meta):
        W[name] = ({'components': comps}, meta)

    def m(stage=0, producers=(), repeat=False, aggregate=False, replica_of=None):
        return {'stage': stage, 'producers': list(producers), 'repeat': repeat, 'aggregate': aggregate,
                'replica_of': replica_of}

    add('chain2', [comp('A'), comp('B', ['A:ref'])],
        {'stage0.A': m(), 'stage0.B': m(producers=['stage0.A'])})
    add('chain3', [comp('A'), comp('B', ['A:ref']), comp('C', ['B:ref'])],
        {'stage0.A': m(), 'stage0.B': m(producers=['stage0.A']), 'stage0.C': m(producers=['stage0.B'])})
    add('fanin', [comp('P1'), comp('P2'), comp('C', ['P1:ref', 'P2:ref'])],
        {'stage0.P1': m(), 'stage0.P2': m(), 'stage0.C': m(producers=['stage0.P1', 'stage0.P2'])})
    add('diamond', [comp('A'), comp('B', ['A:ref']), comp('C', ['A:ref']), comp('D', ['B:ref', 'C:ref'])],
        {'stage0.A': m(), 'stage0.B': m(producers=['stage0.A']), 'stage0.C': m(producers=['stage0.A']),
         'stage0.D': m(producers=['stage0.B', 'stage0.C'])})
    add('xstage', [comp('A'), comp('B', ['stage0.A:ref'], stage=1)],
        {'stage0.A': m(), 'stage1.B': m(1, ['stage0.A'])})
    add('xstage3', [comp('A'), comp('B', ['A:ref']), comp('C', ['stage0.B:ref'], stage=1)],
        {'stage0.A': m(), 'stage0.B': m(producers=['stage0.A']), 'stage1.C': m(1, ['stage0.B'])})
    add('observer', [comp('A'), comp('B', ['A:ref']), obs('Obs', ['B:ref'])],
        {'stage0.A': m(), 'stage0.B': m(producers=['stage0.A']),
         'stage0.Obs': m(producers=['stage0.B'], repeat=True)})
    add('observer2', [comp('P'), obs('Obs', ['P:ref']), comp('Q', ['P:ref'])],
        {'stage0.P': m(), 'stage0.Obs': m(producers=['stage0.P'], repeat=True), 'stage0.Q': m(producers=['stage0.P'])})
    add('xobserver', [comp('A'), obs('Obs', ['stage0.A:ref'], stage=1), comp('B', ['stage0.A:ref'], stage=1)],
        {'stage0.A': m(), 'stage1.Obs': m(1, ['stage0.A'], repeat=True), 'stage1.B': m(1, ['stage0.A'])})
    add('replica', [comp('S', wa={'replicate': 2}), comp('W', ['S:ref']), comp('Agg', ['W:ref'], wa={'aggregate': True})],
        {'stage0.S0': m(replica_of='S'), 'stage0.S1': m(replica_of='S'),
         'stage0.W0': m(producers=['stage0.S0'], replica_of='W'), 'stage0.W1': m(producers=['stage0.S1'], replica_of='W'),
         'stage0.Agg': m(producers=['stage0.W0', 'stage0.W1'], aggregate=True)})
    add('replica-mixed', [comp('S', wa={'replicate': 2}), comp('N'), comp('Agg', ['S:ref', 'N:ref'], wa={'aggregate': True}),
                          comp('T', ['Agg:ref'])],
        {'stage0.S0': m(replica_of='S'), 'stage0.S1': m(replica_of='S'), 'stage0.N': m(),
         'stage0.Agg': m(producers=['stage0.S0', 'stage0.S1', 'stage0.N'], aggregate=True),
         'stage0.T': m(producers=['stage0.Agg'])})
    add('observer-2subj', [comp('A'), comp('S1'), comp('S2', ['A:ref']), obs('Obs', ['S1:ref', 'S2:ref'])],
        {'stage0.A': m(), 'stage0.S1': m(), 'stage0.S2': m(producers=['stage0.A']),
         'stage0.Obs': m(producers=['stage0.S1', 'stage0.S2'], repeat=True)})
    add('observer-2subj-rev', [comp('A'), comp('S1'), comp('S2', ['A:ref']), obs('Obs', ['S2:ref', 'S1:ref'])],
        {'stage0.A': m(), 'stage0.S1': m(), 'stage0.S2': m(producers=['stage0.A']),
         'stage0.Obs': m(producers=['stage0.S1', 'stage0.S2'], repeat=True)})
    add('xobs-mixed', [comp('P'), comp('S', stage=1), obs('Obs', ['stage0.P:ref', 'S:ref'], stage=1)],
        {'stage0.P': m(), 'stage1.S': m(1), 'stage1.Obs': m(1, ['stage0.P', 'stage1.S'], repeat=True)})
    # an observer of two producers with the SAME name in different stages (continued components); both listing orders
    add('xobs-samename', [comp('G'), comp('G', stage=1), obs('Obs', ['stage1.G:ref', 'stage0.G:ref'], stage=1)],
        {'stage0.G': m(), 'stage1.G': m(1), 'stage1.Obs': m(1, ['stage0.G', 'stage1.G'], repeat=True)})
    add('xobs-samename-rev', [comp('G'), comp('G', stage=1), obs('Obs', ['stage0.G:ref', 'stage1.G:ref'], stage=1)],
        {'stage0.G': m(), 'stage1.G': m(1), 'stage1.Obs': m(1, ['stage0.G', 'stage1.G'], repeat=True)})
    # two independent chains in one stage (in both node orders): the fate of one chain must not leak into the other
    add('twochains', [comp('A'), comp('B', ['A:ref']), comp('C'), comp('D', ['C:ref'])],
        {'stage0.A': m(), 'stage0.B': m(producers=['stage0.A']), 'stage0.C': m(), 'stage0.D': m(producers=['stage0.C'])})
    add('twochains-rev', [comp('Y'), comp('Z', ['Y:ref']), comp('K'), comp('J', ['K:ref'])],
        {'stage0.Y': m(), 'stage0.Z': m(producers=['stage0.Y']), 'stage0.K': m(), 'stage0.J': m(producers=['stage0.K'])})
    # a component named like a top-level folder of the package, consumed through a stage-qualified reference
    W['folder-named'] = ({'components': [comp('lib'), comp('C', ['stage0.lib:ref'])]},
                         {'stage0.lib': m(), 'stage0.C': m(producers=['stage0.lib'])})
    FOLDER_EXTRAS['folder-named'] = {'extra_files': {'lib/readme.txt': 'a top-level folder called like the component'}}
    # `repeatInterval: 0` does not make a component repeat: B is a plain consumer of A
    add('chain2-zero', [comp('A'), comp('B', ['A:ref'], wa={'repeatInterval': 0})],
        {'stage0.A': m(), 'stage0.B': m(producers=['stage0.A'])})
    # a plain consumer of two producers with the same name, one in an earlier stage and one in its own stage
    add('samename-consumer', [comp('G'), comp('G', stage=1), comp('C', ['stage0.G:ref', 'stage1.G:ref'], stage=1)],
        {'stage0.G': m(), 'stage1.G': m(1), 'stage1.C': m(1, ['stage0.G', 'stage1.G'])})
    add('samename-consumer-rev', [comp('G'), comp('G', stage=1), comp('C', ['stage1.G:ref', 'stage0.G:ref'], stage=1)],
        {'stage0.G': m(), 'stage1.G': m(1), 'stage1.C': m(1, ['stage0.G', 'stage1.G'])})
    add('xreplica-agg', [comp('S', wa={'replicate': 2}), comp('Agg', ['stage0.S:ref'], stage=1, wa={'aggregate': True}),
                         comp('T', ['Agg:ref'], stage=1)],
        {'stage0.S0': m(replica_of='S'), 'stage0.S1': m(replica_of='S'),
         'stage1.Agg': m(1, ['stage0.S0', 'stage0.S1'], aggregate=True), 'stage1.T': m(1, ['stage1.Agg'])})
    add('late-sibling', [comp('Y'), comp('A'), comp('X', ['A:ref'])],
        {'stage0.Y': m(), 'stage0.A': m(), 'stage0.X': m(producers=['stage0.A'])})
    add('xreplica-agg-slow', [comp('S', wa={'replicate': 2}), comp('X'), comp('Agg', ['stage0.S:ref'], stage=1, wa={'aggregate': True})],
        {'stage0.S0': m(replica_of='S'), 'stage0.S1': m(replica_of='S'), 'stage0.X': m(),
         'stage1.Agg': m(1, ['stage0.S0', 'stage0.S1'], aggregate=True)})
    add('restart3', [comp('Z'), comp('P', stage=1), comp('Q', stage=1), comp('C', ['stage1.P:ref', 'stage1.Q:ref'], stage=2)],
        {'stage0.Z': m(), 'stage1.P': m(1), 'stage1.Q': m(1), 'stage2.C': m(2, ['stage1.P', 'stage1.Q'])})
    add('pair', [comp('P1'), comp('P2')], {'stage0.P1': m(), 'stage0.P2': m()})
    add('agg-plain', [comp('P'), comp('Agg', ['P:ref'], wa={'aggregate': True}), comp('T', ['Agg:ref'])],
        {'stage0.P': m(), 'stage0.Agg': m(producers=['stage0.P'], aggregate=True), 'stage0.T': m(producers=['stage0.Agg'])})
    # DoWhile: S -> looped component L (three iterations 0..2: the condition file says True, True, False) -> C consumes the loop
    dw = {'type': 'DoWhile', 'inputBindings': {'src': {'type': 'ref'}}, 'loopBindings': {}, 'condition': 'L/cond.txt:output',
          'components': [{'name': 'L', 'command': {'executable': 'ls', 'arguments': 'src:ref'}, 'references': ['src:ref'],
                          'resourceManager': {'config': {'backend': 'simulator'}}}]}
    W['dowhile'] = ({'components': [comp('S'), {'name': 'loop', 'stage': 0, '$import': 'dowhile.yaml', 'bindings': {'src': 'S:ref'}},
                                     comp('C', ['stage0.L:ref'], stage=1)]},
                    {'stage0.S': m(), 'stage0.0#L': m(producers=['stage0.S']), 'stage0.1#L': m(producers=['stage0.S', 'stage0.0#L']),
                     'stage0.2#L': m(producers=['stage0.S', 'stage0.1#L']),
                     'stage1.C': m(1, ['stage0.0#L', 'stage0.1#L', 'stage0.2#L'])})
    W['dowhile-same'] = ({'components': [comp('S'), {'name': 'loop', 'stage': 0, '$import': 'dowhile.yaml', 'bindings': {'src': 'S:ref'}},
                                          comp('Q', ['L:ref'])]},
                         {'stage0.S': m(), 'stage0.0#L': m(producers=['stage0.S']), 'stage0.1#L': m(producers=['stage0.S', 'stage0.0#L']),
                          'stage0.2#L': m(producers=['stage0.S', 'stage0.1#L']),
                          'stage0.Q': m(0, ['stage0.0#L', 'stage0.1#L', 'stage0.2#L'])})
    DOWHILE_EXTRAS['dowhile-same'] = {'extra_files': {'conf/dowhile.yaml': json.dumps(dw)},
                                      'exit_files': {'L': {'cond.txt': ['True', 'True', 'False']}},
                                      'loop': ['stage0.0#L', 'stage0.1#L', 'stage0.2#L']}
    # a loop of two components: W does the work, K (which consumes from W and may run longer) produces the condition; Q, outside
    # the loop, consumes from W through the placeholder
    dw2 = {'type': 'DoWhile', 'inputBindings': {'src': {'type': 'ref'}}, 'loopBindings': {}, 'condition': 'K/cond.txt:output',
           'components': [{'name': 'W', 'command': {'executable': 'ls', 'arguments': 'src:ref'}, 'references': ['src:ref'],
                           'resourceManager': {'config': {'backend': 'simulator'}}},
                          {'name': 'K', 'command': {'executable': 'ls', 'arguments': 'W:ref'}, 'references': ['W:ref'],
                           'resourceManager': {'config': {'backend': 'simulator'}}}]}
    W['dowhile2'] = ({'components': [comp('S'), {'name': 'loop', 'stage': 0, '$import': 'dowhile.yaml', 'bindings': {'src': 'S:ref'}},
                                      comp('Q', ['W:ref'])]},
                     {'stage0.S': m(), 'stage0.0#W': m(producers=['stage0.S']), 'stage0.0#K': m(producers=['stage0.0#W']),
                      'stage0.1#W': m(producers=['stage0.S', 'stage0.0#K']), 'stage0.1#K': m(producers=['stage0.1#W']),
                      'stage0.Q': m(0, ['stage0.0#W', 'stage0.1#W'])})
    DOWHILE_EXTRAS['dowhile2'] = {'extra_files': {'conf/dowhile.yaml': json.dumps(dw2)},
                                  'exit_files': {'K': {'cond.txt': ['True', 'False']}}, 'faults_outside_loop_only': True,
                                  'loop': ['stage0.0#W', 'stage0.0#K', 'stage0.1#W', 'stage0.1#K'],
                                  'iterations': [['stage0.0#W', 'stage0.0#K'], ['stage0.1#W', 'stage0.1#K']],
                                  # in the workflow graph the condition component precedes the consumers of the placeholder
                                  'not_leaves': ['stage0.0#K', 'stage0.1#K']}
    DOWHILE_EXTRAS['dowhile'] = {'extra_files': {'conf/dowhile.yaml': json.dumps(dw)}, 'exit_files': {'L': {'cond.txt': ['True', 'True', 'False']}},
                                 'loop': ['stage0.0#L', 'stage0.1#L', 'stage0.2#L']}
    return W


DOWHILE_EXTRAS = {}
FOLDER_EXTRAS = {}


# exit-reason alphabet of one task execution: (label, reason, duration)
def attr_variants(doc, node_attrs):
    """returns a copy of doc with workflowAttributes patched for the given base component names."""
    d = copy.deepcopy(doc)
    for c in d['components']:
        extra = node_attrs.get(c['name'])
        if extra:
            c.setdefault('workflowAttributes', {}).update(extra)
    return d


def base_name(ref, meta):
    r = meta[ref].get('replica_of')
    return r if r else ref.split('.', 1)[1]


# ---------------------------------------------------------------------------------------------- reference model
def reference_outcome(meta, script, attrs, stages_run, loop_nodes=None, start=0, iterations=None):
    """Independent model of the documented rules (written from the property statement).

    script: node -> list of reason labels, consumed one per task execution (last repeats).
    attrs: node -> {'shutdownOn': [...], 'restartHookOn': [...], 'maxRestarts': n}
    Returns (expected: node -> set of acceptable final states, unrecoverable: bool, failed_nodes: set).
    """
    order = sorted(meta, key=lambda n: (meta[n]['stage'], topo_rank(meta, n)))
    state = {}
    unrecoverable = False
    acceptable = {}
    loop = (loop_nodes or [])
    for n in order:
        if meta[n]['stage'] < start:
            state[n] = 'finished'   # skipped stage of a restarted experiment
            continue
        if meta[n]['stage'] not in stages_run:
            continue
        if n in loop:
            # iterations are instantiated as a whole; the last component of an iteration produces the condition
            its = iterations or [[x] for x in loop]
            i = [k for k, it in enumerate(its) if n in it][0]
            if i > 0 and state.get(its[i - 1][-1]) != 'finished':
                # the previous iteration did not finish: the loop stops, this iteration is never instantiated
                state[n] = 'never-instantiated'
                acceptable[n] = {'never-instantiated'}
                continue
        prods = [p for p in meta[n]['producers'] if state.get(p) != 'never-instantiated']
        a = attrs.get(n, {})
        shutdown_on = a.get('shutdownOn', [])
        restart_on = a.get('restartHookOn', ['ResourceExhausted'])
        max_restarts = a.get('maxRestarts', 3)
        if any(state.get(p) == 'failed' for p in prods):
            state[n] = 'component_shutdown'
        elif meta[n]['aggregate']:
            rep = [p for p in prods if meta[p]['replica_of']]
            non = [p for p in prods if not meta[p]['replica_of']]
            if any(state[p] == 'component_shutdown' for p in non) or \
                    (rep and all(state[p] == 'component_shutdown' for p in rep)):
                state[n] = 'component_shutdown'
        elif any(state.get(p) == 'component_shutdown' for p in prods):
            state[n] = 'component_shutdown'
        if n in state:
            acceptable[n] = {state[n]}
            if meta[n]['repeat'] and any(meta[p]['stage'] == meta[n]['stage'] for p in prods):
                # an observer that is already running when its subject is shut down / fails may complete normally:
                # the statement does not say which; both outcomes are accepted
                acceptable[n] = {'component_shutdown', 'finished'}
            continue
        if meta[n]['repeat']:
            # a repeating component stops by itself once its producers are finished; its engine reports Success
            state[n] = 'finished'
            acceptable[n] = {'finished'}
            continue
        seq = list(script.get(n, ['Success']))
        restarts = 0
        resub = 0
        i = 0
        while True:
            r = seq[min(i, len(seq) - 1)].rstrip('!')
            i += 1
            if r == 'Success':
                state[n] = 'finished'
                break
            if r == 'SubmissionFailed':
                if resub < 5:
                    resub += 1
                    continue
                state[n] = 'failed'
                break
            if r in restart_on and r not in ('Killed', 'Cancelled'):
                if max_restarts == -1 or restarts + 1 <= max_restarts:
                    restarts += 1
                    continue
            if r in shutdown_on:
                state[n] = 'component_shutdown'
                break
            state[n] = 'failed'
            break
        if state[n] == 'failed':
            unrecoverable = True
        acceptable[n] = {state[n]}
    return acceptable, unrecoverable, {n for n, s in state.items() if s == 'failed'}


def topo_rank(meta, n, _memo=None):
    ps = meta[n]['producers']
    return 0 if not ps else 1 + max(topo_rank(meta, p) for p in ps)


# ---------------------------------------------------------------------------------------------- scenarios
REASONS = {
    'S': ['Success'],
    'KS': ['KnownIssue'],            # with shutdownOn [KnownIssue]  -> shut-down
    'KF': ['KnownIssue'],            # not on the shutdown list       -> failed (unrecoverable)
    'RS': ['ResourceExhausted', 'Success'],
    'R4': ['ResourceExhausted'] * 5,  # exceeds the default budget of 3 -> failed
    'XS': ['SubmissionFailed', 'Success'],
    'UF': ['UnknownIssue'],
    'RK': ['ResourceExhausted', 'KnownIssue'],  # restart, then shutdown (shutdownOn [KnownIssue])
    'TS': ['SubmissionFailed!', 'Success'],      # a task object that exits with SubmissionFailed (LSF/k8s style), then success
    'X6': ['SubmissionFailed'] * 6 + ['Success'],  # six failed submissions in a row exceed the cap of five -> failed
    'T6': ['SubmissionFailed!'] * 6 + ['Success'],
}
SHUTDOWN_LABELS = ('KS', 'RK')


TRACE_GROUPS = {
    'loop': [['control.py', 'run'], ['control.py', 'finishedCheck']],                              # lost wake-ups of the stage loop
    'finish': [['workflow.py', 'finish'], ['workflow.py', 'stop_engine'], ['workflow.py', 'final_state']],   # subscription vs engine death
    'postmortem': [['control.py', 'postMortemCheck'], ['control.py', '_restartComponent'], ['workflow.py', 'restart']],
    'schedule': [['control.py', '_schedule'], ['control.py', '_input_dependencies_satisfied'],
                 ['control.py', '_comp_get_active_predecessors']],
    'engine': [['engine.py', 'restart'], ['engine.py', 'kill'], ['engine.py', 'run']],
}
TRACE_SCENARIOS = [('pair', {}, {}), ('pair', {'stage0.P1': 'KS'}, {}), ('pair', {'stage0.P1': 'KF'}, {'stage0.P2': 40.0}),
                   ('chain2', {}, {}), ('chain2', {'stage0.A': 'RS'}, {}), ('chain2', {'stage0.A': 'KF'}, {}),
                   ('fanin', {'stage0.P1': 'KF', 'stage0.P2': 'RS'}, {}), ('observer', {}, {}), ('observer', {'stage0.A': 'KS'}, {}),
                   ('twochains', {'stage0.A': 'KS'}, {'stage0.C': 25.0})]
# quick: these, plus two more (scenario, group) combinations that rotate with VERIF_SEED; thorough: all of them
TRACE_QUICK = [('pair', {}, 'loop'), ('pair', {'stage0.P1': 'KS'}, 'loop'), ('pair', {'stage0.P1': 'KF'}, 'finish'),
               ('chain2', {'stage0.A': 'RS'}, 'postmortem')]


PAUSE_SCENARIOS = [('dowhile-same', {}, [1.5, 2.5]), ('dowhile-same', {}, [2.5, 3.5]), ('dowhile', {}, [1.5, 2.5]),
                   ('chain2', {}, [0.5, 1.5]), ('chain2', {'stage0.A': 'KF'}, [0.5, 30.0]), ('observer', {}, [1.5, 9.0]),
                   ('fanin', {'stage0.P1': 'KS'}, [0.5, 1.5])]


def make_scenarios(tier):
    """Deterministic list of scenario dicts: {'id', 'wf', 'labels': {node: label}, 'dur': {node: seconds}}"""
    W = workflows()
    out = []
    quick_labels = ['S', 'KS', 'KF', 'RS', 'XS', 'TS', 'X6', 'T6']
    all_labels = list(REASONS)
    for wname, (doc, meta) in W.items():
        nodes = [n for n in meta if not meta[n]['repeat']]
        labels = all_labels if tier == 'thorough' else quick_labels
        # every single-node deviation from all-success, and every pair (thorough: every assignment for <=3 nodes)
        assigns = [dict()]
        for n in nodes:
            for l in labels:
                if l != 'S':
                    assigns.append({n: l})
        pair_labels = ['KS', 'KF', 'RS'] if tier != 'thorough' else ['KS', 'KF', 'RS', 'XS', 'R4']
        for a, b in itertools.combinations(nodes, 2):
            for la in pair_labels:
                for lb in pair_labels:
                    assigns.append({a: la, b: lb})
        loop_nodes = DOWHILE_EXTRAS.get(wname, {}).get('loop', [])
        for asg in assigns:
            if DOWHILE_EXTRAS.get(wname, {}).get('faults_outside_loop_only') and any(n in loop_nodes for n in asg):
                continue
            if any(n in loop_nodes and l in SHUTDOWN_LABELS for n, l in asg.items()):
                # what a shut-down loop iteration means for the loop (and its consumers) is not said by the statement
                continue
            for durmode in (('fast',) if tier != 'thorough' else ('fast', 'slow-first')):
                dur = {}
                if durmode == 'slow-first' and nodes:
                    dur[nodes[0]] = 12.0
                out.append({'wf': wname, 'labels': asg, 'dur': dur})
    # a few with long running producers so that observers repeat while the producer lives
    out.append({'wf': 'observer', 'labels': {}, 'dur': {'stage0.B': 12.0}})
    out.append({'wf': 'observer', 'labels': {'stage0.B': 'KS'}, 'dur': {'stage0.B': 12.0}})
    out.append({'wf': 'observer2', 'labels': {'stage0.P': 'KF'}, 'dur': {'stage0.P': 12.0}})
    out.append({'wf': 'fanin', 'labels': {'stage0.P1': 'KF'}, 'dur': {'stage0.P2': 40.0}})
    out.append({'wf': 'fanin', 'labels': {'stage0.P1': 'KS'}, 'dur': {'stage0.P2': 40.0}})
    # a restartable exit of X (staged in a later batch than Y) lands while the unrecoverable exit of Y is being handled
    out.append({'wf': 'fanin', 'labels': {'stage0.P1': 'KF', 'stage0.P2': 'RS'}, 'dur': {'stage0.P2': 25.0003}})
    # line-level preemption (every source line of the listed functions is a choice point, with a stall alternative)
    for wf, lab, dur in TRACE_SCENARIOS:
        for g in TRACE_GROUPS:
            out.append({'wf': wf, 'labels': lab, 'dur': dur, 'trace': TRACE_GROUPS[g], 'group': g})
    # memoization: the component database offers a past execution for some components; fetching its files works ('hit': the
    # component finishes without a task) or fails ('fetch-fails': the component must be executed after all)
    for wf, memos in (('chain2', [{'stage0.A': 'hit'}, {'stage0.B': 'hit'}, {'stage0.A': 'fetch-fails'}, {'stage0.B': 'fetch-fails'},
                                  {'stage0.A': 'hit', 'stage0.B': 'fetch-fails'}, {'stage0.A': 'fetch-fails', 'stage0.B': 'hit'},
                                  {'stage0.A': 'hit', 'stage0.B': 'hit'}]),
                      # (components whose names end in a digit have no memoization hash - known finding of C16 - so the
                      # workflows with P1/P2/S0/S1 cannot be used here)
                      ('diamond', [{'stage0.A': 'hit'}, {'stage0.B': 'fetch-fails'}, {'stage0.B': 'hit', 'stage0.C': 'fetch-fails'},
                                   {'stage0.D': 'fetch-fails'}, {'stage0.B': 'fetch-fails', 'stage0.C': 'fetch-fails'}]),
                      ('xstage', [{'stage0.A': 'hit'}, {'stage1.B': 'fetch-fails'}])):
        for memo in memos:
            out.append({'wf': wf, 'labels': {}, 'dur': {}, 'memo': memo})
            for n, how in memo.items():
                if how == 'fetch-fails':
                    for lab in ('KS', 'KF', 'RS'):
                        out.append({'wf': wf, 'labels': {n: lab}, 'dur': {}, 'memo': memo})
    # the operator pauses the controller (Controller.sleep) and wakes it up again while notifications arrive; line-level
    # preemption inside wake_up / finishedCheck, with a long stall so that a periodic scheduler pass fits into the window
    for wf, lab, pause in PAUSE_SCENARIOS:
        out.append({'wf': wf, 'labels': lab, 'dur': {}, 'pause': pause, 'stalls': [6.0], 'group': 'pause',
                    'trace': [['control.py', 'wake_up'], ['control.py', 'finishedCheck']]})
    # the experiment is (re)started from a later stage: the components of the skipped stages count as finished
    for lab in ({}, {'stage1.P': 'KS'}, {'stage1.P': 'KF'}, {'stage1.Q': 'KS'}, {'stage1.P': 'RS'}):
        for dur in ({}, {'stage1.Q': 40.0}, {'stage1.P': 40.0}):
            out.append({'wf': 'restart3', 'labels': lab, 'dur': dur, 'start': 1})
    out.append({'wf': 'xstage3', 'labels': {}, 'dur': {}, 'start': 1})
    # the condition component of a loop outlives the looped component whose output is consumed outside the loop
    for d in (3.0, 8.0):
        out.append({'wf': 'dowhile2', 'labels': {}, 'dur': {'stage0.0#K': d, 'stage0.1#K': d}})
    # a producer fails while siblings of its stage are still running: the stage drains over several scheduler passes
    for sl in ('KF', 'KS'):
        out.append({'wf': 'xreplica-agg-slow', 'labels': {'stage0.S0': sl}, 'dur': {'stage0.S1': 40.0, 'stage0.X': 40.0}})
        out.append({'wf': 'xreplica-agg-slow', 'labels': {'stage0.S0': sl}, 'dur': {'stage0.S1': 40.0, 'stage0.X': 60.0}})
        out.append({'wf': 'xreplica-agg-slow', 'labels': {'stage0.S0': sl}, 'dur': {'stage0.X': 40.0}})
    out.append({'wf': 'fanin', 'labels': {'stage0.P1': 'KF', 'stage0.P2': 'KS'}, 'dur': {'stage0.P2': 25.0003}})
    for d in (23.0, 24.0, 25.0):
        out.append({'wf': 'late-sibling', 'labels': {'stage0.Y': 'KF', 'stage0.X': 'RS'}, 'dur': {'stage0.X': d}})
        out.append({'wf': 'late-sibling', 'labels': {'stage0.Y': 'KF', 'stage0.X': 'KS'}, 'dur': {'stage0.X': d}})
    seen = set()
    res = []
    for s in out:
        k = canon(s)
        if k in seen:
            continue
        seen.add(k)
        s['id'] = case_id(s)
        res.append(s)
    return res


def build(scn):
    """scenario dict -> (harness.Scenario, meta, model script, attrs)"""
    from verif.vsched.harness import Scenario
    doc, meta = workflows()[scn['wf']]
    node_attrs = {}
    script = {}
    mscript = {}
    attrs = {}
    for n, l in scn['labels'].items():
        b = base_name(n, meta)
        if l in SHUTDOWN_LABELS:
            node_attrs.setdefault(b, {})['shutdownOn'] = ['KnownIssue']
        mscript[n] = REASONS[l]
    for n in meta:
        b = base_name(n, meta)
        if node_attrs.get(b, {}).get('shutdownOn'):
            attrs[n] = {'shutdownOn': ['KnownIssue']}
    doc = attr_variants(doc, node_attrs)
    for n, how in (scn.get('memo') or {}).items():
        if how == 'hit':
            mscript[n] = ['Success']   # its outputs are taken from a past execution: finished without a task of its own
    for n in meta:
        seq = mscript.get(n, ['Success'])
        d = scn['dur'].get(n, 0.0)
        script[n] = [['LaunchOSError' if r == 'SubmissionFailed' else r.rstrip('!'), d] for r in seq]
    stages = sorted({meta[n]['stage'] for n in meta if meta[n]['stage'] >= scn.get('start', 0)})
    ex = DOWHILE_EXTRAS.get(scn['wf'], {}) or FOLDER_EXTRAS.get(scn['wf'], {})
    return Scenario(doc, script=script, name=scn['wf'], extra_files=ex.get('extra_files'), exit_files=ex.get('exit_files'),
                    outmode=scn.get('outmode'), memo=scn.get('memo'),
                    stages=(stages if scn.get('start') else None)), meta, mscript, attrs, stages


# ---------------------------------------------------------------------------------------------- judges
EXTRA_PREDECESSORS = {}


def snapshot_for_launch(job, task=None):
    """Runs inside the execution at every task creation / ComponentState.run(): states of the graph predecessors."""
    from verif.vsched.harness import H
    ctrl = H.controller
    ref = job.reference if hasattr(job, 'reference') else job
    snap = []
    preds = set(ctrl.graph.predecessors(ref)) | set(EXTRA_PREDECESSORS.get(ref, []))
    for p in sorted(preds):
        try:
            pc = ctrl.get_compstate(p)
            snap.append([p, pc.state, any(e['kind'] == 'comp-run' and e['ref'] == p for e in H.events)])
        except Exception as e:  # noqa
            snap.append([p, 'NO-COMPONENT', False])
    return snap


def judge_c01(x, meta, loop_nodes=None):
    """Invariant monitor over the event log. Returns list of (why, sig)."""
    bad = []
    first_final = {}   # the final state a component was first given (a final state must not change afterwards)
    for e in x.events:
        if e['kind'] == 'comp-finish' and e['final'] in FINAL:
            first_final.setdefault(e['ref'], e['final'])
        if e['kind'] not in ('launch', 'comp-run'):
            continue
        ref = e['ref']
        if ref not in meta:
            continue
        me = meta[ref]
        for p, st, run_called in (e.get('snap') or []):
            if p not in meta:
                continue
            if st in FINAL and first_final.get(p, st) != st:
                st = first_final[p]
            same_stage = meta[p]['stage'] == me['stage']
            what = 'task of %s launched' % ref if e['kind'] == 'launch' else '%s.run() called' % ref
            if me['repeat'] and same_stage:
                if not run_called and st not in FINAL:
                    bad.append(('%s at t=%s before its same-stage producer %s was launched (state %s)' % (what, e['t'], p, st),
                                'C01:observer-before-subject-launch'))
            elif st not in FINAL:
                bad.append(('%s at t=%s while producer %s is in non-final state %r' % (what, e['t'], p, st),
                            'C01:launch-before-producer-final'))
            if st == 'failed':
                bad.append(('%s at t=%s although producer %s FAILED' % (what, e['t'], p), 'C01:launch-after-failed-producer'))
            if st == 'component_shutdown' and not me['aggregate'] and not (me['repeat'] and same_stage):
                bad.append(('%s at t=%s although producer %s is SHUT DOWN and %s is not aggregating' % (what, e['t'], p, ref),
                            'C01:launch-after-shutdown-producer'))
    return bad


def judge_c02(x, meta, mscript, attrs, stages, loop_nodes=None, start=0, iterations=None, not_leaves=None):
    bad = []
    ret = x.result.get('ret')
    if ret != 'done':
        bad.append(('stage loop did not terminate: %s at virtual time %.1f after %d steps' % (ret, x.vtime, x.steps),
                    'C02:no-termination:%s' % ret))
        return bad
    ran = x.result.get('stages', [])
    stages_run = [s for s, _ in ran]
    acceptable, unrecoverable, failed_nodes = reference_outcome(meta, mscript, attrs, set(stages_run), loop_nodes, start, iterations)
    # exactly one final state for every component of the stages that ran
    for n in meta:
        if meta[n]['stage'] not in stages_run:
            continue
        f = x.final.get(n, {})
        st = f.get('state')
        if acceptable.get(n) == {'never-instantiated'}:
            if n in x.final:
                bad.append(('loop iteration %s was instantiated although the previous iteration did not finish' % n, 'C02:loop-continued'))
            continue
        if st not in FINAL:
            bad.append(('after run() returned, %s is in non-final state %r' % (n, st), 'C02:non-final:%s' % st))
            continue
        # A component that was shut down while its own post-mortem handler was still waiting for a stable system can be
        # moved on to its rule-given state by that handler (shut-down -> failed on the unchanged tree, two producers that
        # fail one second apart). The statement constrains the state each component ENDS in, which is judged below; a
        # change between two final states is recorded, not judged.
        given = [e['final'] for e in x.events if e['kind'] == 'comp-finish' and e['ref'] == n and e['final'] in FINAL]
        if given and given[0] != st:
            x.extra.setdefault('final_state_changes', []).append('%s->%s' % (given[0], st))
    if bad:
        return bad
    if not unrecoverable:
        for n, acc in acceptable.items():
            if acc == {'never-instantiated'}:
                continue
            st = x.final[n]['state']
            if st not in acc:
                bad.append(('no unrecoverable exit, rules give %s for %s but it ended %s' % (sorted(acc), n, st),
                            'C02:wrong-final:%s->%s' % ('|'.join(sorted(acc)), st)))
        outcomes = dict(ran)
        for s in stages_run:
            if outcomes[s] not in ('ok', 'FinalStageNoFinishedLeafComponents'):
                bad.append(('no unrecoverable exit but run() of stage %d raised %s' % (s, outcomes[s]), 'C02:spurious-raise:%s' % outcomes[s]))
        last = max(meta[n]['stage'] for n in meta)
        if last in stages_run:
            leaves = [n for n in meta if meta[n]['stage'] == last and not any(n in meta[c]['producers'] for c in meta)
                      and acceptable.get(n) != {'never-instantiated'} and n not in (not_leaves or ())]
            any_finished = any(x.final.get(n, {}).get('state') == 'finished' for n in leaves)
            if any_finished and outcomes[last] != 'ok':
                bad.append(('a leaf of the final stage finished but run() raised %s' % outcomes[last], 'C02:final-stage-verdict'))
            if not any_finished and outcomes[last] != 'FinalStageNoFinishedLeafComponents':
                bad.append(('no leaf of the final stage finished but run() returned %s' % outcomes[last], 'C02:final-stage-verdict'))
    else:
        fstage = min(meta[n]['stage'] for n in failed_nodes)
        if fstage in stages_run:
            actual_failed = [n for n in meta if x.final.get(n, {}).get('state') == 'failed']
            if not actual_failed:
                bad.append(('a task exits unrecoverably (%s) but no component ended FAILED' % sorted(failed_nodes), 'C02:no-failed-component'))
            else:
                # "the stage containing it": the stage of a component that actually ended failed. A component of an earlier
                # stage whose task also exited unrecoverably may have been shut down first (a component of a later stage that
                # was launched early failed and stopped the experiment) - the statement allows "shut down" for it.
                fstage = min(meta[n]['stage'] for n in actual_failed if n in failed_nodes) if any(
                    n in failed_nodes for n in actual_failed) else fstage
            outcomes = dict(ran)
            if outcomes.get(fstage) != 'UnexpectedJobFailureError':
                bad.append(('a task of stage %d exits unrecoverably but run() ended with %s' % (fstage, outcomes.get(fstage)),
                            'C02:failed-stage-not-reported:%s' % outcomes.get(fstage)))
            if x.stage_states.get(fstage) != 'failed' and actual_failed:
                bad.append(('stage %d contains a failed component but reports state %r' % (fstage, x.stage_states.get(fstage)),
                            'C02:stage-state'))
            for n, acc in acceptable.items():
                if meta[n]['stage'] != fstage and meta[n]['stage'] in stages_run and meta[n]['stage'] > fstage:
                    continue
                st = x.final.get(n, {}).get('state')
                if n in failed_nodes or acc == {'never-instantiated'}:
                    continue
                if st not in acc | {'component_shutdown'}:
                    bad.append(('unrecoverable exit elsewhere; %s must end %s or shut down but ended %s' % (n, sorted(acc), st),
                                'C02:wrong-final-after-failure:%s' % st))
            if any(s > fstage for s in stages_run):
                bad.append(('stages after the failed stage %d were run: %s' % (fstage, stages_run), 'C02:ran-after-failure'))
    return bad


# ---------------------------------------------------------------------------------------------- exploration driver
def run_one(col, which, scn, prefix, remaining, boundary_only=False):
    """Executes one schedule (prefix then canonical), judges it and recursively explores deviations after the prefix."""
    from verif.vsched import harness as h
    hs, meta, mscript, attrs, stages = build(scn)
    h.install()
    h.H.on_launch = snapshot_for_launch
    EXTRA_PREDECESSORS.clear()
    # the producers of the reference model count as predecessors whatever the product's own graph says (a dependency edge
    # that the product dropped must not hide the missing wait)
    for n, mm in meta.items():
        if mm['producers']:
            EXTRA_PREDECESSORS[n] = list(mm['producers'])
    loop_nodes = DOWHILE_EXTRAS.get(scn['wf'], {}).get('loop')
    if loop_nodes:
        # a consumer of a looped component must wait for the whole loop: every iteration the script will instantiate
        for n, mm in meta.items():
            if n not in loop_nodes and any(p in loop_nodes for p in mm['producers']):
                EXTRA_PREDECESSORS[n] = sorted(set(EXTRA_PREDECESSORS.get(n, [])) | set(p for p in mm['producers'] if p in loop_nodes))
    # ComponentState.run snapshots
    x = h.execute(hs, prefix, trace=scn.get('trace'), pause=scn.get('pause'), stalls=scn.get('stalls'))
    col.evaluated()
    col.traces += 1
    col.transitions += x.steps
    for fp in x.fps:
        col.state(fp)
    if x.errors:
        col.count('executions_with_activity_exceptions')
    bad = judge_c01(x, meta, loop_nodes) if which == 'C01' else judge_c02(x, meta, mscript, attrs, stages, loop_nodes, scn.get('start', 0),
                                                                            DOWHILE_EXTRAS.get(scn['wf'], {}).get('iterations'),
                                                                            DOWHILE_EXTRAS.get(scn['wf'], {}).get('not_leaves'))
    for ch in x.extra.get('final_state_changes', []):
        col.count('executions_with_a_change_between_final_states:' + ch)
    outcome = (scn['wf'], x.result.get('ret'), tuple(sorted((n, f.get('state')) for n, f in x.final.items())),
               tuple(map(tuple, x.result.get('stages', []))))
    col.outcome('%s:%s' % (scn['wf'], case_id(outcome)))
    col.nontriv({'scn': scn['id'], 'prefix': prefix})
    case = {'scenario': scn, 'choices': prefix}
    seen = set()
    for why, sig in bad:
        if sig in seen:
            continue
        seen.add(sig)
        col.fail(case, why, {'final': x.final, 'result': x.result, 'stage_states': x.stage_states,
                             'labels_tail': x.labels[max(0, len(prefix) - 3):len(prefix) + 3]}, sig=sig)
    if remaining > 0:
        for i in range(len(prefix), len(x.points)):
            for alt in range(1, x.points[i]):
                if boundary_only and not is_boundary(x.alts[i][alt]):
                    continue
                run_one(col, which, scn, x.choices[:i] + [alt], remaining - 1, boundary_only)
    return x


BOUNDARY = ('rx:Controller', 'main', 'exit:', 'tick', 'thread:')


def is_boundary(label):
    """Deviations restricted to boundary actions: controller-pool callbacks, main-loop passes, task exits, timer ticks,
    monitor-thread steps (used for deviation bound 2, see DESIGN §2.1)."""
    return label.startswith(BOUNDARY)


def worker_canon(col, item, tier, seed):
    which, scn = item
    x = run_one(col, which, scn, [], 0)
    col.payload.append((scn['id'], (x.points, x.alts, x.preempt)))
    if len(col.samples) < 1:
        col.sample({'scenario': scn, 'choices': [], 'schedule_labels_head': x.labels[:12], 'final': {n: f['state'] for n, f in x.final.items()}})


def worker_dev(col, item, tier, seed):
    which, scn, alts, positions, points, remaining = item
    for i in positions:
        for alt in range(1, points[i]):
            if alts is not None and not is_boundary(alts[i][alt]):
                continue
            run_one(col, which, scn, [0] * i + [alt], remaining, boundary_only=remaining > 0)


THOROUGH_DEEP_WORKFLOWS = ('chain2', 'pair', 'fanin', 'xstage', 'observer')


def select_deep(scns, tier, seed):
    """Scenarios explored with all 1-deviation schedules."""
    core = [('chain2', {}), ('observer', {}), ('pair', {})]
    sel = []

    def find(wf, labels):
        for s in scns:
            if s['wf'] == wf and s['labels'] == labels and not s['dur'] and not s.get('trace') and not s.get('memo'):
                return s
        raise HarnessError('core scenario %s %s missing' % (wf, labels))

    for wf, labels in core:
        sel.append(find(wf, labels))
    rotate = [('chain2', {'stage0.A': 'KS'}), ('chain2', {'stage0.A': 'KF'}), ('chain2', {'stage0.A': 'RS'}),
              ('xstage', {}), ('chain2', {'stage0.B': 'KF'}), ('chain2', {'stage0.A': 'XS'}), ('xstage', {'stage0.A': 'KS'})]
    if tier == 'thorough':
        # every single-fault scenario of the core workflows (all workflows would take about a day of CPU)
        for s in scns:
            if s not in sel and len(s['labels']) <= 1 and not s['dur'] and not s.get('trace') and not s.get('memo') \
                    and s['wf'] in THOROUGH_DEEP_WORKFLOWS:
                sel.append(s)
    else:
        sel.append(find(*rotate[seed % len(rotate)]))
    return sel


def run(ctx, which):
    scns = make_scenarios(ctx.tier)
    only = os.environ.get('VERIF_E1_ONLY')   # development aid: JSON list of [wf, labels]; all of them explored deep
    if only:
        want = json.loads(only)
        scns = [s for s in scns if [s['wf'], s['labels']] in want and not s['dur']]
        ctx.outcome('development aid VERIF_E1_ONLY')
    ctx.count('scenarios', len(scns))
    ctx.pmap('verif.vsched.ctl', 'worker_canon', [(which, s) for s in scns], maxtasksperchild=40)
    points = dict(ctx.payload)
    deep = scns if only else select_deep(scns, ctx.tier, ctx.seed)
    ctx.count('scenarios_with_all_1_deviation_schedules', len(deep))
    items = []
    for s in deep:
        pts, alts, _pre = points[s['id']]
        step = max(1, len(pts) // 24)
        for lo in range(0, len(pts), step):
            items.append((which, s, None, list(range(lo, min(len(pts), lo + step))), pts, 0))
    ctx.pmap('verif.vsched.ctl', 'worker_dev', items, maxtasksperchild=4)
    # two-fault scenarios (a restartable exit racing an unrecoverable / shutdown exit of a sibling): all schedules with one
    # deviation at a boundary action (controller-pool callback, main-loop pass, task exit, timer tick, monitor step)
    races = [('fanin', {'stage0.P1': 'KF', 'stage0.P2': 'RS'}), ('fanin', {'stage0.P1': 'KS', 'stage0.P2': 'RS'})]
    if ctx.tier == 'thorough':
        races += [('fanin', {'stage0.P1': 'RS', 'stage0.P2': 'KF'}), ('diamond', {'stage0.B': 'KF', 'stage0.C': 'RS'}),
                  ('replica', {'stage0.S0': 'KF', 'stage0.S1': 'RS'}), ('fanin', {'stage0.P1': 'KF', 'stage0.P2': 'XS'})]
    items = []
    nrace = 0
    traced = [x for x in scns if x.get('trace')]
    if ctx.tier != 'thorough':
        fixed = [x for x in traced if (x['wf'], x['labels'], x['group']) in TRACE_QUICK or (x['group'] == 'pause' and x['wf'] == 'dowhile-same' and x['pause'] == [1.5, 2.5])]
        rest = [x for x in traced if x not in fixed and x['group'] != 'schedule']
        traced = fixed + ([rest[(2 * ctx.seed + k) % len(rest)] for k in range(2)] if rest else [])
    races = [(w, l, {}) for w, l in races] + [('late-sibling', {'stage0.Y': 'KF', 'stage0.X': 'RS'}, {'stage0.X': 24.0}),
                                             ('fanin', {'stage0.P1': 'KF', 'stage0.P2': 'RS'}, {'stage0.P2': 25.0003}),
                                             ('xreplica-agg-slow', {'stage0.S0': 'KF'}, {'stage0.S1': 40.0, 'stage0.X': 40.0})]
    for wf, labels, dur in (races if not only else []):
        sc = [x for x in scns if x['wf'] == wf and x['labels'] == labels and x['dur'] == dur and not x.get('trace') and not x.get('memo')]
        if not sc:
            continue
        nrace += 1
        pts, alts, _pre = points[sc[0]['id']]
        step = max(1, len(pts) // 16)
        for lo in range(0, len(pts), step):
            items.append((which, sc[0], alts, list(range(lo, min(len(pts), lo + step))), pts, 0))
    ctx.count('two_fault_scenarios_with_all_1_boundary_deviation_schedules', nrace)
    for sc in (traced if not only else []):
        pts, alts, pre = points[sc['id']]
        # deviations at the line-level points only (the other points are those of the untraced scenario)
        pos = [i for i in range(len(pts)) if pre[i]]
        step = max(1, len(pos) // 12)
        for lo in range(0, len(pos), step):
            items.append((which, sc, None, pos[lo:lo + step], pts, 0))
        ctx.count('line_level_preemption_points', len(pos))
    ctx.count('line_level_preemption_scenarios_with_all_1_deviation_schedules', len(traced) if not only else 0)
    ctx.pmap('verif.vsched.ctl', 'worker_dev', items, maxtasksperchild=4)
    if ctx.tier == 'thorough':
        # deviation bound 2 restricted to boundary actions, for the smallest workflows
        d2 = [s for s in deep if s['wf'] == 'chain2' and (not s['labels'] or s['labels'] == {'stage0.A': 'KF'})][:2]
        ctx.count('scenarios_with_2_deviations_at_boundary_actions', len(d2))
        items = []
        for s in d2:
            pts, alts, _pre = points[s['id']]
            for i in range(len(pts)):
                if any(is_boundary(a) for a in alts[i][1:]):
                    items.append((which, s, alts, [i], pts, 1))
        ctx.pmap('verif.vsched.ctl', 'worker_dev', items, maxtasksperchild=2)
    ctx.count('deviation_bound_completed', 1)
    ctx.payload = []


def replay(ctx, which, case):
    run_one(ctx, which, case['scenario'], case['choices'], 0)
