"""Generators for C04: FlowIR documents whose layers define/omit one variable or option with layer-tagged values.

A *spec* is a small tuple (family, ...) ; `build(spec)` -> (doc, user_variables or None). Everything is deterministic.
Platforms: 'default' (always), 'P' and 'Q' (two non-default platforms; when one is selected the other one is the
"other platform" whose settings must not leak).  Stages: 0 (component A - carries the component level layers - and
N - no component level layers) and 1 (component B, the bystander that sees the other stage's scope).
"""
import itertools

PLATFORMS = ('default', 'P', 'Q')
VAR_LAYERS = ('dg', 'ds', 'Pg', 'Ps', 'Qg', 'Qs', 'ug', 'us', 'c', 'ovP', 'ovQ')
OPT_LAYERS = ('bdg', 'bds', 'bPg', 'bPs', 'bQg', 'bQs', 'c', 'ovP', 'ovQ')
_PLAT = {'d': 'default', 'P': 'P', 'Q': 'Q'}


def set_path(d, path, value):
    keys = path.split('.')
    for k in keys[:-1]:
        d = d.setdefault(k, {})
    d[keys[-1]] = value


class Builder:
    def __init__(self):
        self.doc = {'platforms': list(PLATFORMS), 'components': []}
        self.user = None
        self.comps = {}

    def comp(self, name, stage, arguments=None):
        c = {'name': name, 'stage': stage, 'command': {'executable': 'ls'}}
        if arguments is not None:
            c['command']['arguments'] = arguments
        self.doc['components'].append(c)
        self.comps[name] = c
        return c

    def var(self, layer, name, value, comp='A', stage=0):
        if layer in ('dg', 'Pg', 'Qg'):
            d = self.doc.setdefault('variables', {}).setdefault(_PLAT[layer[0]], {}).setdefault('global', {})
        elif layer in ('ds', 'Ps', 'Qs'):
            d = self.doc.setdefault('variables', {}).setdefault(_PLAT[layer[0]], {}).setdefault('stages', {}) \
                .setdefault(stage, {})
        elif layer == 'ug':
            self.user = self.user if self.user is not None else {}
            d = self.user.setdefault('global', {})
        elif layer == 'us':
            self.user = self.user if self.user is not None else {}
            d = self.user.setdefault('stages', {}).setdefault(stage, {})
        elif layer == 'c':
            d = self.comps[comp].setdefault('variables', {})
        elif layer in ('ovP', 'ovQ'):
            d = self.comps[comp].setdefault('override', {}).setdefault(layer[2], {}).setdefault('variables', {})
        else:
            raise ValueError(layer)
        d[name] = value

    def opt(self, layer, path, value, comp='A', stage=0):
        if layer in ('bdg', 'bPg', 'bQg'):
            d = self.doc.setdefault('blueprint', {}).setdefault(_PLAT[layer[1]], {}).setdefault('global', {})
        elif layer in ('bds', 'bPs', 'bQs'):
            d = self.doc.setdefault('blueprint', {}).setdefault(_PLAT[layer[1]], {}).setdefault('stages', {}) \
                .setdefault(stage, {})
        elif layer == 'c':
            d = self.comps[comp]
        elif layer in ('ovP', 'ovQ'):
            d = self.comps[comp].setdefault('override', {}).setdefault(layer[2], {})
        else:
            raise ValueError(layer)
        set_path(d, path, value)

    def done(self):
        # variables.<platform> sections are written in full (both scopes) like hand written packages do
        for plat, v in self.doc.get('variables', {}).items():
            v.setdefault('global', {})
            v.setdefault('stages', {})
        return self.doc, self.user


def three_components(b, a_args='a', n_args='n', b_args='b'):
    b.comp('A', 0, a_args)
    b.comp('N', 0, n_args)
    b.comp('B', 1, b_args)


def chain_components(b, a_args):
    """A (stage 0) carries the chain; the stage-1 bystander B pins every chain variable itself so that it always
    resolves (otherwise nearly every package would be rejected at load time because of B)."""
    b.comp('A', 0, a_args)
    b.comp('B', 1, 'b %(v0)s')
    for n in ('v0', 'v1', 'v2'):
        b.var('c', n, 'b-' + n, comp='B')


# ---------------------------------------------------------------------------------------------- F1: one variable
def specs_var_subsets(thorough):
    for mask in range(1 << len(VAR_LAYERS)):
        yield ('var-subsets', mask, 1)
        if thorough:
            yield ('var-subsets', mask, 0)


def build_var_subsets(spec):
    _, mask, complement = spec
    b = Builder()
    three_components(b, 'a=%(v)s')
    b.var('dg', 'k', 'K')
    b.var('c', 'k2', 'K2')
    on = [l for i, l in enumerate(VAR_LAYERS) if mask >> i & 1]
    for l in on:
        b.var(l, 'v', 't-' + l)
    if complement:
        # the other stage (1) defines the variable exactly where stage 0 does not: must never reach stage 0 and v.v.
        for l in ('ds', 'Ps', 'Qs'):
            if l not in on:
                b.var(l, 'v', 't-' + l + '1', stage=1)
        if 'us' not in on and 'ug' in on:
            b.var('us', 'v', 't-us1', stage=1)
    return b.done()


# ---------------------------------------------------------------------------------------------- F2: one option
OPTIONS = {
    'threads': 'resourceRequest.numberThreads',
    'args': 'command.arguments',
    'queue': 'resourceManager.lsf.queue',
    'shutdown': 'workflowAttributes.shutdownOn',
    'walltime': 'resourceManager.config.walltime',
}
OPT_SHAPES = ('lit', 'ref', 'ref-comp-only', 'ref-bp-only', 'ref-rebound')


def opt_literal(opt, idx, tag):
    if opt == 'threads':
        return 11 + idx
    if opt == 'walltime':
        return (31 + idx) if idx % 2 else (31.5 + idx)
    if opt == 'shutdown':
        return ['so-' + tag] if idx % 2 else ['so-' + tag, 'x']
    return '%s-%s' % (opt, tag)


def opt_ref_value(opt, idx, tag):
    """(option value that refers to a variable, variable name, variable value)"""
    name = 'r_' + tag
    if opt == 'threads':
        return '%%(%s)s' % name, name, (41 + idx) if idx % 2 else str(41 + idx)
    if opt == 'walltime':
        return '%%(%s)s' % name, name, (61 + idx) if idx % 2 else '%d.5' % (61 + idx)
    if opt == 'shutdown':
        return ['%%(%s)s' % name, 'lit-' + tag], name, 'rv-' + tag
    return 'pre %%(%s)s post' % name, name, 'rv-' + tag


def specs_opt_subsets(thorough):
    for opt in sorted(OPTIONS):
        for shape in OPT_SHAPES:
            if not thorough and shape in ('ref-comp-only', 'ref-bp-only') and opt not in ('args', 'threads'):
                continue
            if shape == 'ref-rebound' and opt not in (('args', 'queue', 'shutdown') if thorough else ('args',)):
                continue
            for mask in range(1 << len(OPT_LAYERS)):
                yield ('opt-subsets', opt, shape, mask)


def build_opt_subsets(spec):
    _, opt, shape, mask = spec
    path = OPTIONS[opt]
    b = Builder()
    b.comp('A', 0, None if opt == 'args' else 'a')
    b.comp('B', 1, None if opt == 'args' else 'b')
    b.var('dg', 'k', 'K')
    on = [l for i, l in enumerate(OPT_LAYERS) if mask >> i & 1]
    places = [(l, 0, l, i) for i, l in enumerate(OPT_LAYERS) if l in on]
    # the other stage carries its own definition exactly where stage 0 has none
    places += [(l, 1, l + '1', 9 + j) for j, l in enumerate(('bds', 'bPs', 'bQs')) if l not in on]
    for layer, stage, tag, idx in places:
        if shape == 'lit':
            b.opt(layer, path, opt_literal(opt, idx, tag), stage=stage)
            continue
        value, name, vval = opt_ref_value(opt, idx, tag)
        b.opt(layer, path, value, stage=stage)
        is_comp_layer = layer in ('c', 'ovP', 'ovQ')
        if shape in ('ref', 'ref-rebound') or (shape == 'ref-comp-only' and is_comp_layer) or \
                (shape == 'ref-bp-only' and not is_comp_layer):
            b.var('dg', name, vval)
        if shape == 'ref-rebound':
            # the referenced variable is given again by a higher layer (component A's own variables)
            b.var('c', name, 'hi-' + tag)
    return b.done()


# ---------------------------------------------------------------------------------------------- F3: chains
def specs_chains(thorough):
    for a in VAR_LAYERS:
        for bb in VAR_LAYERS:
            for c in VAR_LAYERS + ('none',):
                yield ('chain', a, bb, c)


def build_chain(spec):
    _, a, bb, c = spec
    b = Builder()
    chain_components(b, 'x %(v0)s y')
    b.var('dg', 'k', 'K')
    b.var(a, 'v0', '%(v1)s')
    b.var(bb, 'v1', 'p-%(v2)s-q')
    if c != 'none':
        b.var(c, 'v2', 42)
    return b.done()


def specs_rebind(thorough):
    for a in VAR_LAYERS:
        for b1, b2 in itertools.combinations(VAR_LAYERS, 2):
            yield ('rebind', a, b1, b2)


def build_rebind(spec):
    _, a, b1, b2 = spec
    b = Builder()
    chain_components(b, 'x %(v0)s y')
    b.var(a, 'v0', '<%(v1)s>')
    b.var(b1, 'v1', 't-' + b1)
    b.var(b2, 'v1', 't-' + b2)
    return b.done()


def specs_competing(thorough):
    for a, a2 in itertools.permutations(VAR_LAYERS, 2):
        for w in ('dg', 'c', 'none'):
            yield ('competing', a, a2, w)


def build_competing(spec):
    _, a, a2, w = spec
    b = Builder()
    chain_components(b, 'x %(v0)s y')
    b.var(a, 'v0', 'via-%(v1)s')
    b.var(a2, 'v0', 'lit-' + a2)
    if w != 'none':
        b.var(w, 'v1', 7)
    return b.done()


# ---------------------------------------------------------------------------------------------- F5: pairs
REDUCED = ('dg', 'Pg', 'Qs', 'ug', 'c', 'ovP')
SIBLINGS = (
    ('resourceRequest.numberThreads', 'resourceRequest.numberProcesses', lambda i: 11 + i, lambda i: 51 + i),
    ('resourceManager.lsf.queue', 'resourceManager.lsf.reservation', lambda i: 'q-%d' % i, lambda i: 'res-%d' % i),
    ('workflowAttributes.shutdownOn', 'workflowAttributes.repeatRetries', lambda i: ['so-%d' % i], lambda i: 71 + i),
)


def specs_pairs(thorough):
    for a in VAR_LAYERS:
        for bb in VAR_LAYERS:
            yield ('var-pair', a, bb)
    for s in range(len(SIBLINGS)):
        for a in OPT_LAYERS:
            for bb in OPT_LAYERS:
                yield ('opt-pair', s, a, bb)
    if thorough:
        for m1 in range(1 << len(REDUCED)):
            for m2 in range(1 << len(REDUCED)):
                yield ('var-pair-subsets', m1, m2)


def build_pairs(spec):
    b = Builder()
    if spec[0] == 'var-pair':
        _, a, bb = spec
        three_components(b, '%(x)s+%(y)s')
        b.var(a, 'x', 'x-' + a)
        b.var(bb, 'y', 'y-' + bb)
    elif spec[0] == 'var-pair-subsets':
        _, m1, m2 = spec
        three_components(b, 'a')
        for i, l in enumerate(REDUCED):
            if m1 >> i & 1:
                b.var(l, 'x', 'x-' + l)
            if m2 >> i & 1:
                b.var(l, 'y', 'y-' + l)
    else:
        _, s, a, bb = spec
        p1, p2, f1, f2 = SIBLINGS[s]
        b.comp('A', 0, 'a')
        b.comp('B', 1, 'b')
        b.opt(a, p1, f1(OPT_LAYERS.index(a)))
        b.opt(bb, p2, f2(OPT_LAYERS.index(bb)))
    return b.done()


# ---------------------------------------------------------------------------------------------- F6: typed options
TYPED = (
    # path, kind
    ('resourceRequest.numberThreads', 'int'),
    ('resourceRequest.numberProcesses', 'int'),
    ('workflowAttributes.repeatRetries', 'int'),
    ('resourceManager.config.walltime', 'number'),
    ('resourceManager.lsf.statusRequestInterval', 'number'),
    ('command.resolvePath', 'bool'),
    ('workflowAttributes.isMigratable', 'bool'),
    ('workflowAttributes.optimizer.disable', 'bool'),
    ('workflowAttributes.memoization.disable.strong', 'bool'),
    ('workflowAttributes.memoization.disable.fuzzy', 'bool'),
)
TYPED_SOURCES = {
    # source -> (option value, variable value or None)
    'int': (('native', 4, None), ('ref-native', '%(n)s', 4), ('ref-text', '%(n)s', '4'), ('embedded', '1%(n)s', 4),
            ('ref-chain', '%(m)s', 4)),
    'number': (('native-int', 30, None), ('native-float', 2.5, None), ('ref-int', '%(n)s', 30),
               ('ref-float', '%(n)s', 2.5), ('ref-text', '%(n)s', '2.5'), ('ref-chain', '%(m)s', 30)),
    'bool': (('native-true', True, None), ('native-false', False, None), ('ref-true', '%(n)s', True),
             ('ref-false', '%(n)s', False), ('ref-chain-false', '%(m)s', False), ('ref-chain-true', '%(m)s', True)),
}
TYPED_OPT_LAYERS = ('bdg', 'bPs', 'c', 'ovP')
TYPED_VAR_LAYERS = ('dg', 'Ps', 'ug', 'c')


def specs_typed(thorough):
    for i, (path, kind) in enumerate(TYPED):
        for src in TYPED_SOURCES[kind]:
            for ol in TYPED_OPT_LAYERS:
                for vl in (TYPED_VAR_LAYERS if src[2] is not None else ('-',)):
                    yield ('typed', i, src[0], ol, vl)


def build_typed(spec):
    _, i, srcname, ol, vl = spec
    path, kind = TYPED[i]
    src = [s for s in TYPED_SOURCES[kind] if s[0] == srcname][0]
    b = Builder()
    b.comp('A', 0, 'a')
    b.comp('B', 1, 'b')
    b.opt(ol, path, src[1])
    if src[2] is not None:
        b.var(vl, 'n', src[2])
        b.var('dg', 'm', '%(n)s')
    return b.done()


FAMILIES = {
    'var-subsets': (specs_var_subsets, build_var_subsets),
    'opt-subsets': (specs_opt_subsets, build_opt_subsets),
    'chain': (specs_chains, build_chain),
    'rebind': (specs_rebind, build_rebind),
    'competing': (specs_competing, build_competing),
    'pairs': (specs_pairs, build_pairs),
    'typed': (specs_typed, build_typed),
}
FAMILY_ORDER = ('typed', 'pairs', 'competing', 'rebind', 'chain', 'var-subsets', 'opt-subsets')


def specs(family, thorough):
    return list(FAMILIES[family][0](thorough))


def build(family, spec):
    return FAMILIES[family][1](spec)


def fix_stage_keys(doc, user):
    """After a JSON round trip the integer stage keys are strings; the product needs integers."""
    def fix(d):
        return {(int(k) if isinstance(k, str) and k.lstrip('-').isdigit() else k): v for k, v in (d or {}).items()}
    for sect in ('variables', 'blueprint'):
        for plat, body in (doc.get(sect) or {}).items():
            if isinstance(body, dict) and 'stages' in body:
                body['stages'] = fix(body['stages'])
    if user and 'stages' in user:
        user['stages'] = fix(user['stages'])
    return doc, user
