"""Generators for C07: on-disk packages (FlowIR document + optional DoWhile document + user variable files) and
operation histories.  Pure data, deterministic, no imports from `experiment`.

A *package spec* is a dict
    {'platform': 'default'|'P', 'uv': 'none'|'one'|'two'|'two-rev'|'conf', 'rep': 0|1, 'loop': 0|1|2, 'bp': 0|1}
* platform  - the platform the instance is created for.  The document always defines BOTH platforms and P overrides
              values of `default` in every section (variables global / stage, environments, blueprint global / stage,
              component override), so with `default` selected nothing of P may leak and with `P` selected everything of
              P must survive the trip through conf/flowir_instance.yaml (which only has a `default` platform).
* uv        - user variable files handed to experimentFromPackage: none / one file / two files (layered, the second
              redefines a global and adds stage scoped variables) / the same two in reverse order / one legacy .conf file
* rep       - 0: no replication; 1: stage0.mid is replicated (count comes from variable N, which user file 1 changes
              from 2 to 3), the sink aggregates; inside a loop `add` is replicated x2 and `fake_add` aggregates
* loop      - 0: no DoWhile; 1: a one-stage DoWhile document imported at stage 1 (components add, fake_add, stop);
              2: a two-stage DoWhile document (`stop` lives in the second loop stage)
* layout    - (optional key, default 'dir') 'dir': package directory with real top level folders data/ extra/ special/;
              'file': single FlowIR file + manifest with copied and LINKED top level folders (see layout())
* bp        - 1: additionally the blueprint of platform P (global scope) and the blueprint of `default` (stage scope)
              define the SAME option (resourceRequest.numberThreads); only generated for loop>0, platform P, uv none/two
"""
import copy
import itertools

# values whose YAML spelling is fragile (would change type or content if written unquoted / re-parsed carelessly)
LITERALS = {
    'lit_oct': '010', 'lit_yes': 'yes', 'lit_exp': '1e3', 'lit_hex': '0x1F', 'lit_sexa': '12:30:00', 'lit_null': 'null',
    'lit_tilde': '~', 'lit_colon': 'a: b', 'lit_dash': '- x', 'lit_hash': 'v #c', 'lit_quote': "it's \"q\"",
    'lit_lead': ' lead', 'lit_uni': 'déjà', 'lit_int': 7, 'lit_float': 1.5, 'lit_true': True, 'lit_false': False,
    'lit_big': 12345678901234567890, 'lit_brace': '{a: 1}', 'lit_brack': '[z]', 'lit_amp': '&a *b !c', 'lit_pct': '50%',
}


def stage_of_tail(spec):
    """Stage index of the components that come after the loop (sink, post)."""
    return {0: 1, 1: 2, 2: 3}[spec['loop']]


def dowhile_document(spec):
    if not spec['loop']:
        return None
    add = {'name': 'add', 'command': {'executable': 'echo', 'arguments': '%(g)s %(x)s %(s)s number:output'},
           'references': ['number:output'], 'variables': {'own': 'loop-own'}}
    fake = {'name': 'fake_add', 'command': {'executable': 'echo', 'arguments': 'add:output %(u)s'},
            'references': ['add:output'], 'workflowAttributes': {'restartHookOn': ['KnownIssue']}}
    if spec['rep']:
        add['workflowAttributes'] = {'replicate': 2}
        add['command']['arguments'] += ' %(replica)s'
        fake['workflowAttributes']['aggregate'] = True
    stop = {'name': 'stop', 'command': {'executable': 'echo', 'arguments': 'fake_add:output %(s)s %(chain)s'},
            'references': ['fake_add:output'], 'resourceRequest': {'numberProcesses': 2}}
    condition = 'stop/iteration.next:output'
    if spec['loop'] == 2:
        stop['stage'] = 1
        stop['references'] = ['stage0.fake_add:output']
        stop['command']['arguments'] = 'stage0.fake_add:output %(s)s %(chain)s'
        condition = 'stage1.stop/iteration.next:output'
    return {'type': 'DoWhile', 'inputBindings': {'number': {'type': 'output'}},
            'loopBindings': {'number': 'fake_add:output'}, 'condition': condition, 'components': [add, fake, stop]}


def document(spec):
    tail = stage_of_tail(spec)
    nstages = tail + 1
    dg = {'g': 'g-dg', 'x': 'x-dg', 'u': 'u-dg', 'N': 2, 'chain': 'pre-%(g)s-post', 'only_default': 'od'}
    dg.update(LITERALS)
    var_default = {'global': dg, 'stages': {i: {'s': 's%d-ds' % i} for i in range(nstages)}}
    var_default['stages'][0]['x'] = 'x-ds0'          # stage scope of default vs global scope of P: P.global wins
    var_default['stages'][1]['x'] = 'x-ds1'
    var_default['stages'][0]['sc'] = 'S-%(u)s'       # a stage variable that refers to a (user redefinable) variable
    for i in range(1, nstages):
        var_default['stages'][i]['sc'] = 'S%d-%%(u)s' % i
    var_p = {'global': {'g': 'g-Pg', 'x': 'x-Pg', 'only_p': 'op'},
             'stages': {i: {} for i in range(nstages)}}
    var_p['stages'][0]['s'] = 's0-Ps'
    var_p['stages'][tail]['s'] = 's%d-Ps' % tail
    if spec['loop']:
        var_p['stages'][1]['u'] = 'u-Ps1'

    doc = {
        'platforms': ['default', 'P'],
        'variables': {'default': var_default, 'P': var_p},
        'environments': {
            'default': {'env1': {'A': 'a-d', 'B': '%(g)s', 'DEFAULTS': 'PATH', 'PATH': '$PATH:/x/bin'},
                        'env2': {'C': 'c-d', 'LIT': '%(lit_colon)s'}},
            'P': {'env1': {'A': 'a-P', 'D': 'd-P'}},
        },
        'blueprint': {
            'default': {'global': {'command': {'environment': 'env1'},
                                   'workflowAttributes': {'maxRestarts': 2, 'shutdownOn': ['KnownIssue']}},
                        'stages': {0: {'resourceRequest': {'numberProcesses': 3}}}},
            'P': {'global': {'resourceManager': {'config': {'walltime': 120.0}}},
                  'stages': {0: {'resourceRequest': {'numberProcesses': 4, 'ranksPerNode': 2}},
                             tail: {'workflowAttributes': {'maxRestarts': 5}}}},
        },
        'status-report': {i: {'stage-weight': round(1.0 / nstages, 6) if i else 1.0 - round(1.0 / nstages, 6) * (nstages - 1),
                              'arguments': 'report-%d' % i, 'executable': 'echo', 'references': []}
                          for i in range(nstages)},
        'output': {'result': {'data-in': 'stage%d.sink/out.txt:copy' % tail, 'description': 'the: result'}},
        'components': [],
    }
    if spec['bp']:
        doc['blueprint']['default']['stages'][1] = {'resourceRequest': {'numberThreads': 3}}
        doc['blueprint']['P']['global']['resourceRequest'] = {'numberThreads': 5}
    comps = doc['components']
    comps.append({'stage': 0, 'name': 'src',
                  'references': ['data/values.txt:ref', 'input/in.txt:copy', 'extra/e.txt:ref', 'special/msg.txt:copy'],
                  'command': {'executable': 'echo',
                              'arguments': '%(g)s %(s)s %(x)s %(u)s %(chain)s %(sc)s %(own)s %(only_default)s '
                                           'data/values.txt:ref in.txt extra/e.txt:ref msg.txt'},
                  'variables': {'own': 'c-own', 'g2': 'comp-%(g)s'},
                  'workflowAttributes': {'restartHookOn': ['KnownIssue', 'Success'], 'repeatRetries': 1}})
    comps.append({'stage': 0, 'name': 'lit',
                  'command': {'interpreter': 'bash', 'expandArguments': 'none',
                              'arguments': 'echo ' + ' '.join('"%%(%s)s"' % k for k in sorted(LITERALS))},
                  'variables': {'lit_colon': 'c: d', 'empty': ''}})
    mid = {'stage': 0, 'name': 'mid', 'references': ['src:ref', 'src/out.txt:copy'],
           'command': {'executable': 'echo', 'arguments': 'src:ref out.txt %(s)s', 'environment': 'env2'},
           'resourceManager': {'config': {'backend': 'local', 'walltime': 30.0}},
           'executors': {'post': [{'name': 'lsf-dm-out', 'payload': 'all'}]}}
    if spec['rep']:
        mid['workflowAttributes'] = {'replicate': '%(N)s'}
        mid['command']['arguments'] += ' %(replica)s'
    comps.append(mid)
    if spec['loop']:
        comps.append({'stage': 1, 'name': 'loop', '$import': 'dowhile.yaml',
                      'bindings': {'number': 'stage0.src:output'}})
    sink_refs = ['stage0.mid:ref', 'special/msg.txt:ref']
    sink_args = 'stage0.mid:ref %(s)s %(x)s special/msg.txt:ref'
    post_refs = ['sink:ref']
    post_args = 'sink:ref %(g)s %(u)s'
    if spec['loop']:
        sink_refs.append('stage1.fake_add:output')
        sink_args += ' stage1.fake_add:output'
        post_refs.append('stage1.fake_add:loopref')
        post_args += ' stage1.fake_add:loopref'
        cond_stage = 1 if spec['loop'] == 1 else 2
        post_refs.append('stage%d.stop:ref' % cond_stage)
        post_args += ' stage%d.stop:ref' % cond_stage
    sink = {'stage': tail, 'name': 'sink', 'references': sink_refs,
            'command': {'executable': 'echo', 'arguments': sink_args},
            'override': {'P': {'command': {'arguments': 'P-over ' + sink_args},
                               'variables': {'ov': 'ov-P'},
                               'resourceRequest': {'memory': '2Gi'}}},
            'variables': {'ov': 'ov-c'}}
    if spec['rep']:
        sink['workflowAttributes'] = {'aggregate': True}
    comps.append(sink)
    comps.append({'stage': tail, 'name': 'post', 'references': post_refs,
                  'command': {'executable': 'echo', 'arguments': post_args}})
    return doc


def user_variable_files(spec):
    """-> list of (file name, python dict | text).  Layered in list order by experimentFromPackage."""
    tail = stage_of_tail(spec)
    uv1 = {'global': {'g': 'g-u1', 'N': 3, 'lit_oct': '007'}, 'stages': {tail: {'s': 's%d-u1' % tail}}}
    uv2 = {'global': {'g': 'g-u2', 'u': 'u-u2'}, 'stages': {0: {'s': 's0-u2', 'lit_yes': 'no'}, 1: {'x': 'x-u2'}}}
    conf = '[GLOBAL]\ng = g-uc\nN = 3\n\n[STAGE0]\ns = s0-uc\n'
    k = spec['uv']
    if k == 'none':
        return []
    if k == 'one':
        return [('uv1.yaml', uv1)]
    if k == 'two':
        return [('uv1.yaml', uv1), ('uv2.yaml', uv2)]
    if k == 'two-rev':
        return [('uv2.yaml', uv2), ('uv1.yaml', uv1)]
    if k == 'conf':
        return [('uv.conf', conf)]
    raise ValueError(k)


def layout(spec):
    """How the package is laid out on disk and how its top level folders reach the instance directory:
    'dir'  - a package directory conf/ data/ extra/ special/ (real folders, copied into the instance)
    'file' - a single FlowIR file plus a manifest {data: data (relative source, copied), extra: <abs>:copy,
             special: <abs>:link}; the instance gets real copies of data/ extra/ and a link special -> <abs>
    In both layouts components refer to files under all three folders; when the instance is re-loaded there is no
    package manifest any more, the folders have to be recognised from the instance directory itself."""
    return spec.get('layout', 'dir')


FOLDER_FILES = {'data': {'values.txt': '1\n2\n'}, 'extra': {'e.txt': 'extra\n'}, 'special': {'msg.txt': 'hello\n'}}


def extra_files(spec):
    """Files of a directory package besides conf/flowir_package.yaml (relative path -> text)."""
    return {'%s/%s' % (folder, name): text for folder in FOLDER_FILES for name, text in FOLDER_FILES[folder].items()}


INPUT_FILES = {'in.txt': 'input\n'}


def package_specs(thorough):
    uvs = ['none', 'one', 'two'] + (['two-rev', 'conf'] if thorough else [])
    loops = [0, 1] + ([2] if thorough else [])
    out = []
    for platform, uv, rep, loop in itertools.product(['default', 'P'], uvs, [0, 1], loops):
        out.append({'platform': platform, 'uv': uv, 'rep': rep, 'loop': loop, 'bp': 0})
        if loop and platform == 'P' and uv in ('none', 'two'):
            out.append({'platform': platform, 'uv': uv, 'rep': rep, 'loop': loop, 'bp': 1})
    # single-file packages with a manifest (no $import: the DoWhile document lives in the conf/ folder of a package dir)
    for platform, uv, rep in itertools.product(['default', 'P'], ['none', 'two'] + (['one', 'conf'] if thorough else []), [0, 1]):
        out.append({'platform': platform, 'uv': uv, 'rep': rep, 'loop': 0, 'bp': 0, 'layout': 'file'})
    return out


# --------------------------------------------------------------------------------------------------- histories
# letters: 'I'  instantiate the next DoWhile iteration with store_flowir_to_disk=True
#          'Pa' setOptionForNode(<plain node stage0.src>, '#command.arguments', value) ; store_unreplicated_flowir_to_disk()
#          'Pv' setOptionForNode(<special node>, 'g', value) ; store   (special = a replica / aggregate / looped instance)
#          'Pe' setOptionForNode(<sink node>, '#command.executable', value) ; store   (what checkExecutables does)
# quick:    DoWhile packages {I, Pv}, other packages {Pa, Pv};  thorough: DoWhile {I, Pa, Pv}, other {Pa, Pv, Pe}
def alphabet(spec, thorough):
    if thorough:
        # Pe (what checkExecutables does to the sink) is exercised on the packages without a loop
        return ['I', 'Pa', 'Pv'] if spec['loop'] else ['Pa', 'Pv', 'Pe']
    # quick: DoWhile packages interleave iterations with patches of the latest loop instance; the patch of the plain
    # node (Pa) is exercised on the packages without a loop
    return ['I', 'Pv'] if spec['loop'] else ['Pa', 'Pv']


def max_len(spec, thorough):
    return 3


def maximal_histories(spec, thorough):
    letters = alphabet(spec, thorough)
    return [list(h) for h in itertools.product(letters, repeat=max_len(spec, thorough))]


def first_visit(history, j, letters):
    """State history[:j] is checked in the run of `history` iff the rest of the history is the minimal extension
    (all first letters): every prefix state is then checked in exactly one run."""
    return all(x == letters[0] for x in history[j:])


def copy_spec(spec):
    return copy.deepcopy(spec)
