"""Case enumeration for C10 (command-line reference substitution).

A case is a JSON-able dict

    {'family': str,
     'refs':   [[stage|None, name, file|None, method, declared_spelling], ...]   # in DECLARATION order
     'tokens': [['r', ref_index, 'rel'|'abs', wrap] | ['l', literal_text], ...]  # arguments = ' '.join(rendered)
     'contents': {'<stage>/<name>/<file>': text},                                # non-default contents of :output files
     'streams': {'<stage>/<name>': [n, ...]},   # optional: the producer is REPEATING and has these archived stdout streams
     'consumer_repeat': bool,                   # optional: the consumer is a repeating component (same-stage observer)
     'interpreter': 'bash',                     # optional: the consumer sets command.interpreter and no executable
     'decl_via_variable': bool}                 # optional: producer names in `references:` are given through variables

All consumers live in stage CONSUMER_STAGE (1); producers live in stage 0 or 1 (so equal names across stages occur and
both spellings exist for same-stage producers); stage None denotes a direct reference to a reserved folder (`data`).
This module knows nothing about the implementation and nothing about the oracle.
"""
import hashlib
import itertools
import json

CONSUMER_STAGE = 1
NAMES_QUICK = ['A', 'AA', 'BA', 'AB', 'A-B', 'A.B', 'x']
NAMES_THOROUGH = NAMES_QUICK + ['B']
FILE = 'f.txt'
WRAPS = {'bare': ('', ''), 'key': ('key=', ''), 'opt': ('--opt=', ''), 'sub': ('', '/sub/path')}
ROTATING_SHARDS = 128


def canon(obj):
    return json.dumps(obj, sort_keys=True, ensure_ascii=True)


def spell(ref, how):
    stage, name, file, method = ref[0], ref[1], ref[2], ref[3]
    prod = name if file is None else '%s/%s' % (name, file)
    if how == 'abs' and stage is not None:
        return 'stage%d.%s:%s' % (stage, prod, method)
    if how not in ('abs', 'rel'):
        raise ValueError(how)
    return '%s:%s' % (prod, method)


def spellings_of(ref):
    """Spellings that may legitimately appear in a stage-CONSUMER_STAGE command line."""
    if ref[0] is None:
        return ['abs']
    return ['rel', 'abs'] if ref[0] == CONSUMER_STAGE else ['abs']


def default_content(stage, name, file):
    return 'OUT_s%s_%s_%s' % (stage, name, 'stdout' if file is None else file)


def content_key(stage, name, file):
    return '%s/%s/%s' % (stage, name, 'out.stdout' if file is None else file)


def render_token(tok, refs):
    if tok[0] == 'l':
        return tok[1]
    _, ridx, how, wrap = tok
    pre, post = WRAPS[wrap]
    return pre + spell(refs[ridx], how) + post


def render_arguments(case):
    return ' '.join(render_token(t, case['refs']) for t in case['tokens'])


def declared_strings(case):
    return [spell(r, r[4]) for r in case['refs']]


def mkref(p, method, declsp='abs', file=None):
    stage, name = p
    if method in ('out', 'output') and file is None:
        method, file = 'output', FILE
    elif method == 'sout':
        method, file = 'output', None
    elif method == 'fref':
        method, file = 'ref', FILE
    elif method == 'copy':
        method, file = 'copy', FILE
    if declsp == 'rel' and stage != CONSUMER_STAGE:
        declsp = 'abs'
    return [stage, name, file, method, declsp]


def case(family, refs, tokens, contents=None):
    return {'family': family, 'refs': [list(r) for r in refs], 'tokens': [list(t) for t in tokens],
            'contents': dict(contents or {})}


def universe(names):
    return [(s, n) for s in (0, 1) for n in names]


def psp(p):
    return ['rel', 'abs'] if p[0] == CONSUMER_STAGE else ['abs']


def wrap_for(ref, wrap):
    # `<contents>/sub/path` is meaningless for an :output reference; use the plain token instead
    return 'bare' if (wrap == 'sub' and ref[3] == 'output') else wrap


# ---------------------------------------------------------------------------------------------- families (fixed core)
def fam_pair(names, wraps_uniform=('bare', 'key', 'sub'), methods=('ref', 'out'), family='pair'):
    """every unordered producer pair x declaration order x (ref|output)^2 x every legal spelling x uniform wrapper
    (bare, key=; <ref>/sub/path when both are :ref); tokens in canonical (p, q) order."""
    U = universe(names)
    for p, q in itertools.combinations(U, 2):
        for mp, mq in itertools.product(methods, repeat=2):
            for sp, sq in itertools.product(psp(p), psp(q)):
                rp, rq = mkref(p, mp, sp), mkref(q, mq, sq)
                for order in ((0, 1), (1, 0)):
                    refs = [(rp, rq)[i] for i in order]
                    ip, iq = order.index(0), order.index(1)
                    for w in wraps_uniform:
                        if w == 'sub' and 'out' in (mp, mq):
                            continue        # `<ref>/sub/path` only where both tokens are paths
                        yield case(family, refs, [['r', ip, sp, w], ['r', iq, sq, w]])


def fam_triple(names, family='triple'):
    """every 3-subset x all 6 declaration orders x {all absolute, relative where legal}; all :ref, bare tokens."""
    U = universe(names)
    for trio in itertools.combinations(U, 3):
        modes = [tuple('abs' for _ in trio)]
        relmode = tuple('rel' if p[0] == CONSUMER_STAGE else 'abs' for p in trio)
        if relmode != modes[0]:
            modes.append(relmode)
        for mode in modes:
            base = [mkref(p, 'ref', s) for p, s in zip(trio, mode)]
            for order in itertools.permutations(range(3)):
                refs = [base[i] for i in order]
                toks = [['r', order.index(k), mode[k], 'bare'] for k in range(3)]
                yield case(family, refs, toks)


def fam_mixed(names, family='mixed'):
    """the same reference several times in one command line, in equal and in mixed spellings; alone and next to a
    second producer."""
    U = universe(names)
    pats = [('rel', 'abs'), ('abs', 'rel'), ('rel', 'rel'), ('abs', 'abs'), ('rel', 'abs', 'rel'), ('abs', 'rel', 'abs')]
    for p in U:
        if p[0] != CONSUMER_STAGE:
            # only the absolute spelling exists: duplicates only
            for m in ('ref', 'out'):
                yield case(family, [mkref(p, m)], [['r', 0, 'abs', 'bare'], ['r', 0, 'abs', 'key']])
            continue
        for m in ('ref', 'out'):
            for declsp in ('rel', 'abs'):
                for pat in pats:
                    yield case(family, [mkref(p, m, declsp)], [['r', 0, s, 'bare'] for s in pat])
        for q in U:
            if q == p:
                continue
            for sq in psp(q):
                for order in ((0, 1), (1, 0)):
                    base = [mkref(p, 'ref', 'rel'), mkref(q, 'ref', sq)]
                    refs = [base[i] for i in order]
                    ip, iq = order.index(0), order.index(1)
                    yield case(family, refs, [['r', ip, 'rel', 'bare'], ['r', iq, sq, 'bare'], ['r', ip, 'abs', 'bare']])


def lookalike_file(text):
    return 'la_%s.txt' % hashlib.sha1(text.encode()).hexdigest()[:8]


def fam_lookalike(names, forms=('{S}', 'v={S} w'), qmethods=('ref',), family='lookalike'):
    """an :output reference whose file content contains text that looks like (a) another declared reference,
    (b) itself, (c) an undeclared reference; both declaration orders."""
    U = universe(names)
    for p in U:
        for q in U:
            if q == p:
                continue
            for qm in qmethods:
                for sq in psp(q):
                    rq = mkref(q, qm, sq)
                    for form in forms:
                        text = form.replace('{S}', spell(rq, sq))
                        f = lookalike_file(text)
                        rp = [p[0], p[1], f, 'output', 'abs']
                        for order in ((0, 1), (1, 0)):
                            base = [rp, rq]
                            refs = [base[i] for i in order]
                            ip, iq = order.index(0), order.index(1)
                            yield case(family, refs, [['r', ip, 'abs', 'bare'], ['r', iq, sq, 'bare']],
                                       {content_key(p[0], p[1], f): text})
        # (b) own spelling inside own content, (c) undeclared reference-like text inside the content
        for text in ('pre stage%d.%s/SELF:output post' % (p[0], p[1]), 'zz:ref stage0.zz/f.txt:output'):
            f = lookalike_file(text)
            text = text.replace('SELF', f)
            rp = [p[0], p[1], f, 'output', 'abs']
            yield case(family, [rp], [['r', 0, 'abs', 'bare'], ['l', '-x']], {content_key(p[0], p[1], f): text})


def name_literals(p):
    s, n = p
    return [n, 'stage%d.%s' % (s, n), '%s/%s' % (n, FILE), 'stage%d.%s/ref' % (s, n), '-%s' % n, '%s.ref' % n]


def fam_literal(names, family='literal'):
    """literal words that collide with producer names / spellings (but are not references) around the references."""
    U = universe(names)
    for p, q in itertools.combinations(U, 2):
        for order in ((0, 1), (1, 0)):
            for mode in ('abs', 'rel'):
                sp = mode if mode in psp(p) else 'abs'
                sq = mode if mode in psp(q) else 'abs'
                if mode == 'rel' and sp == 'abs' and sq == 'abs':
                    continue
                base = [mkref(p, 'ref', sp), mkref(q, 'ref', sq)]
                refs = [base[i] for i in order]
                ip, iq = order.index(0), order.index(1)
                yield case(family, refs, [['l', q[1]], ['r', ip, sp, 'bare'], ['r', iq, sq, 'key'],
                                          ['l', 'stage%d.%s/%s' % (p[0], p[1], FILE)]])
    for p in U:
        lits = name_literals(p) + ['ref', 'output', 'a=b', '-o']
        for sp in psp(p):
            for m in ('ref', 'out'):
                for i in range(0, len(lits), 2):
                    yield case(family, [mkref(p, m, sp)], [['l', lits[i]], ['r', 0, sp, 'bare'], ['l', lits[i + 1]]])


def fam_methods(names, family='methods'):
    """other reference forms on every pair: references to a file inside the producer (`/f.txt:ref`), :output of the
    producer's stdout (no file), and a declared :copy reference that must not cause any substitution."""
    U = universe(names)
    for p, q in itertools.combinations(U, 2):
        for mode in ('abs', 'rel'):
            sp = mode if mode in psp(p) else 'abs'
            sq = mode if mode in psp(q) else 'abs'
            if mode == 'rel' and sp == 'abs' and sq == 'abs':
                continue
            for order in ((0, 1), (1, 0)):
                ip, iq = order.index(0), order.index(1)
                for mp, mq in (('fref', 'fref'), ('sout', 'sout'), ('fref', 'ref')):
                    base = [mkref(p, mp, sp), mkref(q, mq, sq)]
                    refs = [base[i] for i in order]
                    yield case(family, refs, [['r', ip, sp, 'bare'], ['r', iq, sq, 'bare']])
                # declared copy of p (never spelled in the arguments) next to a used reference to q, and vice versa
                for a, b, sb in ((p, q, sq), (q, p, sp)):
                    base = [mkref(a, 'copy', 'abs'), mkref(b, 'ref', sb)]
                    refs = [base[i] for i in order]
                    ib = order.index(1)
                    yield case(family, refs, [['l', FILE], ['r', ib, sb, 'bare'], ['l', '%s/%s' % (a[1], FILE)]])


def fam_direct(family='direct'):
    """a direct reference to a file in the reserved folder `data` next to a component whose name ends in `data`."""
    for s in (0, 1):
        comp = (s, 'Bdata')
        for dm in ('ref', 'output'):
            d = [None, 'data', FILE, dm, 'abs']
            for sc in psp(comp):
                for cm in ('fref', 'out'):
                    c = mkref(comp, cm, sc)
                    for order in ((0, 1), (1, 0)):
                        base = [d, c]
                        refs = [base[i] for i in order]
                        i_d, ic = order.index(0), order.index(1)
                        for toks in ([['r', i_d, 'abs', 'bare'], ['r', ic, sc, 'bare']],
                                     [['r', ic, sc, 'key'], ['r', i_d, 'abs', 'key']]):
                            yield case(family, refs, toks)


# Values that must be inserted VERBATIM although they are special to typical replacement machinery: regex replacement
# templates (backslash escapes, group references), sed/perl templates ($1, &), str.format / string.Template fields,
# regex and glob metacharacters. `%` and `[`/`]` are left out: the product documents %(var)s / [index]
# interpolation of the resolved string (out of scope here). None of them looks like a reference.
SPECIAL_VALUES = [
    'total\\tenergy', 'line\\nbreak', 'C:\\data\\new\\results', '^\\s*(\\d+)\\s+\\1$', 'a\\\\b', 'ends-with\\',
    '\\', '\\\\', '\\g<0>', '\\g<name> \\0 \\1', '\\x41\\u0041', '$1 ${name} $& $$', '& && \\&', '{0} {} {name} {{x}}',
    '.* a+b (c|d)? ^e$ f|g', '* ? ~ ! # ; < > " \' `', 'tab\there', 'two  spaces',
    # bytes that text-mode / line-oriented reading alters (the file is written byte-exactly; a final line feed is
    # never used because stripping it is conventional and not judged)
    'dos\r\nline', 'spinner 10\rspinner 20', 'ends-with-cr\r', '\rstarts-with-cr', 'cr\r\rcr', 'unix\nline',
    '\nstarts-with-lf', 'ff\x0cvt\x0bfs\x1c', 'nel\u0085ls\u2028ps\u2029', '\ufeffbom-first', ' leading-space',
    'trailing-space ',
]


def fam_special_values(family='special-value'):
    """an :output reference whose value (file contents, or the producer's stdout) contains characters that are special
    to replacement templates; alone, wrapped, between literals, and next to a second reference (both orders)."""
    q = (CONSUMER_STAGE, 'A')
    for i, text in enumerate(SPECIAL_VALUES):
        f = lookalike_file(text)
        for p in ((0, 'A'), (CONSUMER_STAGE, 'BA')):
            rp = [p[0], p[1], f, 'output', 'abs']
            cont = {content_key(p[0], p[1], f): text}
            for sp in psp(p):
                yield case(family, [rp], [['r', 0, sp, 'bare']], cont)
                yield case(family, [rp], [['l', '--filter'], ['r', 0, sp, 'key'], ['l', '--verbose']], cont)
                for mq in ('ref', 'out'):
                    rq = mkref(q, mq, 'rel')
                    for order in ((0, 1), (1, 0)):
                        base = [rp, rq]
                        refs = [base[k] for k in order]
                        ip, iq = order.index(0), order.index(1)
                        yield case(family, refs, [['r', iq, 'rel', 'opt'], ['r', ip, sp, 'bare']], cont)
        # the same value as the stdout of a dedicated producer (`stage0.v<i>:output`, no file)
        v = (0, 'v%d' % i)
        rv = [v[0], v[1], None, 'output', 'abs']
        cont = {content_key(v[0], v[1], None): text}
        yield case(family, [rv], [['l', '--filter'], ['r', 0, 'abs', 'bare'], ['l', '--verbose']], cont)
        rq = mkref((0, 'x'), 'fref', 'abs')
        for order in ((0, 1), (1, 0)):
            base = [rv, rq]
            refs = [base[k] for k in order]
            iv, iq = order.index(0), order.index(1)
            yield case(family, refs, [['r', iq, 'abs', 'key'], ['l', '--filter'], ['r', iv, 'abs', 'bare']], cont)



# :output (stdout, no file) of a REPEATING producer: the referenced file is the most recent archived stream
# streams/<n>.stdout. The alphabet is the SET of retained stream indexes (every sliding window of 1..4 consecutive
# repetitions over 0..13, windows straddling 99->100 and 999->1000, a few non-contiguous sets).
def stream_sets():
    sets = []
    for size in (1, 2, 3, 4):
        for lo in range(0, 14 - size + 1):
            sets.append(list(range(lo, lo + size)))
    sets += [[97, 98, 99, 100], [98, 99, 100, 101], [99, 100, 101, 102], [99, 100], [100, 101], [999, 1000],
             [998, 999, 1000, 1001], [2, 10], [1, 10, 100], [0, 5], [9, 11], [19, 20, 21], [9, 100], [20, 100, 3]]
    seen, out = set(), []
    for x in sets:
        if tuple(x) not in seen:
            seen.add(tuple(x))
            out.append(x)
    return out


def stream_content(stage, name, n):
    return 'STREAM_s%s_%s_%d' % (stage, name, n)


def fam_repeating(family='repeating-stdout'):
    """every stream-index set x {cross-stage consumer: key=<output>; <output> next to <same producer>:ref in both
    declaration orders; same-stage repeating consumer (observer) in both spellings}. Every case has its own producer."""
    for k, S in enumerate(stream_sets()):
        p = (0, 'r%d' % k)
        ro = [p[0], p[1], None, 'output', 'abs']
        rr = mkref(p, 'ref', 'abs')
        st = {'%d/%s' % p: list(S)}
        c = case(family, [ro], [['l', '--x'], ['r', 0, 'abs', 'key']])
        c['streams'] = st
        yield c
        for order in ((0, 1), (1, 0)):
            base = [ro, rr]
            refs = [base[i] for i in order]
            io, ir = order.index(0), order.index(1)
            c = case(family, refs, [['r', io, 'abs', 'bare'], ['r', ir, 'abs', 'key']])
            c['streams'] = st
            yield c
        q = (CONSUMER_STAGE, 'q%d' % k)
        for sp in ('rel', 'abs'):
            c = case(family, [[q[0], q[1], None, 'output', sp]], [['r', 0, sp, 'bare'], ['l', ';']])
            c['streams'] = {'%d/%s' % q: list(S)}
            c['consumer_repeat'] = True
            yield c



def fam_direct_suffix(names, family='direct-suffix'):
    """a direct reference (reserved folders `input`, `data`) whose path ends with the name of a producer component,
    next to a reference to that component, so that the component's short spelling is part of the direct reference
    (`input/A:ref` / `A:ref`, `input/A:output` / `A:output`, `data/A/f.txt:ref|output` / `A/f.txt:ref|output`);
    both declaration orders, both token orders, component in either stage and spelling."""
    for n in names:
        for comp in ((CONSUMER_STAGE, n), (0, n)):
            for sc in psp(comp):
                for dref, cm in (([None, 'input', n, 'ref', 'abs'], 'ref'),
                                 ([None, 'input', n, 'output', 'abs'], 'sout'),
                                 ([None, 'data', '%s/%s' % (n, FILE), 'ref', 'abs'], 'fref'),
                                 ([None, 'data', '%s/%s' % (n, FILE), 'output', 'abs'], 'out')):
                    c = mkref(comp, cm, sc)
                    for order in ((0, 1), (1, 0)):
                        base = [dref, c]
                        refs = [base[i] for i in order]
                        i_d, ic = order.index(0), order.index(1)
                        yield case(family, refs, [['r', i_d, 'abs', 'bare'], ['r', ic, sc, 'key']])
                        yield case(family, refs, [['r', ic, sc, 'bare'], ['l', '-i'], ['r', i_d, 'abs', 'key']])



WHITESPACE = ['', '\t', '\n', '  ', '\t\n', ' \n ']      # as literal tokens: joined with single blanks around them


def fam_whitespace(family='whitespace'):
    """literal text other than single blanks between / around the references (double and multiple blanks, TAB, line
    feed, leading and trailing blanks), for an ordinary consumer and for a consumer that sets `command.interpreter:
    bash` without an executable (its written arguments are `<executable> <arguments>`)."""
    p, q = (CONSUMER_STAGE, 'A'), (0, 'BA')
    for interp in (False, True):
        for w in WHITESPACE:
            for sp in psp(p):
                for mp in ('ref', 'out'):
                    rp, rq = mkref(p, mp, sp), mkref(q, 'ref', 'abs')
                    pats = [([rp, rq], [['r', 0, sp, 'bare'], ['l', w], ['r', 1, 'abs', 'key']]),
                            ([rq, rp], [['l', 'echo'], ['l', w], ['r', 1, sp, 'bare'], ['l', w], ['r', 0, 'abs', 'bare']]),
                            ([rp], [['r', 0, sp, 'bare'], ['l', w]]),
                            ([rp], [['l', w], ['r', 0, sp, 'key'], ['l', 'end']])]
                    for refs, toks in pats:
                        c = case(family, refs, toks)
                        if interp:
                            c['interpreter'] = 'bash'
                        yield c


def fam_relative_declared(names, family='relative-declared'):
    """declared references that reach the graph in their RELATIVE spelling because the producer is named through a
    component variable (`references: ['%(p0)s:ref']`); alone and next to the same-named producer of the other stage."""
    for n in names:
        p, p0 = (CONSUMER_STAGE, n), (0, n)
        for m in ('ref', 'out', 'fref', 'sout'):
            for declsp in ('rel', 'abs'):
                for sp in ('rel', 'abs'):
                    c = case(family, [mkref(p, m, declsp)], [['l', '-i'], ['r', 0, sp, 'key']])
                    c['decl_via_variable'] = True
                    yield c
        for order in ((0, 1), (1, 0)):
            for sp in ('rel', 'abs'):
                base = [mkref(p, 'ref', 'rel'), mkref(p0, 'ref', 'abs')]
                refs = [base[i] for i in order]
                c = case(family, refs, [['r', order.index(0), sp, 'bare'], ['r', order.index(1), 'abs', 'key']])
                c['decl_via_variable'] = True
                yield c



# --------------------------------------------------------------------------------------- families (thorough extension)
def fam_pair_full(names, family='pair-full'):
    """pairs: independent wrappers (3x3), both token orders, declared spelling = used spelling; plus declared spelling
    always absolute (bare tokens only)."""
    U = universe(names)
    wraps = ('bare', 'key', 'sub')
    for p, q in itertools.combinations(U, 2):
        for mp, mq in itertools.product(('ref', 'out'), repeat=2):
            for sp, sq in itertools.product(psp(p), psp(q)):
                for dmode in ('same', 'abs'):
                    rp = mkref(p, mp, sp if dmode == 'same' else 'abs')
                    rq = mkref(q, mq, sq if dmode == 'same' else 'abs')
                    if dmode == 'abs' and sp == 'abs' and sq == 'abs':
                        continue
                    for order in ((0, 1), (1, 0)):
                        refs = [(rp, rq)[i] for i in order]
                        ip, iq = order.index(0), order.index(1)
                        for wp, wq in itertools.product(wraps, repeat=2):
                            if (wp == 'sub' and mp == 'out') or (wq == 'sub' and mq == 'out'):
                                continue
                            if dmode == 'abs' and (wp, wq) != ('bare', 'bare'):
                                continue
                            tp, tq = ['r', ip, sp, wp], ['r', iq, sq, wq]
                            yield case(family, refs, [tp, tq])
                            yield case(family, refs, [tq, ['l', '-o'], tp])


def fam_triple_full(names, family='triple-full'):
    """triples, all 6 declaration orders: all :ref with every legal spelling combination; first or last member an
    :output with {all absolute, relative where legal}."""
    U = universe(names)
    for trio in itertools.combinations(U, 3):
        relmode = tuple('rel' if p[0] == CONSUMER_STAGE else 'abs' for p in trio)
        for mode in itertools.product(*[psp(p) for p in trio]):
            for outpos in (None, 0, 2):
                if outpos is not None and mode != relmode and any(m != 'abs' for m in mode):
                    continue    # an :output member only with {all absolute, relative where legal}
                base = [mkref(p, 'out' if k == outpos else 'ref', s) for k, (p, s) in enumerate(zip(trio, mode))]
                for order in itertools.permutations(range(3)):
                    refs = [base[i] for i in order]
                    toks = [['r', order.index(k), mode[k], 'bare'] for k in range(3)]
                    yield case(family, refs, toks)


def fam_four_tokens(names, family='four-token'):
    """4-token templates on pairs: p twice (equal / mixed spellings) around q plus a colliding literal."""
    U = universe(names)
    for p in U:
        for q in U:
            if q == p:
                continue
            for s1, s2 in itertools.product(psp(p), repeat=2):
                for sq in psp(q):
                    for mp, mq in itertools.product(('ref', 'out'), repeat=2):
                        base = [mkref(p, mp, s1), mkref(q, mq, sq)]
                        for order in ((0, 1), (1, 0)):
                            refs = [base[i] for i in order]
                            ip, iq = order.index(0), order.index(1)
                            yield case(family, refs, [['r', ip, s1, 'bare'], ['r', iq, sq, 'key'], ['r', ip, s2, 'opt'],
                                                      ['l', 'stage%d.%s' % q]])


# ------------------------------------------------------------------------------------------------------- assembling
def core_cases():
    n = NAMES_QUICK
    # triples in the fixed core leave out the neutral name `x` (it is part of every other family and of the
    # thorough triples)
    return itertools.chain(fam_pair(n), fam_triple([x for x in n if x != 'x']), fam_mixed(n), fam_lookalike(n),
                           fam_literal(n), fam_methods(n), fam_direct(), fam_direct_suffix(n), fam_special_values(), fam_repeating(), fam_whitespace(),
                           fam_relative_declared(n))


def extension_cases():
    n = NAMES_THOROUGH
    return itertools.chain(
        fam_pair(n, family='pair-ext'), fam_triple(n, family='triple-ext'), fam_mixed(n, family='mixed-ext'),
        fam_lookalike(n, forms=('{S}', 'v={S} w', '{S}/sub'), qmethods=('ref', 'out'), family='lookalike-full'),
        fam_literal(n, family='literal-ext'), fam_methods(n, family='methods-ext'),
        fam_pair_full(n), fam_triple_full(n), fam_four_tokens(n))


def key_of(c):
    k = [c['refs'], c['tokens'], c['contents']]
    if c.get('streams') or c.get('consumer_repeat'):
        k += [c.get('streams', {}), bool(c.get('consumer_repeat'))]
    if c.get('interpreter') or c.get('decl_via_variable'):
        k += [c.get('interpreter'), bool(c.get('decl_via_variable'))]
    return canon(k)


def shard_of(c):
    return int(hashlib.sha1(key_of(c).encode()).hexdigest()[:8], 16) % ROTATING_SHARDS


def enumerate_cases(thorough, seed):
    """Returns (core, extra): deterministic, duplicate-free lists. quick: extra = one rotating shard of the thorough
    extension (selected by seed); thorough: extra = the whole extension."""
    seen = set()
    core = []
    for c in core_cases():
        k = key_of(c)
        if k not in seen:
            seen.add(k)
            core.append(c)
    extra = []
    shard = seed % ROTATING_SHARDS
    for c in extension_cases():
        k = key_of(c)
        if k in seen:
            continue
        seen.add(k)
        if thorough or shard_of(c) == shard:
            extra.append(c)
    return core, extra
