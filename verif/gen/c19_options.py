"""C19 generators: the component option table is DERIVED from FlowIR.type_flowir_component('full') and
FlowIR.default_component_structure(), so every option of every backend that the schema knows is covered by construction.

Nothing here judges anything; it only builds FlowIR documents (plain dicts).
"""
import copy
import itertools

# keys of a component that are not "options" (handled by other families of the check)
NOT_OPTIONS = ('name', 'stage', 'variables', 'override', 'references')

CVAR = 'cvar'   # name of the component variable that variable-reference candidates point to


def _unwrap(x):
    from experiment.model.frontends.flowir import ValidateOptional
    while isinstance(x, ValidateOptional):
        x = x.schema
    return x


def option_leaves():
    """[(path tuple, leaf schema, default value, has_default)] for every option of the component schema."""
    from experiment.model.frontends.flowir import FlowIR
    schema = FlowIR.type_flowir_component('full')
    default = FlowIR.default_component_structure()
    out = []

    def walk(sch, dflt, path):
        for k, v in sch.items():
            k = _unwrap(k)
            v = _unwrap(v)
            if not path and k in NOT_OPTIONS:
                continue
            has = isinstance(dflt, dict) and k in dflt
            d = dflt[k] if has else None
            if isinstance(v, dict) and v:
                walk(v, d if isinstance(d, dict) else {}, path + (k,))
            else:
                out.append((path + (k,), v, copy.deepcopy(d), has))

    walk(schema, default, ())
    # options that only exist in the default structure (none today) would be silently uncovered: make that loud
    def walk_d(d, path):
        for k, v in d.items():
            if not path and k in NOT_OPTIONS:
                continue
            if isinstance(v, dict):
                walk_d(v, path + (k,))
            elif (path + (k,)) not in [o[0] for o in out]:
                raise AssertionError('default_component_structure has %r which the schema lacks' % (path + (k,),))
    walk_d(default, ())
    out.sort(key=lambda o: o[0])
    return out


def candidate_pool():
    """Ordered pool of candidate option values. ('VAR', text) means: the option is '%(cvar)s' and the component
    defines the variable cvar=text. Order = preference (the quick tier takes the first few accepted ones)."""
    from experiment.model import codes
    reasons = sorted(codes.exitReasons)
    pool = [
        True, False,
        4, 0, 7, -1,
        2.5, 0.1234567, 480.0, 0.125, 86400.75,
        'abc', 'two words', 'k=v;x:y', '', '+%Y-%m',
        'none', 'double-quote', 'bash', 'Never', 'IfNotPresent', 'burstable', 'besteffort',
        '4Gi', '512Mi', 'lsf', 'kubernetes', 'docker', 'simulator', 'envone',
        None,
        [], ['abc'], ['abc', 'de-f'],
    ]
    pool += [[r] for r in reasons]
    pool += [[reasons[1], reasons[2]], [reasons[0], 'ResourceExhausted', reasons[-1]]]
    pool += [
        [{'name': 'lsf-dm-in', 'payload': 'all'}], [{'name': 'lsf-dm-out', 'payload': 'all'}],
        [{'name': 'lsf-dm-in', 'payload': 'a.txt:copy b.txt'}], [{'name': 'lsf-dm-out', 'payload': 'out/*.csv'}],
        [{'name': 'docker', 'docker-image': 'img:1', 'docker-args': '--rm'}],
        {}, {'nodeSelector': {'a': 'b'}},
        ('VAR', '3'), ('VAR', 'true'), ('VAR', '2.5'), ('VAR', 'abc'), ('VAR', 'lsf'), ('VAR', '4Gi'),
        ('VAR', 'KnownIssue'), ('VAR', 'Never'), ('VAR', 'none'), ('VAR', 'burstable'),
    ]
    return pool


def candidates_for(leaf_schema, default, is_list_of_var=False):
    """Candidates of the pool that the *schema* of the leaf accepts and that differ from the default."""
    from experiment.model.frontends.flowir import validate_object_schema
    ok = []
    for cand in candidate_pool():
        if isinstance(cand, tuple):
            value = '%%(%s)s' % CVAR
        else:
            value = cand
        probe = copy.deepcopy(value)
        try:
            errs = validate_object_schema(probe, leaf_schema, 'probe')
        except Exception:
            errs = ['raised']
        if errs:
            # lists of var references (restartHookOn accepts them element-wise)
            if isinstance(cand, tuple):
                try:
                    if not validate_object_schema([value], leaf_schema, 'probe'):
                        ok.append(('VARLIST', cand[1]))
                except Exception:
                    pass
            continue
        if not isinstance(cand, tuple) and value == default and type(value) is type(default):
            continue
        ok.append(cand)
    return ok


def set_path(d, path, value):
    for k in path[:-1]:
        d = d.setdefault(k, {})
    d[path[-1]] = value


def materialise(cand):
    """-> (option value, extra component variables)"""
    if isinstance(cand, tuple) and cand[0] == 'VAR':
        return '%%(%s)s' % CVAR, {CVAR: cand[1]}
    if isinstance(cand, tuple) and cand[0] == 'VARLIST':
        return ['%%(%s)s' % CVAR], {CVAR: cand[1]}
    return copy.deepcopy(cand), {}


def jsonable_cand(cand):
    return list(cand) if isinstance(cand, tuple) else cand


def cand_from_json(cand, path=None):
    if isinstance(cand, list) and len(cand) == 2 and cand[0] in ('VAR', 'VARLIST') and isinstance(cand[1], str):
        return (cand[0], cand[1])
    return cand


def base_doc():
    """A small two-stage workflow; the option under test is set on stage0.T (directly or through a blueprint)."""
    return {
        'variables': {'default': {'global': {'gvar': 'gv'}, 'stages': {0: {'svar': 'sv0'}, 1: {'svar': 'sv1'}}}},
        'environments': {'default': {'envone': {'FOO': 'bar', 'PATH': '/x/bin:$PATH'}}},
        'components': [
            {'name': 'T', 'stage': 0, 'command': {'executable': 'echo', 'arguments': 'hello %(gvar)s'},
             'variables': {'own': 'mine'}},
            {'name': 'C', 'stage': 1, 'command': {'executable': 'cat', 'arguments': 'stage0.T:ref'},
             'references': ['stage0.T:ref']},
        ],
    }


def option_doc(settings, via='component'):
    """settings: [(path, candidate)]. via: component | global-blueprint | stage-blueprint."""
    doc = base_doc()
    target = doc['components'][0]
    holder = target
    if via == 'global-blueprint':
        holder = doc.setdefault('blueprint', {}).setdefault('default', {}).setdefault('global', {})
    elif via == 'stage-blueprint':
        holder = doc.setdefault('blueprint', {}).setdefault('default', {}).setdefault('stages', {}).setdefault(0, {})
    for path, cand in settings:
        value, extra = materialise(cand)
        set_path(holder, tuple(path), value)
        target['variables'].update(extra)
        # an option value that is an interpreter makes 'executable' optional; keep the document otherwise unchanged
    return doc


# ---------------------------------------------------------------------------------------------------------------
# families other than component options

VAR_NAMES = ['x', 'X', 'a-b', 'a_b', 'n1', 'Long_Name-2', 'gvar']
VAR_VALUES = ['v', 'two words', 'a=b', 'k:v', '', '-n 3 --flag', '%(gvar)s', '%(gvar)s/%(svar)s', '5', '2.5', 'True',
              5, 2.5, True, '/abs/path:/other', '$HOME/x', '100%', 'a;b', 'a#b', '"quoted"']


def variables_doc(scope, name, value):
    doc = base_doc()
    if scope == 'global':
        doc['variables']['default']['global'][name] = value
    elif scope == 'stage0':
        doc['variables']['default']['stages'][0][name] = value
    elif scope == 'stage1':
        doc['variables']['default']['stages'][1][name] = value
    elif scope == 'component':
        doc['components'][0]['variables'][name] = value
    elif scope == 'shadow':
        # same name at every level: component > stage > global
        doc['variables']['default']['global'][name] = 'G'
        doc['variables']['default']['stages'][0][name] = 'S0'
        doc['components'][0]['variables'][name] = value
    elif scope == 'shadow-stage':
        doc['variables']['default']['global'][name] = 'G'
        doc['variables']['default']['stages'][1][name] = value
    else:
        raise ValueError(scope)
    # make every variable visible in a resolved field too
    if scope not in ('stage1', 'shadow-stage'):
        doc['components'][0]['command']['arguments'] += ' {%%(%s)s}' % name
    if scope in ('stage1', 'shadow-stage', 'global'):
        doc['components'][1]['command']['arguments'] += ' {%%(%s)s}' % name
    return doc


ENV_NAMES = ['e', 'MyEnv', 'UPPER', 'with-dash', 'with_us', 'environment', 'n2']
ENV_BODIES = [
    {}, {'A': 'b'}, {'lower': 'x', 'UPPER': 'Y'}, {'PATH': '/a/bin:$PATH', 'LD_LIBRARY_PATH': '$LD_LIBRARY_PATH:/l'},
    {'EMPTY': ''}, {'EQ': 'a=b=c'}, {'SP': 'two words'}, {'REF': '%(gvar)s/x'}, {'N': 5}, {'F': 2.5}, {'B': True},
    {'DEFAULTS': '$(pwd)', 'Q': '"q"'}, {'P': '100%'}, {'H': 'a#b;c'}, {'SELF': '%(A)s/more', 'A': 'base'},
]
APP_DEPS = [[], ['app.application'], ['one.application', '/abs/two.application'], ['plain', 'a-b.c']]
VENVS = [[], ['venv'], ['/abs/venv', 'rel/venv2']]


def environments_doc(envs, use=None, app_deps=None, venvs=None):
    doc = base_doc()
    for env_name in envs:
        doc['environments']['default'][env_name] = copy.deepcopy(envs[env_name])
    if use is not None:
        doc['components'][0]['command']['environment'] = use
    if app_deps is not None:
        doc['application-dependencies'] = {'default': list(app_deps)}
    if venvs is not None:
        doc['virtual-environments'] = {'default': list(venvs)}
    return doc


STATUS_ENTRIES = [
    None, {}, {'stage-weight': 1.0}, {'stage-weight': 0.25}, {'stage-weight': 0.0},
    {'stage-weight': 0.5, 'executable': 'bin/progress.sh'},
    {'stage-weight': 0.5, 'executable': 'progress.py', 'arguments': '-f stage0.T/out.log:ref --x=1',
     'references': ['stage0.T/out.log:ref']},
    {'executable': 'p', 'arguments': 'a b', 'references': ['stage0.T:ref', 'stage1.C:ref']},
    {'executable': 'p', 'references': []},
    {'stage-weight': 0.3333, 'executable': 'p', 'arguments': ''},
]


# stage-weight vectors that add up to one (anything else is replaced by FlowIR before it is written) and need
# 1..7 decimal digits; 'MISSING' = the stage has no status entry (FlowIR then injects its default weights, which for a
# stage count that does not divide 1000 are 3-decimal numbers such as 0.333/0.333/0.334 or 0.142 x 6 + 0.148)
STATUS_WEIGHT_VECTORS = [
    (0.5, 0.5), (0.1, 0.9), (0.7, 0.3), (0.25, 0.75), (0.05, 0.95), (0.125, 0.875), (0.333, 0.667), (0.3333, 0.6667),
    (0.001, 0.999), (0.1234567, 0.8765433), (1.0 / 3, 2.0 / 3), (1.0, 0.0), (0.0, 1.0), (1, 0),
    (0.125, 0.125, 0.75), (0.333, 0.333, 0.334), (0.2, 0.3, 0.5), (0.01, 0.04, 0.95), (1.0 / 3, 1.0 / 3, 1.0 / 3),
    (0.0005, 0.9990, 0.0005), (0.1, 0.2, 0.3, 0.4), (0.0625, 0.0625, 0.125, 0.75),
    ('MISSING', 'MISSING'), ('MISSING', 'MISSING', 'MISSING'), ('MISSING',) * 4, ('MISSING',) * 6, ('MISSING',) * 7,
    ('MISSING',) * 8, ('MISSING', 1.0), (0.125, 'MISSING', 0.875),
]


def status_weights_doc(weights, with_executable=False):
    """a workflow with len(weights) stages (one component per stage from stage 2 on)"""
    doc = base_doc()
    for stage in range(2, len(weights)):
        doc['components'].append({'name': 'S%d' % stage, 'stage': stage, 'command': {'executable': 'true'}})
    st = {}
    for i, w in enumerate(weights):
        if w != 'MISSING':
            st[i] = {'stage-weight': w}
            if with_executable:
                st[i].update({'executable': 'progress.sh', 'arguments': '-s %d' % i})
    doc['status-report'] = st
    return doc


def status_doc(e0, e1):
    doc = base_doc()
    st = {}
    if e0 is not None:
        st[0] = copy.deepcopy(e0)
    if e1 is not None:
        st[1] = copy.deepcopy(e1)
    doc['status-report'] = st
    return doc


OUTPUT_ENTRIES = [
    {'data-in': 'stage1.C/out.csv:copy'},
    {'data-in': 'stage1.C/out.csv:ref', 'description': 'some words, with = and : inside', 'type': 'csv'},
    {'data-in': 'stage0.T:ref', 'stages': [0]},
    {'data-in': 'stage1.C/a b.txt:copy', 'stages': [0, 1], 'type': ''},
    {'data-in': 'C/out.csv:copy', 'stages': [1], 'description': ''},
    {'data-in': 'stage1.C/out.csv:copy', 'stages': []},
    {'data-in': 'stage1.C/%(gvar)s.csv:copy', 'description': 'uses %(gvar)s'},
]
OUTPUT_NAMES = ['Result', 'lower', 'With-Dash', 'two']


def output_doc(entries):
    doc = base_doc()
    doc['output'] = {n: copy.deepcopy(e) for n, e in entries}
    return doc


REFERENCE_LISTS = [
    [], ['stage0.T:ref'], ['stage0.T/f.txt:copy', 'stage0.T:output'], ['data/in.dat:ref', 'stage0.T:ref'],
    ['input/i.csv:copy', 'input/j.csv:ref', 'stage0.T/x:link'], ['stage0.T:extract'], ['stage0.T/d/e.f:copyout'],
    ['/abs/file:ref', 'stage0.T:ref'], ['stage0.T:ref', 'stage0.T:output'], ['stage0.T:loopref'],
    ['stage0.T:loopoutput'],
]


def references_doc(refs):
    doc = base_doc()
    doc['components'][1]['references'] = list(refs)
    doc['components'][1]['command']['arguments'] = ' '.join(refs)
    return doc


COMPONENT_NAMES = ['A', 'AA', 'a', 'A-B', 'A.B', 'x_y', 'Comp1', 'meta-data', 'Defaults', 'C']


def names_doc(name, same_in_both_stages):
    doc = base_doc()
    doc['components'][0]['name'] = name
    doc['components'][1]['references'] = ['stage0.%s:ref' % name]
    doc['components'][1]['command']['arguments'] = 'stage0.%s:ref' % name
    if same_in_both_stages:
        doc['components'][1]['name'] = name
    return doc


def stages_doc(n):
    """a workflow with n >= 1 stages (stage i >= 2 has one component S<i>)"""
    doc = base_doc()
    if n == 1:
        del doc['components'][1]
        del doc['variables']['default']['stages'][1]
    for stage in range(2, n):
        doc['components'].append({'name': 'S%d' % stage, 'stage': stage, 'command': {'executable': 'true'}})
    return doc


def backend_var_doc(backend, how, key, value, needs=(), peer=False):
    """Options that only the legacy format knows for a backend (Dosini.options_for_backend: the simulator's sim_*)
    are carried as component variables. The backend is named literally / through a component variable / through a
    global variable; the second component (default backend) carries the same variable."""
    doc = base_doc()
    target = doc['components'][0]
    if how == 'literal':
        set_path(target, ('resourceManager', 'config', 'backend'), backend)
    else:
        set_path(target, ('resourceManager', 'config', 'backend'), '%(bk)s')
        if how == 'component-variable':
            target['variables']['bk'] = backend
        else:
            doc['variables']['default']['global']['bk'] = backend
    for path, v in needs:
        set_path(target, tuple(path.split('.')), v)
    target['variables'][key] = value
    doc['components'][1].setdefault('variables', {})[key] = value
    if peer:
        # the component of the LATER stage names the same backend literally
        set_path(doc['components'][1], ('resourceManager', 'config', 'backend'), backend)
        for path, v in needs:
            set_path(doc['components'][1], tuple(path.split('.')), v)
    return doc


# structurally different descriptions for histories (several writes into ONE directory / several round trips in ONE
# process): different numbers of stages, component names, environments, sandbox, status, output, variables, backends
HISTORY_CASES = [
    {'family': 'base'},
    {'family': 'stages', 'n': 1},
    {'family': 'weights', 'weights': [0.2, 0.3, 0.5], 'exe': False},
    {'family': 'weights', 'weights': [0.1, 0.2, 0.3, 0.4], 'exe': True},
    {'family': 'names', 'name': 'A-B', 'both': True},
    {'family': 'environments', 'envs': {'e': {'A': 'b'}, 'MyEnv': {'lower': 'x', 'UPPER': 'Y'}}, 'use': 'e',
     'app_deps': ['app.application'], 'venvs': ['venv']},
    {'family': 'output', 'entries': [['Result', {'data-in': 'stage1.C/out.csv:ref', 'description': 'd', 'type': 'csv'}]]},
    {'family': 'status', 'e0': {'stage-weight': 0.5, 'executable': 'progress.py', 'arguments': '-f stage0.T/out.log:ref',
                                'references': ['stage0.T/out.log:ref']}, 'e1': {'stage-weight': 0.5}},
    {'family': 'variables', 'scope': 'global', 'name': 'x', 'value': 'two words'},
    {'family': 'option', 'settings': [['resourceManager.config.backend', 'lsf']], 'via': 'component'},
    {'family': 'option', 'settings': [['workflowAttributes.replicate', 4]], 'via': 'stage-blueprint'},
]


def platform_doc(variant):
    """An instance generated for a NON default platform: platform variables / environments / blueprint / override
    must all be baked into what is written."""
    doc = base_doc()
    doc['platforms'] = ['default', 'p1']
    doc['variables']['default']['global']['ponly'] = 'pv-default'
    doc['variables']['p1'] = {'global': {'gvar': 'gv-p1', 'ponly': 'pv'}, 'stages': {0: {'svar': 'sv0-p1'}}}
    doc['environments']['p1'] = {'envone': {'FOO': 'bar-p1', 'EXTRA': 'e'}, 'envtwo': {'TWO': '2'}}
    doc['components'][0]['command']['environment'] = 'envone'
    if variant >= 1:
        doc['blueprint'] = {'default': {'global': {'resourceManager': {'config': {'walltime': 30.0}}}},
                            'p1': {'global': {'resourceManager': {'config': {'backend': 'lsf'}, 'lsf': {'queue': 'pq'}}},
                                   'stages': {1: {'resourceRequest': {'numberThreads': 2}}}}}
    if variant >= 2:
        doc['components'][0]['override'] = {'p1': {'resourceRequest': {'numberProcesses': 8},
                                                   'variables': {'own': 'mine-p1'},
                                                   'command': {'arguments': 'p1 %(ponly)s %(own)s'}}}
    if variant >= 3:
        doc['application-dependencies'] = {'default': ['d.application'], 'p1': ['p.application']}
        doc['virtual-environments'] = {'default': ['dv'], 'p1': ['pv']}
    return doc


def pairs_in_section(leaves_with_cands):
    """All unordered pairs of distinct options that share the top-level section, each with its first candidate."""
    by_section = {}
    for path, cands in leaves_with_cands:
        by_section.setdefault(path[0], []).append((path, cands))
    for section in sorted(by_section):
        for (p1, c1), (p2, c2) in itertools.combinations(by_section[section], 2):
            yield section, p1, c1, p2, c2
