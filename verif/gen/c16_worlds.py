"""C16 generator: base worlds, single-aspect variations, ambiguity alphabet, and the on-disk realisation.

World format: see verif/oracles/c16_memo.py.  Extra keys used only here:
    inst : {'subdir': str, 'pkg': str, 'name': str|None, 'timestamp': bool, 'reload': None|'reload'|'moved',
            'mtime': None|int}
    extra_comps_rr etc. live inside the component dicts: 'rr' (resourceRequest), 'rm' (extra resourceManager
    options: {'config': {...}, '<backend>': {...}}), 'vars'.
    target : name of the component the variation is about.
"""
import copy
import hashlib
import itertools
import os
import shutil

from verif.oracles.c16_memo import expand_content


def R(i):
    return {'r': i}


def V(name):
    return {'v': name}


def toks(*parts):
    """Interleaves single spaces: toks('-n', R(0), 'lit') -> ['-n ', R(0), ' lit']"""
    out = []
    for i, p in enumerate(parts):
        if i:
            out.append(' ')
        out.append(p)
    merged = []
    for p in out:
        if isinstance(p, str) and merged and isinstance(merged[-1], str):
            merged[-1] += p
        else:
            merged.append(p)
    return merged


def ref(prod, path, method='ref', abs_=True):
    return {'prod': prod, 'path': path, 'method': method, 'abs': abs_}


def comp(name, stage, exe, args, refs, **kw):
    c = {'name': name, 'stage': stage, 'exe': exe, 'args': args, 'refs': refs, 'backend': None, 'vars': {}, 'rr': {},
         'rm': {}}
    c.update(kw)
    return c


INST0 = {'subdir': 'w', 'pkg': 'pkg', 'name': None, 'timestamp': True, 'reload': None, 'mtime': None, 'check_exe': False,
         'outputs_first': False}


def stream_window(end, latest='LATEST\n', keep=5, changed_older=False):
    """what RepeatingEngine leaves in <workdir>/streams after end+1 repetitions: the last `keep` outputs"""
    out = {}
    for i in range(max(0, end - keep + 1), end):
        out['streams/%d.stdout' % i] = ('changed %d\n' if changed_older else 'old %d\n') % i
    out['streams/%d.stdout' % end] = latest
    return out


STREAM_ENDS = [0, 1, 9, 10, 11, 13, 99, 100, 103, 1000]
STREAM_ENDS_CONTENT = [10, 11, 100, 1000]
# executables shipped in the bin directory of the package, found through an environment whose PATH starts with
# $INSTANCE_DIR/bin; the experiment is validated with checkExecutables=True (what elaunch does)
TOOLS_ENV = {'tools': {'DEFAULTS': 'PATH:LD_LIBRARY_PATH', 'PATH': '$INSTANCE_DIR/bin:$PATH'}}
SCRIPTS = {'bin/run.sh': '#!/bin/sh\necho run\n', 'bin/use.sh': '#!/bin/sh\necho use\n', 'bin/other.sh': '#!/bin/sh\necho other\n',
           'bin/run2.sh': '#!/bin/sh\necho run2\n'}
BIG_SIZES_QUICK = [4096, 4097, 65536, 65537, 204800]
BIG_SIZES_THOROUGH = [8192, 65535, 70000, 131073, 1048577]
THOROUGH = False
BIG = ''.join(chr(97 + (i * 7) % 26) for i in range(5000))


def _world(comps, target, files=None, outputs=None, ext=None):
    return {'comps': comps, 'target': target, 'files': files or {}, 'outputs': outputs or {}, 'ext': ext or {},
            'remove': [], 'gvars': {}, 'svars': {}, 'inst': dict(INST0)}


def bases():
    """name -> world. The target component is always called C and consumes one reference inside its arguments
    (index 0) and one file through :copy that is not mentioned in the arguments (index 1)."""
    out = {}
    out['direct'] = _world(
        [comp('C', 0, 'cat', toks('-n', R(0), 'lit'), [ref(None, 'data/in.txt'), ref(None, 'data/aux.txt', 'copy')])],
        'C', files={'data/in.txt': 'hello', 'data/aux.txt': 'aux'})
    out['one'] = _world(
        [comp('P', 0, 'gen', toks('-i', R(0)), [ref(None, 'data/in.txt')]),
         comp('C', 1, 'cat', toks('-n', R(0), 'lit'), [ref('P', 'out.txt'), ref(None, 'data/aux.txt', 'copy')])],
        'C', files={'data/in.txt': 'hello', 'data/aux.txt': 'aux'}, outputs={'P': {'out.txt': 'produced', 'junk': 'j'}})
    out['chain'] = _world(
        [comp('P', 0, 'gen', toks('-i', R(0)), [ref(None, 'data/in.txt')]),
         comp('Q', 0, 'mid', toks(R(0), '-m'), [ref('P', 'mid.txt', 'ref', False)]),
         comp('C', 1, 'cat', toks('-n', R(0), 'lit'), [ref('Q', 'out.txt'), ref(None, 'data/aux.txt', 'copy')])],
        'C', files={'data/in.txt': 'hello', 'data/aux.txt': 'aux'},
        outputs={'P': {'mid.txt': 'middle'}, 'Q': {'out.txt': 'produced'}})
    # two producers whose names are forced to collide textually (B is a suffix of A-B after a non-word character)
    out['two'] = _world(
        [comp('A-B', 0, 'gen', toks('-i', R(0)), [ref(None, 'data/in.txt')]),
         comp('B', 0, 'gen', toks('-j', R(0)), [ref(None, 'data/in.txt')]),
         comp('C', 0, 'cat', toks(R(0), R(1), 'lit'), [ref('A-B', 'out.txt', 'ref', False), ref('B', 'out.txt', 'ref', False)])],
        'C', files={'data/in.txt': 'hello'}, outputs={'A-B': {'out.txt': 'one'}, 'B': {'out.txt': 'two'}})
    # the working directory of a producer, mentioned in the arguments
    out['dir'] = _world(
        [comp('P', 0, 'gen', toks('-i', R(0)), [ref(None, 'data/in.txt')]),
         comp('C', 1, 'ls', toks('-l', R(0)), [ref('P', None)])],
        'C', files={'data/in.txt': 'hello'}, outputs={'P': {'out.txt': 'produced'}})
    # the same reference mentioned several times in the command line (three times a produced file, twice a data file)
    out['mentions'] = _world(
        [comp('P', 0, 'gen', toks('-i', R(0)), [ref(None, 'data/in.txt')]),
         comp('C', 1, 'cmp', toks('-a', R(0), '-b', R(1), R(0), '--again', R(1), 'lit', R(0)),
              [ref('P', 'out.txt'), ref(None, 'data/aux.txt')])],
        'C', files={'data/in.txt': 'hello', 'data/aux.txt': 'aux'}, outputs={'P': {'out.txt': 'produced'}})
    # a chain of working directories: P -> Q (directory of P) -> C (directory of Q)
    out['dirchain'] = _world(
        [comp('P', 0, 'gen', toks('-i', R(0)), [ref(None, 'data/in.txt')]),
         comp('Q', 0, 'mid', toks('-d', R(0)), [ref('P', None, 'ref', False)]),
         comp('C', 1, 'ls', toks('-l', R(0)), [ref('Q', None)])],
        'C', files={'data/in.txt': 'hello'}, outputs={'P': {'out.txt': 'produced'}, 'Q': {'mid.txt': 'middle'}})
    # the working directory of a producer copied/linked, NOT mentioned in the arguments
    out['dircopy'] = _world(
        [comp('P', 0, 'gen', toks('-i', R(0)), [ref(None, 'data/in.txt')]),
         comp('C', 1, 'ls', ['-l P'], [ref('P', None, 'copy')])],
        'C', files={'data/in.txt': 'hello'}, outputs={'P': {'out.txt': 'produced'}})
    # container image
    w = copy.deepcopy(out['direct'])
    w['comps'][0]['backend'] = {'kind': 'kubernetes', 'image': 'reg/img:1'}
    out['k8s'] = w
    # a file outside of the instance (absolute path)
    out['ext'] = _world(
        [comp('C', 0, 'cat', toks('-n', R(0), 'lit'), [ref(None, 'EXT/a/in.txt')])], 'C', ext={'a/in.txt': 'hello', 'b/in.txt': 'hello'})
    # pathless executables that resolve to scripts INSIDE the instance; executables are checked (resolved)
    w = _world(
        [comp('C', 0, 'run.sh', toks('-n', R(0), 'lit'), [ref(None, 'data/in.txt'), ref(None, 'data/aux.txt', 'copy')], env='tools')],
        'C', files=dict(SCRIPTS, **{'data/in.txt': 'hello', 'data/aux.txt': 'aux'}))
    w['environments'] = copy.deepcopy(TOOLS_ENV); w['inst']['check_exe'] = True
    out['bin'] = w
    w = _world(
        [comp('P', 0, 'run.sh', toks('-i', R(0)), [ref(None, 'data/in.txt')], env='tools'),
         comp('C', 1, 'use.sh', toks('-n', R(0), 'lit'), [ref('P', 'out.txt'), ref(None, 'data/aux.txt', 'copy')], env='tools')],
        'C', files=dict(SCRIPTS, **{'data/in.txt': 'hello', 'data/aux.txt': 'aux'}), outputs={'P': {'out.txt': 'produced'}})
    w['environments'] = copy.deepcopy(TOOLS_ENV); w['inst']['check_exe'] = True
    out['binone'] = w
    # what a producer printed (`<producer>:output`): out.stdout, or the most recent archived stream of a repeating producer
    sref = dict(ref('P', None, 'output'), stdout=True)
    w = _world([comp('P', 0, 'mon', ['energy'], []), comp('C', 1, 'cat', toks('-e', R(0), 'lit'), [dict(sref)])],
               'C', outputs={'P': {'out.stdout': 'LATEST\n'}})
    w['inst']['outputs_first'] = True
    out['stdout'] = w
    w = _world([comp('P', 0, 'mon', ['energy'], [], repeat=5), comp('C', 1, 'cat', toks('-e', R(0), 'lit'), [dict(sref)])],
               'C', outputs={'P': stream_window(4)})
    w['inst']['outputs_first'] = True
    out['streams'] = w
    return out


# ------------------------------------------------------------------ variations
def _target(w):
    return [c for c in w['comps'] if c['name'] == w['target']][0]


def _get(w, name):
    return [c for c in w['comps'] if c['name'] == name][0]


def _rename(w, old, new):
    for c in w['comps']:
        if c['name'] == old:
            c['name'] = new
        for r in c['refs']:
            if r['prod'] == old:
                r['prod'] = new
    if old in w['outputs']:
        w['outputs'][new] = w['outputs'].pop(old)
    w['remove'] = [(new + x[len(old):]) if x.startswith(old + '/') else x for x in w['remove']]
    if w['inst'].get('transient_missing'):
        w['inst']['transient_missing'] = [(new + x[len(old):]) if x.startswith(old + '/') else x for x in w['inst']['transient_missing']]
    if w['target'] == old:
        w['target'] = new


def _alt_exes(w, exe):
    """other executables for a component: shipped scripts when the world ships its executables, made-up names otherwise"""
    if isinstance(exe, str) and ('bin/' + exe) in w['files']:
        return [k[4:] for k in sorted(w['files']) if k.startswith('bin/') and k[4:] != exe][:2]
    return ['tac', 'ca', 'catt', 'cat -n']


def _flip(s, how):
    if isinstance(s, dict):
        s = expand_content(s)
    if how == 'first':
        return chr(ord(s[0]) ^ 1) + s[1:] if s else 'x'
    if how == 'last':
        return s[:-1] + chr(ord(s[-1]) ^ 1) if s else 'x'
    if how == 'append':
        return s + '\n'
    if how == 'empty':
        return ''
    raise ValueError(how)


TARGET_NAMES = ['A', 'AA', 'A-B', 'x', 'Cfiles', 'executable', 'C2x', 'a_rather_long_component_name', 'C1', 'C10']
PRODUCER_NAMES = ['G', 'PP', 'A-B', 'B', 'Pexecutable', 'a_rather_long_producer_name', 'P7']


def variations(base_name, w0):
    """Yields (group, label, world[, label of the sibling variation to compare with instead of the base]).
    group = aspect family (two variations of the same group are never combined)."""
    def new():
        return copy.deepcopy(w0)
    t0 = _target(w0)
    tname = t0['name']
    producers = []

    def _up(n):
        for r in _get(w0, n)['refs']:
            if r['prod'] is not None and r['prod'] not in producers:
                producers.append(r['prod'])
                _up(r['prod'])
    _up(tname)
    producers.sort(key=lambda n: [c['name'] for c in w0['comps']].index(n))

    # ---------- aspects of the target the statement names as relevant
    for e in _alt_exes(w0, t0['exe']):
        w = new(); _target(w)['exe'] = e
        yield 'exe', 'exe=%s' % e, w
    lit_idx = [i for i, p in enumerate(t0['args']) if isinstance(p, str)]
    for i in lit_idx:
        for how in ('change', 'extend', 'drop'):
            w = new(); a = _target(w)['args']
            a[i] = {'change': a[i].replace('l', 'L').replace('n', 'm'), 'extend': a[i] + 'x ' if a[i].endswith(' ') else a[i] + 'x',
                    'drop': ' ' if 0 < i < len(a) - 1 else ''}[how]
            if a[i] == t0['args'][i]:
                continue
            yield 'args', 'args[%d]:%s' % (i, how), w
    w = new(); _target(w)['args'] = _target(w)['args'] + [' --extra']
    yield 'args', 'args:append-token', w
    w = new(); _target(w)['args'] = ['--first '] + _target(w)['args']
    yield 'args', 'args:prepend-token', w
    if len([p for p in t0['args'] if isinstance(p, dict) and 'r' in p]) >= 2:
        w = new(); a = _target(w)['args']
        idx = [i for i, p in enumerate(a) if isinstance(p, dict) and 'r' in p]
        a[idx[0]], a[idx[1]] = a[idx[1]], a[idx[0]]
        yield 'args', 'args:swap-two-references', w
    # every file the target consumes: content by one byte
    for ri, r in enumerate(t0['refs']):
        if r['path'] is None:
            continue
        for how in ('first', 'last', 'append', 'empty'):
            w = new()
            _set_content(w, r, lambda s: _flip(s, how))
            yield 'content', 'content[ref%d]:%s' % (ri, how), w
        w = new(); _set_content(w, r, lambda s: BIG)
        big = w
        yield 'content', 'content[ref%d]:5000-bytes' % ri, big
        w = copy.deepcopy(big); _set_content(w, r, lambda s: _flip(s, 'last'))
        yield 'content', 'content[ref%d]:5000-bytes-last-flipped' % ri, w, 'content[ref%d]:5000-bytes' % ri
        # long files: a difference anywhere (block boundaries of the reader, after 64 KiB, at the very end) is a difference
        for n in BIG_SIZES_QUICK + (BIG_SIZES_THOROUGH if THOROUGH else []):
            w = new(); _set_content(w, r, lambda s: {'size': n, 'flip': []})
            yield 'bigcontent', 'content[ref%d]:%d-bytes' % (ri, n), w
            for lbl, pos in (('last', [-1]), ('at-65536', [65536]), ('middle', [n // 2])):
                if pos[0] >= n or (lbl == 'middle' and n < 65537):
                    continue
                w = new(); _set_content(w, r, lambda s: {'size': n, 'flip': pos})
                yield 'bigcontent', 'content[ref%d]:%d-bytes-%s-changed' % (ri, n, lbl), w, 'content[ref%d]:%d-bytes' % (ri, n)
    # reference method
    for ri, r in enumerate(t0['refs']):
        in_args = any(isinstance(p, dict) and p.get('r') == ri for p in t0['args'])
        if r.get('stdout'):
            continue
        if r['path'] is None:
            alts = ['ref', 'copy', 'link'] if not in_args else ['ref']
        else:
            alts = ['ref', 'output'] if in_args else ['copy', 'link']
        for m in alts:
            if m != r['method']:
                w = new(); _target(w)['refs'][ri]['method'] = m
                yield 'method', 'method[ref%d]=%s' % (ri, m), w
    # container image / backend
    b0 = t0.get('backend')
    for b in ({'kind': 'kubernetes', 'image': 'reg/img:1'}, {'kind': 'kubernetes', 'image': 'reg/img:2'},
              {'kind': 'lsf', 'image': 'reg/img:1'}, {'kind': 'lsf', 'image': None},
              {'kind': 'docker', 'image': 'reg/img:1'}, {'kind': 'docker', 'image': 'reg/img:2'},
              {'kind': 'local', 'image': None}):
        if b != b0 and base_name in ('direct', 'k8s', 'one'):
            w = new(); _target(w)['backend'] = dict(b)
            yield 'backend', 'backend=%s:%s' % (b['kind'], b['image']), w
    # an additional consumed file
    if base_name in ('direct', 'one', 'chain'):
        w = new(); w['files']['data/more.txt'] = 'more'; _target(w)['refs'].append(ref(None, 'data/more.txt', 'copy'))
        yield 'refs', 'refs:+copy-of-another-file', w
        w = new(); w['files']['data/more.txt'] = 'aux'; _target(w)['refs'].append(ref(None, 'data/more.txt', 'copy'))
        yield 'refs', 'refs:+copy-of-file-with-same-content-as-aux', w
        if len(t0['refs']) >= 2 and t0['refs'][1]['path'] == 'data/aux.txt':
            w = new(); _target(w)['refs'].pop(1)
            yield 'refs', 'refs:-aux', w
    # value of a variable used in the arguments / executable  (and the same value spelled through a variable)
    w = new(); _target(w)['vars']['tok'] = 'lit'
    a = _target(w)['args']
    if isinstance(a[-1], str) and a[-1].endswith('lit'):
        a[-1] = a[-1][:-3]
        a.append(V('tok'))
        yield 'indirection', 'args:literal-through-component-variable', w
        w2 = copy.deepcopy(w); _target(w2)['vars']['tok'] = 'lot'
        yield 'usedvar', 'variable-used-in-arguments:value', w2
        w3 = copy.deepcopy(w); del _target(w3)['vars']['tok']; w3['gvars']['tok'] = 'lit'
        yield 'indirection', 'args:literal-through-global-variable', w3
    w = new(); _target(w)['vars']['exe'] = t0['exe'] if isinstance(t0['exe'], str) else 'cat'; _target(w)['exe'] = V('exe')
    yield 'indirection', 'exe:through-variable', w

    # ---------- producers (chain): definition only, content only, both
    for pn in producers:
        for what in ('exe', 'args') if w0['inst'].get('check_exe') else ('exe', 'args', 'image'):
            w = new(); p = _get(w, pn)
            if what == 'exe':
                p['exe'] = _alt_exes(w, p['exe'])[0] if ('bin/%s' % p['exe']) in w['files'] else p['exe'] + '2'
            elif what == 'args':
                p['args'] = p['args'] + [' --more']
            else:
                p['backend'] = {'kind': 'kubernetes', 'image': 'reg/prod:1'}
            if base_name in ('dir', 'dircopy', 'dirchain'):
                for q in producers:
                    _touch_dir(w, q)
            yield 'producer', 'producer[%s]:%s (produced files unchanged)' % (pn, what), w
        w = new()
        w['files']['data/in.txt'] = _flip(w['files']['data/in.txt'], 'last') if 'data/in.txt' in w['files'] else 'x'
        if base_name in ('dir', 'dircopy', 'dirchain'):
            for q in producers:
                _touch_dir(w, q)
        if any(r['prod'] is None and r['path'] == 'data/in.txt' for r in _get(w, pn)['refs']):
            yield 'producer', 'producer[%s]:input-content (produced files unchanged)' % pn, w
        if base_name not in ('dir', 'dircopy', 'dirchain'):
            w = new(); fn = sorted(w['outputs'][pn])[-1]
            w['outputs'][pn][fn] = w['outputs'][pn][fn] + '!'
            yield 'produced', 'produced[%s/%s]:content' % (pn, fn), w
            w = new(); w['outputs'][pn]['unrelated.txt'] = 'u'
            yield 'produced', 'produced[%s]:+unrelated-file' % pn, w
    if base_name in ('one', 'chain'):
        # the consumed file renamed inside the producer (same content): strong equal, fuzzy open
        w = new()
        cands = [r for r in _target(w)['refs'] if r['prod'] is not None and r['path'] is not None]
        if cands:
            r = cands[0]; pn = r['prod']
            w['remove'] = ['%s/renamed.txt' % pn if x == '%s/%s' % (pn, r['path']) else x for x in w['remove']]
            if w['inst'].get('transient_missing'):
                w['inst']['transient_missing'] = ['%s/renamed.txt' % pn if x == '%s/%s' % (pn, r['path']) else x
                                                  for x in w['inst']['transient_missing']]
            w['outputs'][pn]['renamed.txt'] = w['outputs'][pn].pop(r['path']); r['path'] = 'renamed.txt'
            yield 'produced', 'produced:file-renamed-same-content', w
    if base_name == 'two' and {'A-B', 'B'} <= set(producers):
        w = new(); w['outputs']['A-B']['out.txt'], w['outputs']['B']['out.txt'] = 'two', 'one'
        yield 'produced', 'produced:contents-exchanged-between-producers', w
        w = new(); w['outputs']['A-B']['out.txt'] = 'two'
        yield 'produced', 'produced:both-files-same-content', w

    # ---------- aspects the statement names as irrelevant
    for n in TARGET_NAMES:
        if n not in [c['name'] for c in w0['comps']]:
            w = new(); _rename(w, tname, n)
            yield 'name', 'name[target]=%s' % n, w
    for pn in producers:
        for n in PRODUCER_NAMES:
            if n not in [c['name'] for c in w0['comps']]:
                w = new(); _rename(w, pn, n)
                yield 'pname', 'name[%s]=%s' % (pn, n), w
    if base_name == 'two' and {'A-B', 'B'} <= set(producers):
        w = new(); _rename(w, 'A-B', 'G'); _rename(w, 'B', 'H')
        yield 'pname', 'name[A-B,B]=G,H', w
        w = new(); _rename(w, 'B', 'H'); _rename(w, 'A-B', 'B'); _rename(w, 'H', 'A-B')
        yield 'pname', 'name[A-B,B]=exchanged', w
    # stage index / name
    w = new()
    top = max(c['stage'] for c in w['comps'])
    vacated = _target(w)['stage']
    _target(w)['stage'] = top + 1
    for r in _target(w)['refs']:
        r['abs'] = True
    for s_ in range(top + 1):       # stages must stay contiguous
        if not any(c['stage'] == s_ for c in w['comps']):
            w['comps'].append(comp('Filler%s' % 'abcdef'[s_], s_, 'true', [''], []))
    yield 'stage', 'stage[target]=+1', w
    if t0['stage'] > 0:
        w = new(); _target(w)['stage'] = 0
        for r in _target(w)['refs']:
            r['abs'] = False
        yield 'stage', 'stage[target]=same-as-producers,relative-references', w
    w = new()
    for c in w['comps']:
        c['stage'] += 1
    w['comps'].insert(0, comp('Z', 0, 'true', [''], []))
    yield 'stage', 'stage[all]=+1', w
    w = new(); w['svars'] = {str(s): {'stage-name': 'Phase%s' % 'ABCDE'[s]} for s in sorted(set(c['stage'] for c in w['comps']))}
    yield 'stagename', 'stage-names', w
    # reference spelling
    for ri, r in enumerate(t0['refs']):
        if r['prod'] is not None and _get(w0, r['prod'])['stage'] == t0['stage']:
            w = new(); _target(w)['refs'][ri]['abs'] = not r['abs']
            yield 'spelling', 'spelling[ref%d]=%s' % (ri, 'absolute' if not r['abs'] else 'relative'), w
    # order of references
    n = len(t0['refs'])
    if n >= 2:
        for perm in itertools.permutations(range(n)):
            if list(perm) == list(range(n)):
                continue
            w = new(); t = _target(w)
            t['refs'] = [t['refs'][i] for i in perm]
            inv = {old: new_i for new_i, old in enumerate(perm)}
            t['args'] = [R(inv[p['r']]) if isinstance(p, dict) and 'r' in p else p for p in t['args']]
            yield 'order', 'reference-order=%s' % ''.join(map(str, perm)), w
    # unused variables
    w = new(); _target(w)['vars']['unused'] = 'u1'
    yield 'unused', 'unused-variable:component', w
    w = new(); _target(w)['vars']['unused'] = 'executable'
    yield 'unused', 'unused-variable:component-other-value', w
    w = new(); w['gvars']['unused'] = 'g1'
    yield 'unused', 'unused-variable:global', w
    w = new(); w['svars'] = {str(t0['stage']): {'unused': 's1'}}
    yield 'unused', 'unused-variable:stage', w
    # resource request / resource manager options
    for lbl, rr in (('numberProcesses=4', {'numberProcesses': 4}), ('numberThreads=2,threadsPerCore=2', {'numberThreads': 2, 'threadsPerCore': 2}),
                    ('memory=1Gi', {'memory': '1Gi'}), ('gpus=1', {'gpus': 1})):
        w = new(); _target(w)['rr'] = dict(rr)
        yield 'resources', 'resourceRequest:%s' % lbl, w
    w = new(); _target(w)['rm'] = {'config': {'walltime': 7.0}}
    yield 'resources', 'resourceManager.config.walltime', w
    if (t0.get('backend') or {}).get('kind') == 'kubernetes':
        w = new(); _target(w)['rm'] = {'kubernetes': {'namespace': 'other', 'qos': 'guaranteed', 'gracePeriod': 5}}
        yield 'resources', 'kubernetes:namespace,qos,gracePeriod', w
    # where the instance lives, what it is called, when it was made
    for lbl, inst in (('subdir=deep', {'subdir': 'some/deeper/place.d'}), ('subdir=files-executable', {'subdir': 'files/executable'}),
                      ('package-name', {'pkg': 'another-name'}), ('instance-name', {'name': 'custom.instance'}),
                      ('instance-name,no-timestamp', {'name': 'plain.instance', 'timestamp': False}),
                      ('reloaded-from-instance', {'reload': 'reload'}), ('instance-moved-then-reloaded', {'reload': 'moved'})):
        w = new(); w['inst'].update(inst)
        yield 'location', 'instance:%s' % lbl, w
    # executables checked (= resolved to absolute paths by validateExperiment(checkExecutables=True)) or not
    if base_name in ('direct', 'ext', 'bin', 'binone'):
        w = new(); w['inst']['check_exe'] = not w0['inst'].get('check_exe')
        yield 'checkexe', 'instance:executables-%s' % ('checked' if w['inst']['check_exe'] else 'not-checked'), w
    for lbl, mt in (('mtime=2001', 1000000000), ('mtime=2033', 2000000000)):
        w = new(); w['inst']['mtime'] = mt
        yield 'time', 'time:%s' % lbl, w
    # modification times that do not follow the names / indices of the files (touched, restored, copied without times)
    for order in ('oldest-name-newest', 'newest-name-newest', 'rotated'):
        w = new(); w['inst']['mtime_order'] = order
        yield 'time', 'time:mtimes-%s' % order, w
    # things next to the component
    w = new(); w['comps'].append(comp('Other', 0, 'sleep', ['1'], []))
    yield 'neighbours', 'unrelated-component', w
    w = new(); w['files']['data/unreferenced.txt'] = 'zzz'
    yield 'neighbours', 'unreferenced-data-file', w
    # the same content under another file name / place
    for ri, r in enumerate(t0['refs']):
        if r['prod'] is None and r['path'].startswith('data/') and any(isinstance(p, dict) and p.get('r') == ri for p in t0['args']):
            w = new(); w['files']['data/other-name.dat'] = w['files'][r['path']]
            _target(w)['refs'][ri]['path'] = 'data/other-name.dat'
            yield 'filename', 'direct-file:other-name-same-content', w
            w = new(); w['files']['input/in.txt'] = w['files'][r['path']]
            _target(w)['refs'][ri]['path'] = 'input/in.txt'
            yield 'filename', 'direct-file:input-instead-of-data', w
        if r['prod'] is None and r['path'].startswith('EXT/'):
            w = new(); _target(w)['refs'][ri]['path'] = 'EXT/b/in.txt'
            yield 'filename', 'absolute-path:other-directory-same-content', w
            w = new(); w['files']['data/in.txt'] = w['ext'][r['path'][4:]]; _target(w)['refs'][ri]['path'] = 'data/in.txt'
            yield 'filename', 'absolute-path->data-file-same-content', w
    # ---------- what a producer printed
    for ri, r in enumerate(t0['refs']):
        if not r.get('stdout') or r['prod'] not in w0['outputs']:
            continue
        pn = r['prod']
        if _get(w0, pn).get('repeat'):
            for e in STREAM_ENDS:
                w = new(); w['outputs'][pn] = stream_window(e)
                yield 'history', 'streams:repetitions=%d' % (e + 1), w
            for e in [None] + STREAM_ENDS_CONTENT:
                sib = () if e is None else ('streams:repetitions=%d' % (e + 1),)
                e_ = 4 if e is None else e
                w = new(); w['outputs'][pn] = stream_window(e_, latest='OTHER\n')
                yield ('latest', 'streams[%d repetitions]:most-recent-output-changed' % (e_ + 1), w) + sib
                w = new(); w['outputs'][pn] = stream_window(e_, changed_older=True)
                yield ('oldstream', 'streams[%d repetitions]:older-outputs-changed' % (e_ + 1), w) + sib
            w = new(); w['remove'] += ['%s/%s' % (pn, k) for k in sorted(w['outputs'][pn])]
            yield 'missing', 'missing[ref%d]:no-archived-output-yet' % ri, w
        else:
            for how in ('first', 'last', 'append', 'empty'):
                w = new(); w['outputs'][pn]['out.stdout'] = _flip(w['outputs'][pn]['out.stdout'], how)
                yield 'content', 'stdout[ref%d]:%s' % (ri, how), w
            w = new(); w['remove'].append('%s/out.stdout' % pn)
            yield 'missing', 'missing[ref%d]:no-stdout' % ri, w
    # ---------- missing inputs
    for ri, r in enumerate(t0['refs']):
        if r['path'] is None:
            continue
        w = new(); w['remove'].append(r['path'] if r['prod'] is None else '%s/%s' % (r['prod'], r['path']))
        yield 'missing', 'missing[ref%d]' % ri, w
    for pn in producers:
        for r in _get(w0, pn)['refs']:
            # (dircopy: the reference leaves no trace in the hash at all - accepted known finding - so a missing input
            #  of its producer is not enumerated there)
            if r['path'] is not None and base_name != 'dircopy':
                w = new(); w['remove'].append(r['path'] if r['prod'] is None else '%s/%s' % (r['prod'], r['path']))
                yield 'missing', 'missing-upstream[%s]' % pn, w
    # ---------- an input that was missing when the hashes were first asked for and appeared later: the hashes that are
    # read afterwards (same objects, nothing reset by the harness) must be those of the complete world
    cands = []
    for ri, r in enumerate(t0['refs']):
        if r['path'] is not None:
            cands.append(('ref%d' % ri, r['path'] if r['prod'] is None else '%s/%s' % (r['prod'], r['path'])))
    for pn in producers:
        for r in _get(w0, pn)['refs']:
            if r['path'] is not None:
                cands.append(('upstream[%s]' % pn, r['path'] if r['prod'] is None else '%s/%s' % (r['prod'], r['path'])))
    for lbl, path in cands:
        if path in w0['remove'] or path.startswith('EXT/'):
            continue
        w = new(); w['inst']['transient_missing'] = [path]
        yield 'appeared', 'missing-at-first-then-present[%s]' % lbl, w


def _set_content(w, r, fn):
    if r['prod'] is None:
        if r['path'].startswith('EXT/'):
            w['ext'][r['path'][4:]] = fn(w['ext'][r['path'][4:]])
        else:
            w['files'][r['path']] = fn(w['files'][r['path']])
    else:
        w['outputs'][r['prod']][r['path']] = fn(w['outputs'][r['prod']][r['path']])


def _touch_dir(w, pn):
    """dir bases: a change of the producer always comes with a change of what its directory contains"""
    fn = sorted(w['outputs'][pn])[0]
    w['outputs'][pn][fn] = w['outputs'][pn][fn] + '+'


# ------------------------------------------------------------------ ambiguity alphabet
def md5_hex(s):
    return hashlib.md5(s.encode()).hexdigest()


def ambiguity_worlds(thorough):
    """(label, world): components whose (executable, arguments, file list, image) are built from atoms that contain
    the key names of the serialised description, so that naive concatenations coincide."""
    h = md5_hex('hello')
    atoms = ['a', 'executable'] + (['b', 'arguments'] if thorough else [])
    strings = set(atoms)
    for x in atoms:
        for y in atoms:
            strings.add(x + y)
    if thorough:
        for x in ('a', 'executable'):
            for y in ('a', 'executable'):
                for z in ('a', 'executable'):
                    strings.add(x + y + z)
    strings = sorted(strings, key=lambda s: (len(s), s))
    out = []
    # (1) executable x arguments (no files)
    for e in strings:
        for a in [''] + strings:
            out.append(('ambiguity:exe/args', _world([comp('C', 0, e, [a], [])], 'C')))
    # (2) the classic: ("ab","c") / ("a","bc") ...
    for e, a in (('ab', 'c'), ('a', 'bc'), ('abc', ''), ('a', 'b c'), ('a b', 'c')):
        out.append(('ambiguity:exe/args', _world([comp('C', 0, e, [a], [])], 'C')))
    # (3) executable x file list: the executable swallows the key and the entry of the file list
    for e in ('a', 'afiles', 'afiles%s:ref' % h, 'afiles%s:copy' % h, 'a%s:ref' % h):
        for refs in ([], [ref(None, 'data/in.txt', 'copy')], [ref(None, 'data/in.txt', 'link')],
                     [ref(None, 'data/in.txt', 'copy'), ref(None, 'data/in2.txt', 'copy')],
                     [ref(None, 'data/in.txt', 'copy'), ref(None, 'data/in2.txt', 'link')],
                     [ref(None, 'data/in.txt', 'link'), ref(None, 'data/in2.txt', 'copy')],
                     [ref(None, 'data/in.txt', 'copy'), ref(None, 'data/same.txt', 'copy')]):
            out.append(('ambiguity:exe/files', _world([comp('C', 0, e, ['x'], refs)], 'C',
                                                      files={'data/in.txt': 'hello', 'data/in2.txt': 'world', 'data/same.txt': 'hello'})))
    # (4) image x arguments
    for img in ('i', 'icommandargumentsy', 'icommand', 'i/image:1'):
        for a in ('z', 'ycommandargumentsz', 'argumentsz', ''):
            for kind in ('kubernetes', 'lsf'):
                w = _world([comp('C', 0, 'e', [a], [])], 'C')
                w['comps'][0]['backend'] = {'kind': kind, 'image': img}
                out.append(('ambiguity:image/args', w))
    for a in ('z', 'imageicommandargumentsz', 'imagei'):
        out.append(('ambiguity:image/args', _world([comp('C', 0, 'e', [a], [])], 'C')))
    return out


# ------------------------------------------------------------------ realisation on disk
# Files "outside of the instance" must live at the same absolute path in every world that does not vary them (the
# path is part of what the component definition says). The parent process creates one directory per run and
# publishes it here before the workers are forked; worlds with the same external contents share a sub-directory.
EXT_ROOT = None


class Rejected(Exception):
    """the product's loader refused the generated workflow"""


def ext_dir(world, root):
    if not world.get('ext'):
        return os.path.join(root, 'ext')
    if EXT_ROOT is None or any(x.startswith('EXT/') for x in world.get('remove') or []):
        return os.path.join(root, 'ext')      # private: a file is going to be deleted
    k = hashlib.sha1(repr(sorted(world['ext'].items())).encode()).hexdigest()[:10]
    return os.path.join(EXT_ROOT, k)


def populate_atomically(location, files):
    for path, content in files.items():
        full = os.path.join(location, path)
        os.makedirs(os.path.dirname(full), exist_ok=True)
        if os.path.exists(full):
            continue
        tmp = '%s.%d.tmp' % (full, os.getpid())
        with open(tmp, 'w') as f:
            f.write(expand_content(content))
        os.replace(tmp, full)


def ref_string(world, c, r, root):
    if r['prod'] is None:
        p = r['path']
        if p.startswith('EXT/'):
            p = os.path.join(ext_dir(world, root), p[4:])
        return '%s:%s' % (p, r['method'])
    prod = [x for x in world['comps'] if x['name'] == r['prod']][0]
    s = ('stage%d.' % prod['stage'] if r['abs'] else '') + prod['name']
    if r['path'] is not None:
        s += '/' + r['path']
    return '%s:%s' % (s, r['method'])      # stdout references: `<producer>:output`


def build_doc(world, root):
    comps = []
    for c in world['comps']:
        refs = [ref_string(world, c, r, root) for r in c['refs']]
        args = ''
        for p in c['args']:
            if isinstance(p, dict) and 'r' in p:
                args += refs[p['r']]
            elif isinstance(p, dict):
                args += '%%(%s)s' % p['v']
            else:
                args += p
        exe = '%%(%s)s' % c['exe']['v'] if isinstance(c['exe'], dict) else c['exe']
        d = {'name': c['name'], 'stage': c['stage'], 'command': {'executable': exe, 'arguments': args}, 'references': refs}
        if c.get('env'):
            d['command']['environment'] = c['env']
        if c.get('vars'):
            d['variables'] = dict(c['vars'])
        if c.get('rr'):
            d['resourceRequest'] = dict(c['rr'])
        if c.get('repeat'):
            d['workflowAttributes'] = {'repeatInterval': c['repeat']}
        rm = copy.deepcopy(c.get('rm') or {})
        b = c.get('backend')
        if b:
            rm.setdefault('config', {})['backend'] = b['kind']
            if b['kind'] == 'kubernetes':
                rm.setdefault('kubernetes', {})['image'] = b['image']
            elif b['kind'] == 'lsf':
                rm.setdefault('lsf', {})['queue'] = 'normal'
                if b['image'] is not None:
                    rm['lsf']['dockerImage'] = b['image']
            elif b['kind'] == 'docker':
                rm.setdefault('docker', {})['image'] = b['image']
        if rm:
            d['resourceManager'] = rm
        comps.append(d)
    doc = {'components': comps}
    if world.get('environments'):
        doc['environments'] = {'default': copy.deepcopy(world['environments'])}
    gv = dict(world.get('gvars') or {})
    sv = {int(k): dict(v) for k, v in (world.get('svars') or {}).items()}
    if gv or sv:
        doc['variables'] = {'default': {'global': gv, 'stages': sv}}
    return doc


def realise(world, root):
    """Builds the instance below root, returns {component name: {'strong','fuzzy','info','info_fuzzy'}}."""
    import experiment.model.data
    import experiment.model.storage
    from verif.gen.pkg import write_package, populate_files
    inst = world['inst']
    location = os.path.join(root, inst['subdir'])
    os.makedirs(location, exist_ok=True)
    extd = ext_dir(world, root)
    populate_atomically(extd, world.get('ext') or {})
    files = {k: expand_content(v) for k, v in (world.get('files') or {}).items() if not k.startswith('input/')}
    inputs = []
    for k, v in (world.get('files') or {}).items():
        if k.startswith('input/'):
            populate_files(os.path.join(root, 'given-inputs'), {k[6:]: expand_content(v)})
            inputs.append(os.path.join(root, 'given-inputs', k[6:]))
    doc = build_doc(world, root)
    kw = {}
    if inst.get('name'):
        kw['instance_name'] = inst['name']
    check_exe = bool(inst.get('check_exe'))
    package_path = write_package(doc, location, files, name=inst['pkg'])
    for k in files:
        if k.startswith('bin/'):
            os.chmod(os.path.join(package_path, k), 0o755)
    try:
        pkg = experiment.model.storage.ExperimentPackage.packageFromLocation(package_path)
        exp = experiment.model.data.Experiment.experimentFromPackage(
            pkg, location=location, timestamp=bool(inst.get('timestamp', True)), inputs=inputs or None, **kw)
        if not inst.get('outputs_first'):
            exp.validateExperiment(checkExecutables=check_exe)
    except Exception as e:     # the loader / validator of the product refuses the workflow: the world is not judged
        raise Rejected('%s: %s' % (type(e).__name__, ' '.join(str(e).split())[:300]))
    idir = exp.instanceDirectory
    by_name = {c['name']: c for c in world['comps']}
    for cn, outs in (world.get('outputs') or {}).items():
        wd = idir.workingDirectoryForComponent(by_name[cn]['stage'], cn)
        populate_files(wd, {k: expand_content(v) for k, v in outs.items()})
    if inst.get('outputs_first'):
        # a `<producer>:output` reference can only be validated once the producer has printed something
        try:
            exp.validateExperiment(checkExecutables=check_exe)
        except Exception as e:
            raise Rejected('%s: %s' % (type(e).__name__, ' '.join(str(e).split())[:300]))
    for x in world.get('remove') or []:
        if x.startswith('EXT/'):
            os.remove(os.path.join(extd, x[4:]))
        elif x.split('/')[0] in ('data', 'input'):
            os.remove(os.path.join(idir.location, x))
        else:
            cn, rel = x.split('/', 1)
            os.remove(os.path.join(idir.workingDirectoryForComponent(by_name[cn]['stage'], cn), rel))
    if inst.get('mtime'):
        for base in (idir.location,) if extd.startswith(str(EXT_ROOT)) else (idir.location, extd):   # shared files are left alone
            for dp, dn, fn in os.walk(base):
                for f in fn + dn:
                    try:
                        os.utime(os.path.join(dp, f), (inst['mtime'], inst['mtime']), follow_symlinks=False)
                    except (OSError, NotImplementedError):
                        pass
    if inst.get('mtime_order'):
        import re as _re
        nat = lambda p: [int(t) if t.isdigit() else t for t in _re.split(r'(\d+)', p)]
        paths = []
        for dp, dn, fn in os.walk(idir.location):
            paths.extend(os.path.join(dp, f) for f in fn)
        paths.sort(key=nat)          # natural order: streams/9.stdout before streams/10.stdout
        n = len(paths)
        for i, pth in enumerate(paths):
            rank = {'oldest-name-newest': n - i, 'newest-name-newest': i, 'rotated': (i + n // 2 + 1) % n}[inst['mtime_order']]
            try:
                os.utime(pth, (1500000000 + 3600 * rank, 1500000000 + 3600 * rank), follow_symlinks=False)
            except (OSError, NotImplementedError):
                pass
    if inst.get('reload'):
        loc = idir.location
        if inst['reload'] == 'moved':
            new = os.path.join(root, 'moved-to', 'relocated.instance')
            os.makedirs(os.path.dirname(new), exist_ok=True)
            shutil.move(loc, new)
            loc = new
        exp = experiment.model.data.Experiment.experimentFromInstance(loc)
        if check_exe:
            try:
                exp.validateExperiment(checkExecutables=True)
            except Exception as e:
                raise Rejected('after reload %s: %s' % (type(e).__name__, ' '.join(str(e).split())[:300]))
    g = exp.graph
    out = {}
    specs = {}
    for c in world['comps']:
        node = 'stage%d.%s' % (c['stage'], c['name'])
        specs[c['name']] = g.nodes[node]['componentSpecification']
        specs[c['name']].memoization_reset()
    if inst.get('transient_missing'):
        # history: the files are missing, every hash is asked for once, the files appear; what is read below comes from
        # the same specification objects and nothing is reset in between
        saved = {}
        for x in inst['transient_missing']:
            if x in (world.get('remove') or []):
                continue        # removed for good by another variation
            if x.split('/')[0] in ('data', 'input'):
                full = os.path.join(exp.instanceDirectory.location, x)
            else:
                cn, rel = x.split('/', 1)
                full = os.path.join(exp.instanceDirectory.workingDirectoryForComponent(by_name[cn]['stage'], cn), rel)
            with open(full, 'rb') as f:
                saved[full] = f.read()
            os.remove(full)
        for n, cs in specs.items():
            cs.memoization_hash, cs.memoization_hash_fuzzy
        for full, data in saved.items():
            with open(full, 'wb') as f:
                f.write(data)
    for n, cs in specs.items():
        out[n] = {'strong': cs.memoization_hash, 'fuzzy': cs.memoization_hash_fuzzy, 'info': cs.memoization_info,
                  'info_fuzzy': cs.memoization_info_fuzzy}
    runtime_view(world, exp, root, out)
    return out


class InMemoryCDB(object):
    """the two calls of the component database that Controller.can_memoize() makes"""

    def __init__(self, documents):
        self.documents = documents
        self.queries = []

    def cdb_get_document_component(self, query=None, _api_verbose=True, **kwargs):
        query = dict(query or {})
        self.queries.append(query)
        return [d for d in self.documents if all(d.get(k) == query[k] for k in query)]

    def cdb_query_component_files_exist(self, instance_uri, stage_index, component_name):
        return False


def runtime_view(world, exp, root, out):
    """Where the hashes are consumed: the runtime wrapper (ComponentState.memoization_hash[_fuzzy]) and the lookup
    Controller.can_memoize() performs in the component database. The database holds one document per component of a
    past run of the SAME world (hash fields = the hashes read from the specification, '' where there is none - the
    convention of Experiment.annotate_component_documents) plus the document of an unrelated component that never
    finished (hash fields ''); every document points to an existing, non-empty directory."""
    import networkx
    import experiment.runtime.control
    import experiment.runtime.workflow
    from verif.gen.pkg import populate_files
    docs = []
    stamp = 'file://past.host/somewhere/%s-2026-01-01T000000.000000.instance'
    for c in world['comps']:
        loc = os.path.join(root, 'past', c['name'])
        populate_files(loc, {'result.txt': 'result of %s' % c['name']})
        docs.append({'type': 'component', 'instance': stamp % 'same', 'stage': c['stage'], 'name': c['name'], 'location': loc,
                     'memoization-hash': out[c['name']]['strong'] or '', 'memoization-hash-fuzzy': out[c['name']]['fuzzy'] or '',
                     'component-state': 'finished', 'doc-of': c['name']})
    loc = os.path.join(root, 'past', '__unrelated__')
    populate_files(loc, {'result.txt': 'UNRELATED'})
    docs.append({'type': 'component', 'instance': stamp % 'other', 'stage': 0, 'name': 'never-finished', 'location': loc,
                 'memoization-hash': '', 'memoization-hash-fuzzy': '', 'component-state': 'failed', 'doc-of': None})
    cdb = InMemoryCDB(docs)
    g = exp.graph
    states = {}
    for reference in networkx.topological_sort(g):
        data = g.nodes[reference]
        name = data['componentSpecification'].identification.componentName
        if name not in out:
            continue
        job = exp._stages[data['stageIndex']].jobWithName(name)
        states[name] = experiment.runtime.workflow.ComponentState(job, exp.experimentGraph, create_engine=False)
    controller = experiment.runtime.control.Controller(exp, cdb=cdb, memoization_fuzzy=True)
    for name, st in states.items():
        o = out[name]
        o['wrapper'] = {'strong': st.memoization_hash, 'fuzzy': st.memoization_hash_fuzzy}
        o['lookup'] = {}
        for kind, fuzzy in (('strong', False), ('fuzzy', True)):
            del cdb.queries[:]
            m = controller.can_memoize(st, fuzzy)
            o['lookup'][kind] = {'matched': None if m is None else (m.get('doc-of') or '__unrelated__'),
                                 'queries': [dict(q) for q in cdb.queries]}
