"""C15 child process: loads a batch of packages in ONE interpreter whose string-hash seed was fixed by the parent
(PYTHONHASHSEED in the environment of the process) and prints canonical dumps.

Usage:  PYTHONHASHSEED=<n> python -m verif.gen.c15_child <job.json> <result.json>

The job is {'scratch': <private dir of this child>, 'tasks': [task, ...], 'sets': {set id: replica spec}}.
A task is {'id', 'mode', 'package', 'platform', 'variable_files', 'listing', 'inputs'} (see verif/gen/c15_corpus.py).

Nothing here judges anything. The only product knowledge is which entry points are called and which accessors are read.
"""
import itertools
import json
import os
import sys
import time
import traceback


# ------------------------------------------------------------------------------------- directory listing control
class Listing(object):
    """Makes os.listdir / os.scandir / glob.glob / glob.iglob return their results in a chosen permutation.

    The permutation is described by an integer k: the entries are sorted by name and the k-th permutation (in
    lexicographic order of positions, k taken modulo n!) is returned; directories with more than MAXN entries are
    rotated by k and reversed when k is odd. k=None leaves the functions alone. glob.glob results are permuted as a
    whole (sorted by path)."""
    MAXN = 5

    def __init__(self):
        import glob
        self.k = None
        self.seen = {}          # kind -> largest listing permuted, kind:calls -> number of permuted listings
        self.orig_listdir = os.listdir
        self.orig_scandir = os.scandir
        self.orig_glob = glob.glob
        self.orig_iglob = glob.iglob
        self.glob = glob
        self.only_under = None

    def permute(self, items, key, where):
        items = sorted(items, key=key)
        n = len(items)
        if self.k is None or n < 2:
            return items
        if n <= self.MAXN:
            nfact = 1
            for i in range(2, n + 1):
                nfact *= i
            perm = None
            for i, p in enumerate(itertools.permutations(range(n))):
                if i == self.k % nfact:
                    perm = p
                    break
            out = [items[i] for i in perm]
        else:
            r = self.k % n
            out = items[r:] + items[:r]
            if self.k % 2:
                out.reverse()
        self.seen[where] = max(n, self.seen.get(where, 0))
        self.seen[where + ':calls'] = self.seen.get(where + ':calls', 0) + 1
        return out

    def controlled(self, path):
        if self.k is None:
            return False
        try:
            p = os.path.abspath(os.fsdecode(path))
        except Exception:
            return False
        return self.only_under is None or any(p == u or p.startswith(u + os.sep) for u in self.only_under)

    def install(self):
        me = self

        def listdir(path='.'):
            res = me.orig_listdir(path)
            if not me.controlled(path):
                return res
            return me.permute(res, lambda x: x, 'listdir')

        class ScandirIter(object):
            def __init__(self, entries):
                self.entries = entries
                self.i = 0

            def __iter__(self):
                return self

            def __next__(self):
                if self.i >= len(self.entries):
                    raise StopIteration
                self.i += 1
                return self.entries[self.i - 1]

            def close(self):
                pass

            def __enter__(self):
                return self

            def __exit__(self, *a):
                return False

        def scandir(path='.'):
            it = me.orig_scandir(path)
            if not me.controlled(path if not isinstance(path, int) else '.'):
                return it
            with it:
                entries = list(it)
            return ScandirIter(me.permute(entries, lambda e: e.name, 'scandir'))

        def glob_(pathname, *a, **kw):
            res = list(me.orig_iglob(pathname, *a, **kw))     # (glob.glob itself calls the module-level iglob)
            if not me.controlled(os.path.dirname(pathname) or '.'):
                return res
            return me.permute(res, lambda x: x, 'glob')

        def iglob_(pathname, *a, **kw):
            res = list(me.orig_iglob(pathname, *a, **kw))
            if not me.controlled(os.path.dirname(pathname) or '.'):
                return iter(res)
            return iter(me.permute(res, lambda x: x, 'glob'))

        os.listdir = listdir
        os.scandir = scandir
        self.glob.glob = glob_
        self.glob.iglob = iglob_

    def uninstall(self):
        os.listdir = self.orig_listdir
        os.scandir = self.orig_scandir
        self.glob.glob = self.orig_glob
        self.glob.iglob = self.orig_iglob


# ------------------------------------------------------------------------------------- set-order witnesses
class Witness(object):
    """Records the iteration order of the identified small sets as this process sees them.

    Each recorder rebuilds the set with exactly the expression / insertion sequence the product uses, from the actual
    arguments the product function receives (the product function is wrapped, its behaviour is untouched)."""

    def __init__(self):
        self.records = []       # (set id, elements in iteration order)
        self.undo = []

    def rec(self, sid, order, recipe):
        order = [str(x) for x in order]
        if len(order) >= 2:
            self.records.append([sid, order, recipe])

    def install(self):
        import experiment.model.conf as conf
        import experiment.model.frontends.dosini as dosini
        import experiment.model.frontends.dsl as dsl
        import experiment.model.graph as graph
        me = self

        # 1. set(variable_files) in FlowIRExperimentConfiguration.__init__ / parametrize
        C = conf.FlowIRExperimentConfiguration
        orig_init = C.__init__
        orig_param = C.parametrize

        import inspect
        sig_init = inspect.signature(orig_init)
        sig_param = inspect.signature(orig_param)

        def given_files(sig, a, kw):
            try:
                return sig.bind(*a, **kw).arguments.get('variable_files')
            except TypeError:
                return None

        def init(*a, **kw):
            files = list(given_files(sig_init, a, kw) or [])
            me.rec('conf.variable_files', list(set(files)), {'op': 'set', 'a': files})
            return orig_init(*a, **kw)

        def parametrize(*a, **kw):
            files = list(given_files(sig_param, a, kw) or [])
            me.rec('conf.variable_files', list(set(files)), {'op': 'set', 'a': files})
            return orig_param(*a, **kw)

        C.__init__ = init
        C.parametrize = parametrize
        self.undo.append(lambda: (setattr(C, '__init__', orig_init), setattr(C, 'parametrize', orig_param)))

        # 2. set(options) & known options in Dosini.parse_component
        D = dosini.Dosini
        orig_pc = D.__dict__['parse_component'].__func__

        def parse_component(cls, options, *a, **kw):
            try:
                known = cls.known_flowir_options()
                me.rec('dosini.component_options', list(set(options.keys()).intersection(known)),
                       {'op': 'intersection', 'a': list(options.keys()), 'b': sorted(known)})
            except Exception:
                pass
            return orig_pc(cls, options, *a, **kw)

        D.parse_component = classmethod(parse_component)
        self.undo.append(lambda: setattr(D, 'parse_component', classmethod(orig_pc)))

        # 3. reference-string sets in ComponentFlowIR.convert_outputreferences_to_datareferences
        K = dsl.ComponentFlowIR
        orig_conv = K.convert_outputreferences_to_datareferences

        def convert(self_, *a, **kw):
            try:
                import re
                pattern_output = re.compile(dsl.OutputReferenceVanilla)
                args = self_.flowir['command'].get('arguments', '')
                arguments_output, parameters_output = set(), set()
                seq_a, seq_p = [], []
                if isinstance(args, str):
                    for m in pattern_output.finditer(args):
                        if dsl.OutputReference.from_str(m.group(0)).method:
                            arguments_output.add(m.group(0))
                            seq_a.append(m.group(0))
                for name, value in self_.scope.parameters.items():
                    if isinstance(value, str):
                        for m in pattern_output.finditer(value):
                            if dsl.OutputReference.from_str(m.group(0)).method:
                                parameters_output.add(m.group(0))
                                seq_p.append(m.group(0))
                me.rec('dsl.output_references', list(parameters_output.union(arguments_output)),
                       {'op': 'union', 'a': seq_p, 'b': seq_a})
            except Exception:
                pass
            return orig_conv(self_, *a, **kw)

        K.convert_outputreferences_to_datareferences = convert
        self.undo.append(lambda: setattr(K, 'convert_outputreferences_to_datareferences', orig_conv))

        # 4. set(backends) in WorkflowGraph.active_backends: observed directly through its return value (see dump)

        # 6. the expanded references of a component when two of its references expand to the same string (the relative
        #    and the absolute spelling of one producer, or a literal repeat): the set a de-duplication would go through
        import experiment.model.frontends.flowir as flowir_mod
        R = flowir_mod.FlowIR
        orig_ecr = R.__dict__['expand_component_references'].__func__

        def expand_component_references(cls, references, stage_context, known_components,
                                        application_dependencies, top_level_folders):
            try:
                if references:
                    folders = (list(top_level_folders or [])
                               + [cls.application_dependency_to_name(x) for x in (application_dependencies or [])]
                               + cls.SpecialFolders)
                    expanded = [cls.expand_potential_component_reference(r, stage_context, known_components, folders, False)
                                for r in references]
                    if len(set(expanded)) != len(expanded):
                        me.rec('flowir.expanded_references', list(set(expanded)), {'op': 'set', 'a': expanded})
            except Exception:
                pass
            return orig_ecr(cls, references, stage_context, known_components, application_dependencies, top_level_folders)

        R.expand_component_references = classmethod(expand_component_references)
        self.undo.append(lambda: setattr(R, 'expand_component_references', classmethod(orig_ecr)))

        # 5. the names of the formats ExperimentConfigurationFactory.get_config_parser walks through, for directories
        #    that are readable in more than one format: the order in which a SET of the (lower-cased) priority names
        #    iterates in this process, projected on the formats that are present (what any set-typed traversal of the
        #    priorities would try first)
        F = conf.ExperimentConfigurationFactory
        orig_gcp = F.__dict__['get_config_parser'].__func__

        def get_config_parser(cls, path, is_instance, format_priority=None, **kw):
            try:
                if os.path.isdir(path):
                    names = [n.lower() for n in (format_priority or cls.default_priority)]
                    present = []
                    for n in names:
                        try:
                            if n not in present and cls.format_map[n].format_found_in_directory(path, is_instance, **kw):
                                present.append(n)
                        except Exception:
                            pass
                    order = [n for n in {x for x in names} if n in present]
                    me.rec('conf.format_priority', order, {'op': 'project', 'a': names, 'keep': sorted(present)})
            except Exception:
                pass
            return orig_gcp(cls, path, is_instance, format_priority=format_priority, **kw)

        F.get_config_parser = classmethod(get_config_parser)
        self.undo.append(lambda: setattr(F, 'get_config_parser', classmethod(orig_gcp)))

    def uninstall(self):
        for u in self.undo:
            u()
        self.undo = []


# ------------------------------------------------------------------------------------- canonical dump
def jsonable(x, depth=0):
    if isinstance(x, dict):
        return {str(k) if not isinstance(k, str) else k: jsonable(v, depth + 1) for k, v in x.items()}
    if isinstance(x, (list, tuple)):
        return [jsonable(v, depth + 1) for v in x]
    if isinstance(x, (set, frozenset)):
        return {'__set__': sorted(json.dumps(jsonable(v), sort_keys=True) for v in x)}
    if isinstance(x, (str, int, float, bool)) or x is None:
        return x
    return repr(x)


def err(e):
    """Errors are reported by type and by the *set* of underlying error types (the order in which a loader lists
    several problems is not something the property talks about)."""
    kinds = set()
    stack = [e]
    seen = 0
    while stack and seen < 200:
        x = stack.pop()
        seen += 1
        kinds.add(type(x).__name__)
        for attr in ('underlyingError', 'underlyingErrors', 'underlying_errors', 'underlying_error'):
            try:
                u = getattr(x, attr, None)
            except Exception:
                u = None
            if isinstance(u, BaseException):
                stack.append(u)
            elif isinstance(u, (list, tuple)):
                stack.extend(v for v in u if isinstance(v, BaseException))
    return {'error': type(e).__name__, 'kinds': sorted(kinds)}


def guarded(fn):
    try:
        return jsonable(fn())
    except Exception as e:
        return err(e)


def dump_graph(g, with_memo):
    """Everything the property names: component names, graph, environments, resolved configurations, hashes."""
    conf = g.configuration
    concrete = conf.get_flowir_concrete(return_copy=False)
    out = {}
    nodes = sorted(g.graph.nodes)
    out['components'] = nodes
    out['edges'] = sorted([u, v] for u, v in g.graph.edges)
    per = {}
    for n in nodes:
        d = {}
        d['configuration'] = guarded(lambda: g.configurationForNode(n))
        d['configuration_raw'] = guarded(lambda: g.configurationForNode(n, raw=True))
        d['environment'] = guarded(lambda: g.environmentForNode(n))
        d['data_references'] = guarded(lambda: g.dataReferencesForNode(n))
        d['producers'] = guarded(lambda: sorted(g.producerReferencesForNode(n)))
        spec = g.graph.nodes[n].get('componentSpecification')
        if spec is not None:
            d['resolved_arguments'] = guarded(lambda: spec.commandDetails.get('arguments'))
            d['input_references'] = guarded(lambda: g.inputReferencesForNode(n))
            d['component_references'] = guarded(lambda: g.resolvedReferencesForNode(n))
            if with_memo:
                d['memo_strong'] = guarded(lambda: spec.memoization_hash)
                d['memo_fuzzy'] = guarded(lambda: spec.memoization_hash_fuzzy)
                d['memo_info_strong'] = guarded(lambda: spec.memoization_info)
                d['memo_info_fuzzy'] = guarded(lambda: spec.memoization_info_fuzzy)
        per[n] = d
    out['per_component'] = per
    out['global_variables'] = guarded(lambda: conf.get_global_variables())
    out['user_variables'] = guarded(lambda: conf.get_user_variables())
    out['platform'] = guarded(lambda: conf.get_platform_name())
    out['platforms'] = guarded(lambda: sorted(concrete.platforms))
    out['environments'] = guarded(lambda: concrete.get_environments())
    out['default_environment'] = guarded(lambda: g.defaultEnvironment())
    out['key_outputs'] = guarded(lambda: conf.get_key_outputs())
    out['status'] = guarded(lambda: concrete.get_status())
    out['application_dependencies'] = guarded(lambda: sorted(conf.get_application_dependencies()))
    out['top_level_folders'] = guarded(lambda: sorted(conf.top_level_folders))
    out['manifest'] = guarded(lambda: conf.manifestData)
    out['active_backends'] = guarded(lambda: sorted(g.active_backends()))
    out['flowir'] = guarded(lambda: sort_components(concrete.raw()))
    out['flowir_unreplicated'] = guarded(lambda: sort_components(conf.get_unreplicated_flowir().raw()))
    return out


def sort_components(flowir):
    """The position of a component inside the `components` list is not an observable of the property (the names are)."""
    if isinstance(flowir, dict) and isinstance(flowir.get('components'), list):
        flowir = dict(flowir)
        flowir['components'] = sorted(flowir['components'],
                                      key=lambda c: (c.get('stage', 0), str(c.get('name'))) if isinstance(c, dict) else (0, ''))
    return flowir


def normalise(x, repl):
    """Replaces the private paths of this child / this package copy by placeholders (longest first)."""
    if isinstance(x, str):
        for a, b in repl:
            if a in x:
                x = x.replace(a, b)
        return x
    if isinstance(x, dict):
        # FLOW_RUN_ID is a fresh uuid4 per Experiment object by design (experiment.model.data), not an output of loading
        return {normalise(k, repl): ('<RUNID>' if k == 'FLOW_RUN_ID' and isinstance(v, str) else normalise(v, repl))
                for k, v in x.items()}
    if isinstance(x, list):
        return [normalise(v, repl) for v in x]
    return x


# ------------------------------------------------------------------------------------- loading
def load(task, scratch, listing, witness):
    import experiment.model.conf
    import experiment.model.data
    import experiment.model.graph
    import experiment.model.storage
    import yaml
    mode = task['mode']
    pkg_path = task['package']
    vf = task.get('variable_files')
    platform = task.get('platform')
    inst_root = os.path.join(scratch, 'i-%s' % task['id'])
    os.makedirs(inst_root)
    private = pkg_path
    if task.get('private_copy', True) and os.path.isdir(pkg_path):
        # loaders may write into the package directory (flowir_package.yaml for DOSINI, instance files);
        # every load gets its own copy so that loads cannot influence each other through the file system
        import shutil
        private = os.path.join(inst_root, 'pkg', os.path.basename(pkg_path))
        shutil.copytree(pkg_path, private, symlinks=True)
    if task.get('preload'):
        # "a package that has been loaded before": a first load with the default updateInstanceFiles=True stores the FlowIR
        # translation of a non-FlowIR package next to its source (conf/flowir_package.yaml) - the directory is then
        # readable in two formats
        try:
            experiment.model.conf.ExperimentConfigurationFactory.configurationForExperiment(
                private, platform=platform, createInstanceFiles=False, updateInstanceFiles=True, primitive=True)
        except Exception:
            pass
    listing.k = task.get('listing')
    listing.only_under = [scratch, task.get('corpus_root') or os.path.dirname(pkg_path)]
    mark = len(witness.records)
    out = {}
    try:
        try:
            if mode == 'exp':
                pkg = experiment.model.storage.ExperimentPackage.packageFromLocation(private, platform=platform)
                exp = experiment.model.data.Experiment.experimentFromPackage(
                    pkg, location=inst_root, timestamp=False, platform=platform, variable_files=vf,
                    inputs=task.get('inputs'), instance_name='instance',
                    createVirtualEnvLinks=False)
                exp.validateExperiment(checkExecutables=False)
                g = exp.experimentGraph
                out = dump_graph(g, True)
                out['instance_top_level'] = sorted(listing.orig_listdir(exp.instanceDirectory.location))
                p = os.path.join(exp.instanceDirectory.location, 'conf', 'flowir_instance.yaml')
                if os.path.isfile(p):
                    with open(p) as f:
                        out['flowir_instance_file'] = jsonable(sort_components(yaml.safe_load(f)))
                p = os.path.join(exp.instanceDirectory.location, 'input', 'variables.yaml')
                if os.path.isfile(p):
                    with open(p) as f:
                        out['aggregated_variables_file'] = jsonable(yaml.safe_load(f))
            elif mode == 'conf':
                conf = experiment.model.conf.ExperimentConfigurationFactory.configurationForExperiment(
                    private, platform=platform, variable_files=vf, createInstanceFiles=False,
                    updateInstanceFiles=False, primitive=False)
                g = experiment.model.graph.WorkflowGraph(configuration=conf, platform=conf.platform_name,
                                                         primitive=False)
                out = dump_graph(g, False)
            elif mode == 'graph':
                pkg = experiment.model.storage.ExperimentPackage.packageFromLocation(private, platform=platform)
                g = experiment.model.graph.WorkflowGraph.graphFromPackage(
                    pkg, platform=platform, primitive=False, variable_files=vf,
                    createInstanceConfiguration=False, updateInstanceConfiguration=False)
                out = dump_graph(g, False)
            else:
                raise ValueError('unknown mode %r' % mode)
            out['loaded'] = True
        except Exception as e:
            out = {'loaded': False, 'rejected': err(e), 'message': str(e)[:300]}
    finally:
        listing.k = None
    repl = sorted({(inst_root, '<INSTROOT>'), (scratch, '<SCRATCH>'), (private, '<PKG>'), (pkg_path, '<PKG>')},
                  key=lambda ab: -len(ab[0]))
    out = normalise(out, repl)
    wit = [list(r) for r in witness.records[mark:]]
    try:
        # set(backends): the order active_backends() returns IS the iteration order of the set
        if out.get('loaded'):
            order = list(g.active_backends())
            given = [d['componentSpecification'].resourceManager['config']['backend']
                     for _, d in g.graph.nodes(data=True)]
            if len(order) >= 2:
                # (the node order of the graph is not part of the recipe: it only decides collisions inside the set)
                wit.append(['graph.active_backends', order, {'op': 'set', 'a': sorted(set(x for x in given if x is not None))}])
    except Exception:
        pass
    return out, wit


def main(argv):
    job_path, out_path = argv[1], argv[2]
    with open(job_path) as f:
        job = json.load(f)
    seed_env = os.environ.get('PYTHONHASHSEED')
    os.environ.pop('PYTHONHASHSEED', None)       # must not leak into environments built from os.environ
    repo = os.environ.get('VERIF_REPO', '/repo')
    for p in (repo, os.path.join(repo, 'python')):
        if p in sys.path:
            sys.path.remove(p)
        sys.path.insert(0, p)
    import logging
    import warnings
    warnings.filterwarnings('ignore')
    logging.disable(logging.CRITICAL)
    res = {'hashseed': seed_env, 'results': {}, 'witness': {}, 'probe': {}, 'listing_sites': {}, 'seconds': {}}
    # plain probes first (no product code): iteration order of given string sets in THIS process
    for pid, elems in job.get('probe', {}).items():
        res['probe'][pid] = list(set(elems))
    if job.get('tasks'):
        import experiment.model.storage as st
        scratch = job['scratch']
        shadow = os.path.join(scratch, 'shadow')
        os.makedirs(shadow, exist_ok=True)
        st.ExperimentShadowDirectory.temporaryShadow = staticmethod(lambda name: st.ExperimentShadowDirectory(name, shadow))
        listing = Listing()
        listing.install()
        witness = Witness()
        witness.install()
        try:
            for task in job['tasks']:
                try:
                    t0 = time.time()
                    out, wit = load(task, scratch, listing, witness)
                    res['seconds'][task['id']] = round(time.time() - t0, 3)
                except Exception:
                    res['results'][task['id']] = {'harness_error': traceback.format_exc()}
                    continue
                res['results'][task['id']] = out
                res['witness'][task['id']] = wit
        finally:
            witness.uninstall()
            listing.uninstall()
        res['listing_sites'] = listing.seen
    with open(out_path, 'w') as f:
        json.dump(res, f, sort_keys=True)
    return 0


if __name__ == '__main__':
    sys.exit(main(sys.argv))
