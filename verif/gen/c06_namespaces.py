"""C06 generators: DSL 2.0 namespaces (plain dicts) and single-fault mutations of them.

Everything is deterministic and enumerated simplest-first.  A generated item is a dict
    {'family': str, 'id': str, 'mode': 'valid' | 'either', 'rep': bool, 'doc': namespace dict}
mode 'valid'  : the namespace is inside the documented language, the compiler must flatten it correctly;
mode 'either' : whether the namespace is acceptable is debatable (step names that collide with generated names ...);
                the compiler must either reject it properly or flatten it correctly.
rep           : representative of its structural class (mutations that are expensive while a known defect makes the
                compiler spin are applied to representatives only).
"""
import copy
import itertools
import json
import re

NODEF = '__NODEF__'
METHODS = ('ref', 'output', 'copy', 'link', 'extract')


# ---------------------------------------------------------------------------------------------- builders
def comp(name, params, arguments, extra=None):
    c = {'signature': {'name': name,
                       'parameters': [({'name': n} if d == NODEF else {'name': n, 'default': d}) for n, d in params]},
         'command': {'executable': 'exe-' + name, 'arguments': arguments}}
    for k, v in (extra or {}).items():
        c[k] = copy.deepcopy(v)
    return c


def wf(name, params, steps):
    """steps: list of (step name, template name, args dict)"""
    return {'signature': {'name': name,
                          'parameters': [({'name': n} if d == NODEF else {'name': n, 'default': d}) for n, d in params]},
            'steps': dict((s, t) for s, t, _ in steps),
            'execute': [{'target': '<%s>' % s, 'args': dict(a)} for s, _, a in steps]}


def ns(entry, entry_args, workflows, components):
    return {'entrypoint': {'entry-instance': entry, 'execute': [{'target': '<entry-instance>', 'args': dict(entry_args)}]},
            'workflows': list(workflows), 'components': list(components)}


def item(family, ident, doc, mode='valid', rep=False, mutate=None):
    """rep: apply all mutation operators; mutate: apply the cheap mutation operators (thorough tier; default = rep)"""
    return {'family': family, 'id': ident, 'mode': mode, 'rep': rep, 'mutate': rep if mutate is None else mutate, 'doc': doc}


# ---------------------------------------------------------------------------------------------- family: literals
L_MODES = ('fwd', 'default', 'override', 'concat', 'int')


def _lit_args(mode, level, cross):
    """arguments a caller at `level` gives to a callee that has parameters m and n"""
    if mode == 'fwd':
        a = {'m': '%(m)s'}
    elif mode == 'default':
        return {}
    elif mode == 'override':
        a = {'m': 'o%d' % level}
    elif mode == 'concat':
        a = {'m': 'a%d-' % level + '%(m)s-z'}
    else:
        a = {'m': 7 + level}
    if cross:
        a['n'] = '%(m)s+%(n)s'     # the callee's n is built from the CALLER's m and n
    else:
        a['n'] = '%(n)s'
    return a


def family_literals(thorough):
    """a chain of 1..3 nested workflows; the same component template T is instantiated at every level under the same
    step name x; parameters m (and n) forwarded / defaulted / overridden / concatenated / given as integer."""
    T = comp('T', [('m', 'dT'), ('n', 'nT')], 'm=%(m)s n=%(n)s',
             extra={'workflowAttributes': {'restartHookFile': 'hook-%(n)s.py'}})
    for depth in (1, 2, 3):
        for entry_mode in ('given', 'default'):
            for links in itertools.product(L_MODES, repeat=depth - 1):
                for cm in L_MODES:
                    wfs = []
                    for k in range(depth):
                        name = 'main' if k == 0 else 'W' + 'abc'[k]
                        steps = [('x', 'T', _lit_args(cm, k, cross=(k % 2 == 1)))]
                        if k + 1 < depth:
                            steps.append(('w', 'W' + 'abc'[k + 1], _lit_args(links[k], k, cross=(k % 2 == 0))))
                        wfs.append(wf(name, [('m', 'dW%d' % k), ('n', 'nW%d' % k)], steps))
                    eargs = {'m': 'E', 'n': 'F'} if entry_mode == 'given' else {}
                    rep = len(set(links + (cm,))) == 1
                    yield item('literals', 'd%d-%s-%s-%s' % (depth, entry_mode, '.'.join(links) or '-', cm),
                               ns('main', eargs, wfs, [T]), rep=rep, mutate=rep or thorough)


# ---------------------------------------------------------------------------------------------- family: references
def _spellings(chain, kc):
    n = len(chain)
    yield ('plain',)
    for k in range(1, n + 1):
        yield ('quoted', k)
    for k in range(1, n):
        yield ('bare', k)
    if kc >= 1:
        for k in range(1, n):
            yield ('partial', k)


def _ref_plans(chain, kc):
    """yields (spelling, path position, method position); positions: 'in' (inside the brackets), 0 (at the common
    ancestor), 1..kc (forwarding workflow level), 'C' (component arguments, method only); None = no path."""
    for sp in _spellings(chain, kc):
        first = 1 if sp[0] == 'partial' else 0
        ppos = [None] + list(range(first, kc + 1))
        if sp == ('plain',) or sp == ('quoted', len(chain)):
            ppos.insert(1, 'in')
        for lp in ppos:
            lo = first if lp in (None, 'in') else lp
            for lm in list(range(lo, kc + 1)) + ['C']:
                yield sp, lp, lm


def build_ref_case(da, kd, kc, sp, lp, lm, path, method, same_names, quote, cuse):
    pname, cname = ('x', 'x') if (same_names and kd + kc > 0) else ('p', 'c')
    chain = ['u'] * kd + [pname]
    # text at the common ancestor
    if sp[0] == 'plain':
        inner = list(chain) + (path.split('/') if lp == 'in' else [])
        text0 = '<%s>' % '/'.join(inner)
        rest1 = ''
    elif sp[0] == 'quoted':
        k = sp[1]
        inner = chain[:k] + (path.split('/') if (lp == 'in' and k == len(chain)) else [])
        text0 = '"<%s>"' % '/'.join(inner) + ''.join('/' + s for s in chain[k:])
        rest1 = ''
    elif sp[0] == 'bare':
        k = sp[1]
        text0 = '<%s>' % '/'.join(chain[:k]) + ''.join('/' + s for s in chain[k:])
        rest1 = ''
    else:
        k = sp[1]
        text0 = ('"<%s>"' if quote else '<%s>') % '/'.join(chain[:k])
        rest1 = ''.join('/' + s for s in chain[k:])
    suffix = {}
    for level in range(0, kc + 1):
        s = ''
        if level == 1:
            s += rest1
        if lp == level:
            s += '/' + path
        if lm == level:
            s += ':' + method
        suffix[level] = s
    text0 += suffix[0]

    def fwd(level):
        s = suffix[level]
        if s and quote:
            return '"%(src)s"' + s
        return '%(src)s' + s

    # component templates
    P = comp('P', [('m', 'dP')], 'm=%(m)s')
    if lm == 'C':
        if cuse == 'twice':
            cargs = '-s %%(src)s:%s -t %%(src)s:%s m=%%(m)s' % (method, method)
        else:
            cargs = '-s %%(src)s:%s m=%%(m)s' % method
    elif cuse == 'unused':
        cargs = 'm=%(m)s'
    elif cuse == 'twice':
        cargs = '-s %(src)s m=%(m)s -t %(src)s'
    else:
        cargs = '-s %(src)s m=%(m)s'
    C = comp('C', [('src', NODEF), ('m', 'dC')], cargs)
    wfs = []
    # producer side templates
    if kd >= 1:
        wfs.append(wf('Ua', [('m', 'dUa')], [(pname, 'P', {'m': 'p-%(m)s'})]))
    if kd == 2:
        wfs.append(wf('Ub', [('m', 'dUb')], [('u', 'Ua', {'m': '%(m)s'})]))
    # consumer side templates
    if kc >= 1:
        wfs.append(wf('Ta', [('src', NODEF), ('m', 'dTa')], [(cname, 'C', {'src': fwd(kc), 'm': 'c-%(m)s'})]))
    if kc == 2:
        wfs.append(wf('Tb', [('src', NODEF), ('m', 'dTb')], [('t', 'Ta', {'src': fwd(1), 'm': '%(m)s'})]))
    a_steps = []
    if kd == 0:
        a_steps.append((pname, 'P', {'m': 'p-%(m)s'}))
    else:
        a_steps.append(('u', 'U' + 'xab'[kd], {'m': '%(m)s'}))
    if kc == 0:
        a_steps.append((cname, 'C', {'src': text0, 'm': 'c-%(m)s'}))
    else:
        a_steps.append(('t', 'T' + 'xab'[kc], {'src': text0, 'm': '%(m)s'}))
    if da == 0:
        wfs.insert(0, wf('main', [('m', 'dM')], a_steps))
    else:
        wfs.insert(0, wf('A', [('m', 'dA')], a_steps))
        wfs.insert(0, wf('main', [('m', 'dM')], [('a', 'A', {'m': 'w-%(m)s'})]))
    return ns('main', {'m': 'E'}, wfs, [P, C])


def family_references(thorough):
    counter = 0
    for da in (0, 1):
        for kd in range(0, 3 - da):
            for kc in range(0, 3 - da):
                pname = 'p'
                chain = ['u'] * kd + [pname]
                for sp, lp, lm in _ref_plans(chain, kc):
                    paths = [None] if lp is None else ['f.txt', 'd/f.txt']
                    for path in paths:
                        variants = []
                        if thorough:
                            for method in METHODS:
                                for same in ((False, True) if kd + kc > 0 else (False,)):
                                    variants.append((method, same))
                        else:
                            variants.append((METHODS[counter % 5], bool((counter // 5) % 2)))
                        for method, same in variants:
                            counter += 1
                            quote = bool(counter % 3 == 0)
                            cuse = ('arg', 'twice', 'unused')[counter % 3] if lm != 'C' else ('arg', 'twice')[counter % 2]
                            doc = build_ref_case(da, kd, kc, sp, lp, lm, path or '', method, same, quote, cuse)
                            first = 1 if sp[0] == 'partial' else 0
                            rep = (lp is None and lm == first
                                   and (not thorough or (method == 'ref' and not same)))
                            ident = 'da%d-kd%d-kc%d-%s-p%s%s-m%s-%s-%s%s%s' % (
                                da, kd, kc, ''.join(str(x) for x in sp), lp, '' if path is None else '(%s)' % path, lm,
                                method, 'same' if same else 'dist', '-q' if quote else '', '-' + cuse)
                            yield item('references', ident, doc, rep=rep, mutate=rep or (thorough and method == 'ref'))


# ---------------------------------------------------------------------------------------------- family: multi
def family_multi(thorough):
    P = comp('P', [('m', 'dP')], 'm=%(m)s')
    C = comp('C', [('src', NODEF), ('m', 'dC')], '-s %(src)s m=%(m)s')
    C2 = comp('CC', [('sa', NODEF), ('sb', NODEF), ('m', 'dCC')], '-a %(sa)s -b %(sb)s:ref m=%(m)s')
    K = comp('K', [('src', 'nosrc'), ('m', 'dK')], '-s %(src)s m=%(m)s')
    W = wf('W', [('m', 'dW')], [('p', 'P', {'m': '%(m)s'}), ('c', 'C', {'src': '<p>:ref', 'm': 'c-%(m)s'})])
    # the same workflow template twice, different arguments
    yield item('multi', 'same-workflow-twice',
               ns('main', {}, [wf('main', [], [('a', 'W', {'m': 'A'}), ('b', 'W', {'m': 'B'})]), W], [P, C]), rep=True)
    yield item('multi', 'same-workflow-twice-one-default',
               ns('main', {}, [wf('main', [], [('a', 'W', {}), ('b', 'W', {'m': 'B'})]), W], [P, C]), rep=True)
    # the same workflow template at two depths under the same step name
    V = wf('V', [('m', 'dV')], [('a', 'W', {'m': 'v-%(m)s'})])
    yield item('multi', 'same-workflow-two-depths',
               ns('main', {'m': 'E'}, [wf('main', [('m', 'dM')], [('a', 'W', {'m': '%(m)s'}), ('w', 'V', {})]), V, W],
                  [P, C]), rep=True)
    # references into two instances of the same workflow, all spellings
    for i, (ra, rb) in enumerate([('<a/p>:output', '<b/p>'), ('"<a>"/p/f.txt:copy', '"<b>"/p'),
                                  ('<a>/p:link', '<b>/p/d/f.txt'), ('"<a/p>"/f.txt:ref', '<b/p/f.txt>'),
                                  ('<b/p>:ref', '<a/p>'), ('<a/c>:output', '<b/c/o.txt>')]):
        main = wf('main', [], [('a', 'W', {'m': 'A'}), ('b', 'W', {'m': 'B'}), ('k', 'CC', {'sa': ra, 'sb': rb})])
        yield item('multi', 'cross-into-two-instances-%d' % i, ns('main', {}, [main, W], [P, C, C2]), rep=(i == 0))
    # two consumers of one producer, one consumer of two producers, chain and diamond built from one template
    main = wf('main', [], [('x', 'K', {'m': 'one'}), ('y', 'K', {'src': '<x>:ref', 'm': 'two'}),
                           ('z', 'K', {'src': '<y>/o.txt:output', 'm': 'three'})])
    yield item('multi', 'chain-of-one-template', ns('main', {}, [main], [K]), rep=True)
    main = wf('main', [], [('x', 'K', {'m': 'one'}), ('y', 'K', {'src': '<x>:ref'}), ('z', 'K', {'src': '<x>:ref'}),
                           ('k', 'CC', {'sa': '<y>:output', 'sb': '<z>'})])
    yield item('multi', 'diamond', ns('main', {}, [main], [K, C2]), rep=True)
    main = wf('main', [], [('x', 'K', {'m': 'one'}), ('k', 'CC', {'sa': '<x>/a.txt:copy', 'sb': '<x>/b.txt'})])
    yield item('multi', 'two-references-to-one-producer', ns('main', {}, [main], [K, C2]), rep=True)
    # the same component three times at three depths, chained upwards and downwards
    for direction in ('down', 'up'):
        if direction == 'down':
            # x@0 -> x@1 -> x@2 (producers above)
            Wb = wf('Wb', [('src', NODEF)], [('x', 'K', {'src': '%(src)s', 'm': 'three'})])
            Wa = wf('Wa', [('src', NODEF)], [('x', 'K', {'src': '%(src)s:ref', 'm': 'two'}),
                                             ('w', 'Wb', {'src': '<x>/o.txt:output'})])
            main = wf('main', [], [('x', 'K', {'m': 'one'}), ('w', 'Wa', {'src': '<x>'})])
        else:
            # x@2 -> x@1 -> x@0 (producers below)
            Wb = wf('Wb', [], [('x', 'K', {'m': 'three'})])
            Wa = wf('Wa', [], [('x', 'K', {'src': '<w/x>:ref', 'm': 'two'}), ('w', 'Wb', {})])
            main = wf('main', [], [('x', 'K', {'src': '"<w>"/x/o.txt:output', 'm': 'one'}), ('w', 'Wa', {})])
        yield item('multi', 'three-depths-%s' % direction, ns('main', {}, [main, Wa, Wb], [K]), rep=True)
    # producers at overlapping locations (u/p and u/u/p), paths spelled like step names
    Ua = wf('Ua', [], [('p', 'P', {'m': 'inner'})])
    Ub = wf('Ub', [], [('u', 'Ua', {}), ('p', 'P', {'m': 'outer'})])
    for i, (ra, rb) in enumerate([('<u/p>:ref', '<u/u/p>'), ('<u/u/p>:output', '"<u>"/p'), ('<u/p/u/p>:ref', '<u/u/p/p>'),
                                  ('"<u/p>"/u:copy', '<u>/u/p/u/u'), ('<u/p/c>:ref', '"<u/u>"/p/k')]):
        main = wf('main', [], [('u', 'Ub', {}), ('c', 'C', {'src': '<u/p>:ref'}), ('k', 'CC', {'sa': ra, 'sb': rb})])
        yield item('multi', 'overlapping-locations-%d' % i, ns('main', {}, [main, Ua, Ub], [P, C, C2]), rep=(i == 0))
    # one parameter that carries a reference, forwarded to two consumers with different suffixes
    Tx = wf('Tx', [('src', NODEF)], [('c', 'C', {'src': '%(src)s/a.txt:ref'}), ('d', 'C', {'src': '"%(src)s"/b.txt:output'}),
                                     ('k', 'CC', {'sa': '%(src)s:copy', 'sb': '%(src)s/c'})])
    main = wf('main', [], [('p', 'P', {}), ('t', 'Tx', {'src': '<p>'})])
    yield item('multi', 'one-reference-many-consumers', ns('main', {}, [main, Tx], [P, C, C2]), rep=True)
    # a workflow parameter that is never used, a component parameter that is never used
    main = wf('main', [('unused', 'dU'), ('m', 'dM')], [('p', 'P', {'m': '%(m)s'})])
    yield item('multi', 'unused-workflow-parameter', ns('main', {'unused': 'zzz'}, [main], [P]), rep=True)
    # entry instance is a component
    yield item('multi', 'entry-is-component', ns('P', {'m': 'solo'}, [], [P]), rep=True)
    yield item('multi', 'entry-is-component-default', ns('P', {}, [], [P]), rep=True)
    # parameter name shared by caller and callee but carrying different values
    Q = comp('Q', [('a', 'qa'), ('b', 'qb')], 'a=%(a)s b=%(b)s')
    main = wf('main', [('a', 'MA'), ('b', 'MB')], [('q', 'Q', {'a': '%(b)s', 'b': '%(a)s'}), ('r', 'Q', {'b': '%(a)s%(b)s'}),
                                                   ('s', 'Q', {'a': '%(a)s %(a)s'})])
    yield item('multi', 'swapped-parameter-names', ns('main', {'a': 'EA'}, [main], [Q]), rep=True)
    Wq = wf('Wq', [('a', 'WA'), ('b', 'WB')], [('q', 'Q', {'a': '%(b)s', 'b': '%(a)s'})])
    main = wf('main', [('a', 'MA'), ('b', 'MB')], [('w', 'Wq', {'a': '%(b)s-%(a)s'}), ('v', 'Wq', {'b': '%(a)s'}),
                                                   ('q', 'Q', {})])
    yield item('multi', 'swapped-parameter-names-nested', ns('main', {'b': 'EB'}, [main, Wq], [Q]), rep=True)


# ---------------------------------------------------------------------------------------------- family: environments
E_MODES = ('default', 'same', 'other', 'other-value', 'fwd', 'empty', 'none')


def _env_args(mode):
    if mode == 'default':
        return {}
    if mode == 'same':
        return {'env': {'A': 'b'}}
    if mode == 'other':
        return {'env': {'X': 'y', 'N': 1}}
    if mode == 'other-value':
        return {'env': {'A': 'c'}}
    if mode == 'fwd':
        return {'env': '%(e)s'}
    if mode == 'empty':
        return {'env': {}}
    return {'env': 'none'}


def family_environments(thorough):
    """a dictionary parameter that becomes the environment of the component: defaulted, given, forwarded through 0-2
    workflow levels, empty"""
    P = comp('P', [('m', 'dP'), ('env', {'A': 'b'})], 'm=%(m)s')
    P['command']['environment'] = '%(env)s'
    for m1 in E_MODES:
        for m2 in E_MODES:
            for top in ('default', 'given'):
                Wa = wf('Wa', [('e', {'Q': 'wa'})], [('p', 'P', dict(_env_args(m2), m='deep'))])
                main = wf('main', [('e', {'Q': 'main'})], [('p', 'P', dict(_env_args(m1), m='top')),
                                                          ('w', 'Wa', {'e': '%(e)s'} if (m2 == 'fwd' and top == 'given') else {})])
                eargs = {} if top == 'default' else {'e': {'Q': 'entry'}}
                yield item('environments', '%s-%s-%s' % (m1, m2, top), ns('main', eargs, [main, Wa], [P]),
                           rep=(m1 == 'fwd' and m2 == 'fwd' and top == 'given'))


# ---------------------------------------------------------------------------------------------- family: names
PLAIN_NAMES = ('x', 'y')
ODD_NAMES = ('x-I', 'x-II', 'I', 'x1', 'stage0.x', 'stage1.x')
ODD_NAMES_THOROUGH = ('X', 'stage1.x-I', 'x-IV', 'II')
ROOT_NAME = 'entry-instance'


def _names_depths(K, s1, s2, s3):
    Wb = wf('Wb', [('src', NODEF)], [(s3, 'K', {'src': '%(src)s', 'm': 'three'})])
    Wa = wf('Wa', [('src', NODEF)], [(s2, 'K', {'src': '%(src)s', 'm': 'two'}), ('w', 'Wb', {'src': '<%s>:output' % s2})])
    main = wf('main', [], [(s1, 'K', {'m': 'one'}), ('w', 'Wa', {'src': '<%s>:ref' % s1})])
    return ns('main', {}, [main, Wa, Wb], [K])


def _names_siblings(K, s1, s2, inner):
    Wa = wf('Wa', [('src', NODEF)], [(inner, 'K', {'src': '%(src)s', 'm': 'three'})])
    main = wf('main', [], [(s1, 'K', {'m': 'one'}), (s2, 'K', {'src': '<%s>:ref' % s1, 'm': 'two'}),
                           ('w', 'Wa', {'src': '<%s>:output' % s2})])
    return ns('main', {}, [main, Wa], [K])


def family_names(thorough):
    """one component template K instantiated at three depths (s1 -> s2 -> s3 by references handed down through
    parameters) or as two siblings plus a nested one; step names from an alphabet chosen to collide with the names
    the compiler generates. Names outside PLAIN_NAMES make the case 'either'."""
    K = comp('K', [('src', 'nosrc'), ('m', 'dK')], '-s %(src)s m=%(m)s')
    names = PLAIN_NAMES + ODD_NAMES + (ODD_NAMES_THOROUGH if thorough else ())
    for s1, s2, s3 in itertools.product(names, repeat=3):
        odd = any(n not in PLAIN_NAMES for n in (s1, s2, s3))
        yield item('names', 'depths:%s|%s|%s' % (s1, s2, s3), _names_depths(K, s1, s2, s3),
                   mode='either' if odd else 'valid')
    for s1, s2 in itertools.permutations(names, 2):
        for inner in names:
            odd = any(n not in PLAIN_NAMES for n in (s1, s2, inner))
            yield item('names', 'siblings:%s|%s|%s' % (s1, s2, inner), _names_siblings(K, s1, s2, inner),
                       mode='either' if odd else 'valid')
    # the reserved name of the root instance used as a step name (one position at a time)
    for pos in range(3):
        for a, b in itertools.product(PLAIN_NAMES, repeat=2):
            trip = [a, b]
            trip.insert(pos, ROOT_NAME)
            yield item('names', 'depths:%s|%s|%s' % tuple(trip), _names_depths(K, *trip), mode='either')
            if trip[0] != trip[1]:
                yield item('names', 'siblings:%s|%s|%s' % tuple(trip), _names_siblings(K, *trip), mode='either')


# ---------------------------------------------------------------------------------------------- family: prefix names
PREFIX_PAIRS = (('a', 'aa'), ('a', 'ab'), ('a', 'a-b'), ('a', 'a.b'), ('a', 'a_b'), ('sim', 'sim-post'), ('a', 'ba'),
                ('p', 'p.txt'))


def family_prefix_names(thorough):
    """two producers whose step names are related as strings but are different path elements (one name is a string
    prefix / suffix of the other, or equals a path element used in the reference), both referenced by one consumer,
    under every order of the execute list (the order decides which component the compiler discovers first):
    siblings of the consumer, inside a nested workflow, handed down through parameters, and as names of two workflow
    steps. The two producers get different arguments, so swapping them is visible up to renaming."""
    P = comp('P', [('m', 'dP')], 'm=%(m)s')
    CC = comp('CC', [('sa', NODEF), ('sb', NODEF), ('m', 'dCC')], '-a %(sa)s -b %(sb)s m=%(m)s')
    counter = 0
    for short, long_ in PREFIX_PAIRS:
        for path in ('', '/f.txt', '/' + short, '/' + long_):
            counter += 1
            ma, mb = METHODS[counter % 5], METHODS[(counter + 2) % 5]
            # flat: consumer and both producers are siblings
            steps = [(short, 'P', {'m': 'S'}), (long_, 'P', {'m': 'L'}),
                     ('k', 'CC', {'sa': '<%s>%s:%s' % (short, path, ma), 'sb': '"<%s>"%s:%s' % (long_, path, mb)})]
            for oi, order in enumerate(itertools.permutations(range(3))):
                yield item('prefix-names', 'flat:%s|%s|%s|o%d' % (short, long_, path, oi),
                           ns('main', {}, [wf('main', [], [steps[i] for i in order])], [P, CC]),
                           rep=(oi == 0 and path == ''))
            # consumer one level down, references handed down through parameters
            Ta = wf('Ta', [('sa', NODEF), ('sb', NODEF)], [('k', 'CC', {'sa': '%%(sa)s%s:%s' % (path, ma), 'sb': '%(sb)s'})])
            steps = [(short, 'P', {'m': 'S'}), (long_, 'P', {'m': 'L'}),
                     ('t', 'Ta', {'sa': '<%s>' % short, 'sb': '<%s%s>:%s' % (long_, path, mb)})]
            for oi, order in enumerate(itertools.permutations(range(3))):
                yield item('prefix-names', 'handed-down:%s|%s|%s|o%d' % (short, long_, path, oi),
                           ns('main', {}, [wf('main', [], [steps[i] for i in order]), Ta], [P, CC]))
            # producers inside a nested workflow, consumer above and a second consumer inside
            for oi, order in enumerate(itertools.permutations(range(3))):
                inner = [(short, 'P', {'m': 'S'}), (long_, 'P', {'m': 'L'}),
                         ('k', 'CC', {'sa': '<%s%s>:%s' % (long_, path, ma), 'sb': '<%s>%s:%s' % (short, path, mb)})]
                Wa = wf('Wa', [], [inner[i] for i in order])
                main = wf('main', [], [('w', 'Wa', {}), ('k', 'CC', {'sa': '<w/%s>%s:%s' % (short, path, ma),
                                                                    'sb': '"<w>"/%s%s:%s' % (long_, path, mb)})])
                yield item('prefix-names', 'nested:%s|%s|%s|o%d' % (short, long_, path, oi),
                           ns('main', {}, [main, Wa], [P, CC]))
            # the related names are names of two workflow steps (and of a component next to a workflow)
            if short.endswith('.txt') or long_.endswith('.txt'):
                continue
            Wp = wf('Wp', [('m', 'dWp')], [('p', 'P', {'m': '%(m)s'})])
            steps = [(short, 'Wp', {'m': 'S'}), (long_, 'Wp', {'m': 'L'}),
                     ('k', 'CC', {'sa': '<%s/p>%s:%s' % (short, path, ma), 'sb': '"<%s>"/p%s:%s' % (long_, path, mb)})]
            for oi, order in enumerate(itertools.permutations(range(3))):
                yield item('prefix-names', 'workflows:%s|%s|%s|o%d' % (short, long_, path, oi),
                           ns('main', {}, [wf('main', [], [steps[i] for i in order]), Wp], [P, CC]))
            for which in (0, 1):
                cname, wname = (short, long_) if which == 0 else (long_, short)
                steps = [(cname, 'P', {'m': 'C'}), (wname, 'Wp', {'m': 'W'}),
                         ('k', 'CC', {'sa': '<%s>%s:%s' % (cname, path, ma), 'sb': '<%s/p%s>:%s' % (wname, path, mb)})]
                for oi, order in enumerate(itertools.permutations(range(3))):
                    yield item('prefix-names', 'component-and-workflow%d:%s|%s|%s|o%d' % (which, short, long_, path, oi),
                               ns('main', {}, [wf('main', [], [steps[i] for i in order]), Wp], [P, CC]))


# ---------------------------------------------------------------------------------------------- family: every field
def rich_component(name='R'):
    """a component template that uses a parameter in every field that accepts parameter references"""
    params = [('exe', 'run.sh'), ('interp', 'bash'), ('a', 'A'), ('env', {'K': 'v'}), ('flag', 'false'),
              ('expand', 'none'), ('n', 2), ('mem', '1Gi'), ('backend', 'kubernetes'), ('wall', 30),
              ('img', 'repo/img:1'), ('qos', 'guaranteed'), ('hook', 'hook.py'), ('policy', 'Never'), ('q', 'batch'),
              ('reason', 'KnownIssue')]
    c = comp(name, params, 'x %(a)s -n %(n)s')
    c['command'].update({'executable': '%(exe)s', 'interpreter': '%(interp)s', 'environment': '%(env)s',
                         'resolvePath': '%(flag)s', 'expandArguments': '%(expand)s'})
    c['workflowAttributes'] = {
        'restartHookFile': '%(hook)s', 'aggregate': '%(flag)s', 'replicate': '%(n)s', 'repeatInterval': '%(n)s',
        'maxRestarts': '%(n)s', 'restartHookOn': ['%(reason)s'], 'shutdownOn': ['%(reason)s'],
        'memoization': {'disable': {'strong': '%(flag)s', 'fuzzy': '%(flag)s'}, 'embeddingFunction': '%(a)s'}}
    c['resourceRequest'] = {'numberProcesses': '%(n)s', 'ranksPerNode': '%(n)s', 'numberThreads': '%(n)s',
                            'threadsPerCore': '%(n)s', 'memory': '%(mem)s', 'gpus': '%(n)s'}
    c['resourceManager'] = {
        'config': {'backend': '%(backend)s', 'walltime': '%(wall)s'},
        'kubernetes': {'image': '%(img)s', 'qos': '%(qos)s', 'cpuUnitsPerCore': '%(n)s', 'gracePeriod': '%(n)s'},
        'docker': {'image': '%(img)s', 'imagePullPolicy': '%(policy)s', 'platform': '%(a)s'},
        'lsf': {'queue': '%(q)s', 'resourceString': '%(a)s', 'reservation': '%(a)s'}}
    c['variables'] = {'v': 'pre-%(a)s', 'w': 'lit'}
    return c


def family_every_field(thorough):
    """one component template with a parameter reference in every field that accepts one (command.*, workflowAttributes.*,
    resourceRequest.*, resourceManager.*, variables): all parameters defaulted / all given by the workflow / all
    forwarded from the entrypoint through two workflow levels. Representatives: the mutation 'reference to a parameter
    that does not exist' is then applied to every one of these fields."""
    R = rich_component()
    given = {'exe': 'other.sh', 'interp': 'sh', 'a': 'B', 'env': {'K': 'w', 'L': 1}, 'flag': 'true', 'expand': 'double-quote',
             'n': 3, 'mem': '2Gi', 'backend': 'docker', 'wall': 45, 'img': 'repo/other:2', 'qos': 'burstable',
             'hook': 'other.py', 'policy': 'Always', 'q': 'long', 'reason': 'ResourceExhausted'}
    yield item('every-field', 'all-defaulted', ns('main', {}, [wf('main', [], [('r', 'R', {})])], [R]), rep=True)
    yield item('every-field', 'all-given', ns('main', {}, [wf('main', [], [('r', 'R', dict(given))])], [R]), rep=True)
    params = [(k, NODEF) for k in given]
    fwd = dict((k, '%%(%s)s' % k) for k in given)
    Wa = wf('Wa', params, [('r', 'R', dict(fwd))])
    main = wf('main', params, [('w', 'Wa', dict(fwd)), ('r', 'R', {'a': 'top-%(a)s'})])
    yield item('every-field', 'all-forwarded', ns('main', dict(given), [main, Wa], [R]), rep=True)
    yield item('every-field', 'entry-is-component', ns('R', dict(given), [], [R]), rep=True)


# ---------------------------------------------------------------------------------------------- family: entry override
def family_entry_override(thorough):
    """arguments of the entry instance given partly by entrypoint.execute[0].args and partly through
    namespace_to_flowir(..., override_entrypoint_args=...): every split of three parameters (a, b with a default, c
    without) into {neither, entrypoint only, override only, both}, the entry instance being a workflow (forwarding to a
    component one and two levels down) or a component; plus no / empty override and an override naming an unknown
    parameter. A split that leaves c without a value is an invalid namespace."""
    T = comp('T', [('a', 'dTa'), ('b', 'dTb'), ('c', NODEF)], 'a=%(a)s b=%(b)s c=%(c)s')
    Wa = wf('Wa', [('a', 'dWa'), ('c', NODEF)], [('t', 'T', {'a': '%(a)s', 'c': 'in-%(c)s'})])
    main = wf('main', [('a', 'dMa'), ('b', 'dMb'), ('c', NODEF)],
              [('t', 'T', {'a': '%(a)s', 'b': '%(b)s', 'c': '%(c)s'}), ('w', 'Wa', {'a': '%(b)s', 'c': '%(a)s+%(c)s'})])
    shapes = (('workflow', lambda ea: ns('main', ea, [main, Wa], [T])), ('component', lambda ea: ns('T', ea, [], [T])))
    states = ('neither', 'entry', 'override', 'both')
    for shape, build in shapes:
        for sa, sb, sc in itertools.product(states, repeat=3):
            ea, ov = {}, {}
            for name, st in (('a', sa), ('b', sb), ('c', sc)):
                if st in ('entry', 'both'):
                    ea[name] = 'E' + name
                if st in ('override', 'both'):
                    ov[name] = ('O' + name) if name != 'b' else 7
            it = item('entry-override', '%s:%s-%s-%s' % (shape, sa, sb, sc), build(ea))
            it['expect'] = 'invalid' if sc == 'neither' else 'valid'
            if ov:
                it['override'] = ov
                yield it
            else:
                for label, o in (('none', None), ('empty', {})):
                    it2 = dict(it, id=it['id'] + ':' + label, override=o)
                    yield it2
        it = item('entry-override', '%s:unknown-parameter-in-override' % shape, build({'a': 'Ea', 'c': 'Ec'}))
        it['override'] = {'b': 'Ob', 'zz': 'v'}
        it['expect'] = 'invalid'
        yield it


# ---------------------------------------------------------------------------------------------- family: variables
def family_variables(thorough):
    """a component with private variables, referenced in its own fields (stay %(v)s) - and parameters of the calling
    workflows (0-2 levels up) that have the SAME name as a variable and are forwarded to the component directly or
    inside text; control: a variable name no caller uses; variable values that use a parameter of the component"""
    for vname in ('level', 'lvl'):
        V = comp('V', [('text', 'dV'), ('m', 'dVm')], '-n %%(%s)s %%(text)s m=%%(m)s' % vname)
        V['variables'] = {vname: 'private', 'w': 'val-%(m)s'}
        V['workflowAttributes'] = {'restartHookFile': 'hook-%%(%s)s-%%(m)s.py' % vname}
        for form_i, form in enumerate(('%(level)s', 'value=%(level)s', '%(level)s.%(other)s')):
            for depth in (1, 2, 3):
                for entry in ('given', 'default'):
                    wfs = []
                    for k in range(depth):
                        name = 'main' if k == 0 else 'W' + 'abc'[k]
                        steps = [('v', 'V', {'text': form, 'm': 'at%d' % k})]
                        if k + 1 < depth:
                            steps.append(('w', 'W' + 'abc'[k + 1], {'level': 'n%d-%%(level)s' % k, 'other': '%(other)s'}))
                        wfs.append(wf(name, [('level', 'dL%d' % k), ('other', 'dO%d' % k)], steps))
                    eargs = {'level': 'from-entry'} if entry == 'given' else {}
                    yield item('variables', '%s-form%d-d%d-%s' % (vname, form_i, depth, entry), ns('main', eargs, wfs, [V]),
                               rep=(form_i == 0 and depth == 2 and entry == 'given'))
    # a parameter of the component itself that has the name of a variable: invalid
    V = comp('V', [('level', 'dV')], '-n %(level)s')
    V['variables'] = {'level': 'private'}
    it = item('variables', 'variable-shadows-parameter', ns('main', {}, [wf('main', [], [('v', 'V', {})])], [V]))
    it['expect'] = 'invalid'
    yield it


# ---------------------------------------------------------------------------------------------- family: cycles
def family_cycles(thorough):
    """hand-written invalid namespaces that single-site mutations cannot reach: data-flow cycles between steps"""
    K = comp('K', [('src', 'nosrc'), ('m', 'dK')], '-s %(src)s m=%(m)s')
    main = wf('main', [], [('a', 'K', {'src': '<b>:ref'}), ('b', 'K', {'src': '<a>:ref'})])
    yield item('cycles', 'two-siblings', ns('main', {}, [main], [K]), rep=True)
    main = wf('main', [], [('a', 'K', {'src': '<c>:ref'}), ('b', 'K', {'src': '<a>:output'}), ('c', 'K', {'src': '<b>:copy'})])
    yield item('cycles', 'three-siblings', ns('main', {}, [main], [K]), rep=True)
    W = wf('W', [('src', NODEF)], [('b', 'K', {'src': '%(src)s'})])
    main = wf('main', [], [('a', 'K', {'src': '<w/b>:ref'}), ('w', 'W', {'src': '<a>:ref'})])
    yield item('cycles', 'through-a-nested-workflow', ns('main', {}, [main, W], [K]), rep=True)


# ---------------------------------------------------------------------------------------------- mutations
HANG_PRONE = ('rename-segment', 'drop-segment')
_REF = re.compile(r'<([^<>]*)>')
_PARAM = re.compile(r'%\(([A-Za-z0-9_.-]+)\)s')
_METHOD = re.compile(r':(ref|copy|output|link|extract)\b')


def _string_leaves(prefix, value):
    if isinstance(value, dict):
        for k in value:
            for p in _string_leaves(prefix + [k], value[k]):
                yield p
    elif isinstance(value, list):
        for i, v in enumerate(value):
            for p in _string_leaves(prefix + [i], v):
                yield p
    elif isinstance(value, str):
        yield prefix


def _templates(doc):
    for kind in ('workflows', 'components'):
        for i, t in enumerate(doc.get(kind) or []):
            yield kind, i, t


def _execs(doc):
    """(label, execute entry dict) for the entrypoint and every workflow execute entry"""
    if doc.get('entrypoint'):
        yield ('entrypoint', 0), doc['entrypoint']['execute'][0]
    for i, w in enumerate(doc.get('workflows') or []):
        for j, e in enumerate(w.get('execute') or []):
            yield (i, j), e


def mutations(doc, heavy=True):
    """yields (kind, site, mutated doc); every mutation changes exactly one place. Deterministic order."""
    def clone():
        return copy.deepcopy(doc)

    # 1 unknown argument
    for site, _ in _execs(doc):
        d = clone()
        dict(_execs(d))[site].setdefault('args', {})['zz'] = 'v'
        yield 'unknown-argument', list(site), d
    # 2 remove an argument
    for site, e in _execs(doc):
        for k in sorted(e.get('args') or {}):
            d = clone()
            del dict(_execs(d))[site]['args'][k]
            yield 'remove-argument', list(site) + [k], d
    # 3 remove a default
    for kind, i, t in _templates(doc):
        for j, p in enumerate(t['signature'].get('parameters') or []):
            if 'default' in p:
                d = clone()
                del d[kind][i]['signature']['parameters'][j]['default']
                yield 'remove-default', [kind, i, j], d
    # 4 reference to an unknown parameter
    for site, e in _execs(doc):
        for k in sorted(e.get('args') or {}):
            v = e['args'][k]
            if isinstance(v, str) and _PARAM.search(v):
                d = clone()
                dict(_execs(d))[site]['args'][k] = _PARAM.sub('%(zz)s', v, count=1)
                yield 'unknown-parameter-reference', list(site) + [k], d
    for i, c in enumerate(doc.get('components') or []):
        # every field of the component (any depth, lists included) that holds a parameter reference
        for path in _string_leaves([], dict((k, v) for k, v in c.items() if k != 'signature')):
            leaf = c
            for k in path:
                leaf = leaf[k]
            if _PARAM.search(leaf):
                d = clone()
                cur = d['components'][i]
                for k in path[:-1]:
                    cur = cur[k]
                cur[path[-1]] = _PARAM.sub('%(zz)s', leaf, count=1)
                yield 'unknown-parameter-reference', ['components', i] + path, d
    if doc.get('entrypoint'):
        for k in sorted(doc['entrypoint']['execute'][0].get('args') or {}):
            d = clone()
            d['entrypoint']['execute'][0]['args'][k] = '%(zz)s'
            yield 'unknown-parameter-reference', ['entrypoint', k], d
    # 5..7, 11, 16 mutations of output references
    for site, e in _execs(doc):
        if site[0] == 'entrypoint':
            continue
        wi, ej = site
        target = e['target'][1:-1]
        for k in sorted(e.get('args') or {}):
            v = e['args'][k]
            if not isinstance(v, str):
                continue
            m = _REF.search(v)
            if m:
                segs = m.group(1).split('/')
                for new, kind in (('zz', 'non-sibling-unknown'), (target, 'non-sibling-self')):
                    d = clone()
                    d['workflows'][wi]['execute'][ej]['args'][k] = v[:m.start(1)] + '/'.join([new] + segs[1:]) + v[m.end(1):]
                    yield kind, [wi, ej, k], d
                # a step that exists, but one level up (not a sibling)
                for pi, pw in enumerate(doc['workflows']):
                    if doc['workflows'][wi]['signature']['name'] in pw['steps'].values():
                        for other in sorted(pw['steps']):
                            if other not in doc['workflows'][wi]['steps']:
                                d = clone()
                                d['workflows'][wi]['execute'][ej]['args'][k] = \
                                    v[:m.start(1)] + '/'.join([other] + segs[1:]) + v[m.end(1):]
                                yield 'non-sibling-uncle', [wi, ej, k, other], d
                                break
                        break
                # method inside the brackets
                d = clone()
                mm = _METHOD.search(v)
                method = mm.group(1) if mm else 'ref'
                if mm and mm.start() == m.end():
                    nv = v[:m.end(1)] + ':' + method + '>' + v[mm.end():]
                else:
                    nv = v[:m.end(1)] + ':' + method + v[m.end(1):]
                d['workflows'][wi]['execute'][ej]['args'][k] = nv
                yield 'method-inside-brackets', [wi, ej, k], d
            if heavy and (m or _PARAM.search(v)):
                # rename / drop one '/segment' at a time (a step of a nested workflow, or a path element)
                for sm in re.finditer(r'/([A-Za-z0-9_.-]+)', v):
                    d = clone()
                    d['workflows'][wi]['execute'][ej]['args'][k] = v[:sm.start(1)] + 'zz' + v[sm.end(1):]
                    yield 'rename-segment', [wi, ej, k, sm.start()], d
                    d = clone()
                    d['workflows'][wi]['execute'][ej]['args'][k] = v[:sm.start()] + v[sm.end():]
                    yield 'drop-segment', [wi, ej, k, sm.start()], d
            mm = _METHOD.search(v)
            if mm:
                d = clone()
                d['workflows'][wi]['execute'][ej]['args'][k] = v[:mm.start()] + v[mm.end():]
                yield 'remove-method', [wi, ej, k], d
    for i, c in enumerate(doc.get('components') or []):
        a = c['command'].get('arguments')
        mm = _METHOD.search(a) if isinstance(a, str) else None
        if mm:
            d = clone()
            d['components'][i]['command']['arguments'] = a[:mm.start()] + a[mm.end():]
            yield 'remove-method', ['components', i], d
    # 8 unknown template
    for i, w in enumerate(doc.get('workflows') or []):
        for s in sorted(w['steps']):
            d = clone()
            d['workflows'][i]['steps'][s] = 'nope'
            yield 'unknown-template', [i, s], d
    # 9 duplicate template names
    for kind, i, t in _templates(doc):
        d = clone()
        d[kind].append(copy.deepcopy(t))
        yield 'duplicate-template', [kind, i], d
    for i, w in enumerate(doc.get('workflows') or []):
        d = clone()
        d['components'].append(comp('X', [], 'none'))
        d['components'][-1]['signature']['name'] = w['signature']['name']
        yield 'duplicate-template-across-kinds', [i], d
    # 10 template recursion (direct and through the entry workflow)
    for i, w in enumerate(doc.get('workflows') or []):
        for j, anc in enumerate(doc['workflows']):
            if j > i:
                continue
            if j != i and j != 0:
                continue
            d = clone()
            d['workflows'][i]['steps']['cyc'] = anc['signature']['name']
            args = dict((p['name'], 'v') for p in anc['signature'].get('parameters') or [] if 'default' not in p)
            d['workflows'][i]['execute'].append({'target': '<cyc>', 'args': args})
            yield 'template-recursion', [i, j], d
    # 12 steps and execute entries that do not match
    for i, w in enumerate(doc.get('workflows') or []):
        for j, e in enumerate(w['execute']):
            d = clone()
            del d['workflows'][i]['execute'][j]
            yield 'step-without-execute', [i, j], d
            d = clone()
            d['workflows'][i]['execute'].append(copy.deepcopy(e))
            yield 'duplicate-execute', [i, j], d
            d = clone()
            del d['workflows'][i]['steps'][e['target'][1:-1]]
            yield 'execute-without-step', [i, j], d
    # 14 entrypoint
    if doc.get('entrypoint'):
        d = clone()
        del d['entrypoint']
        yield 'missing-entrypoint', [], d
        d = clone()
        d['entrypoint']['entry-instance'] = 'nope'
        yield 'unknown-entry-template', [], d
    # 15 duplicate parameter
    for kind, i, t in _templates(doc):
        ps = t['signature'].get('parameters') or []
        if ps:
            d = clone()
            d[kind][i]['signature']['parameters'].append(copy.deepcopy(ps[0]))
            yield 'duplicate-parameter', [kind, i], d


def canon(doc):
    return json.dumps(doc, sort_keys=True)


def base_items(thorough):
    for fam in (family_multi, family_cycles, family_every_field, family_entry_override, family_variables, family_environments,
                family_prefix_names, family_literals,
                family_references, family_names):
        for it in fam(thorough):
            yield it
