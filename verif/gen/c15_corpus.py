"""C15 corpus: the packages, variable files and load tasks that the child processes load.

Nothing here imports `experiment` or judges anything. Documents are plain dicts / strings; `write_corpus` puts them on
disk below one directory (the same absolute paths are given to every child process, which is what makes the
iteration order of path-string sets comparable between children).
"""
import copy
import itertools
import os

import yaml

# ------------------------------------------------------------------------------------------------ FlowIR package
FLOWIR_RICH = {
    'platforms': ['default', 'p1', 'p2'],
    'variables': {
        'default': {'global': {'g1': 'G1', 'g2': 'G2', 'g3': 'G3', 'c3': '%(c2)s/l3', 'c2': '%(c1)s/l2', 'c1': 'root'},
                    'stages': {0: {'s': 'S0'}, 1: {'s': 'S1'}}},
        'p1': {'global': {'g1': 'P1G1'}, 'stages': {1: {'s': 'P1S1'}}},
        'p2': {'global': {'g2': 'P2G2', 'g3': 'P2G3'}},
    },
    'environments': {
        'default': {'enva': {'X': 'x', 'Y': '$X:y', 'Z': '%(g3)s'},
                    'envb': {'B': 'b'},
                    'envc': {'PLUGINS': '${LIBDIR}/plugins', 'LIBDIR': '$PREFIX/lib', 'PREFIX': '/opt/c15'},
                    'environment': {'D': 'd', 'DEFAULTS': 'PATH:HOME'}},
        'p1': {'enva': {'X': 'p1x'}},
    },
    'blueprint': {
        'default': {'global': {'command': {'environment': 'envb'},
                               'resourceManager': {'config': {'walltime': 30.0}}}},
        'p1': {'stages': {1: {'command': {'environment': 'enva'}}}},
    },
    'components': [
        {'name': 'A', 'stage': 0,
         'command': {'executable': 'echo', 'arguments': '%(g1)s %(s)s %(replica)s', 'environment': 'enva'},
         'workflowAttributes': {'replicate': 2}},
        {'name': 'AA', 'stage': 0,
         'command': {'executable': 'echo', 'arguments': 'A:ref data/d.txt:ref e.txt %(g2)s %(own)s'},
         'references': ['A:ref', 'data/d.txt:ref', 'data/e.txt:copy'],
         'variables': {'own': 'o', 'g3': 'shadow'}},
        {'name': 'B', 'stage': 0,
         'command': {'executable': 'bin/tool.sh', 'arguments': 'AA:ref A:ref input/in.txt:ref',
                     'environment': 'none'},
         'references': ['AA:ref', 'A:ref', 'input/in.txt:ref'],
         'resourceManager': {'config': {'backend': 'local'}}},
        {'name': 'C', 'stage': 1,
         'command': {'executable': 'echo', 'arguments': 'stage0.B:ref stage0.AA:ref %(s)s'},
         'references': ['stage0.B:ref', 'stage0.AA:ref'],
         'workflowAttributes': {'aggregate': True}},
        {'name': 'A', 'stage': 1,
         'command': {'executable': 'echo', 'arguments': 'C:ref stage0.B:ref data/d.txt:ref %(g1)s'},
         'references': ['C:ref', 'stage0.B:ref', 'data/d.txt:ref'],
         'override': {'p2': {'command': {'arguments': 'C:ref stage0.B:ref data/d.txt:ref P2 %(g2)s'}}}},
        {'name': 'F', 'stage': 1,
         'command': {'executable': 'echo', 'arguments': 'C:output stage0.AA/out.txt:ref %(c3)s', 'environment': 'envc'},
         'references': ['C:output', 'stage0.AA/out.txt:ref'],
         'workflowAttributes': {'aggregate': True}},
    ],
    'output': {'out1': {'data-in': 'stage1.C/out.stdout:copy', 'description': 'first'},
               'out2': {'data-in': 'stage0.B/b.txt:ref', 'description': 'second', 'type': 'csv'}},
    'status-report': {0: {'stage-weight': 0.25}, 1: {'stage-weight': 0.75}},
}

FLOWIR_RICH_FILES = {
    'data/d.txt': 'data d\n',
    'data/e.txt': 'data e\n',
    'bin/tool.sh': '#!/bin/sh\necho tool\n',
    'hooks/restart.py': 'def Restart(*a, **k):\n    return False\n',
    'hooks/extra.py': '# nothing\n',
}

# a small package that only exists to observe the layering of user variable files
FLOWIR_VARS = {
    'variables': {'default': {'global': {'v1': 'base1', 'v2': 'base2', 'v3': 'base3', 'v4': 'base4'},
                              'stages': {0: {'s1': 'sbase'}}}},
    'components': [
        {'name': 'A', 'stage': 0, 'command': {'executable': 'echo', 'arguments': '%(v1)s %(v2)s %(v3)s %(v4)s %(s1)s'}},
        {'name': 'B', 'stage': 1, 'command': {'executable': 'echo', 'arguments': 'stage0.A:ref %(v1)s %(v2)s'},
         'references': ['stage0.A:ref']},
    ],
}

# ------------------------------------------------------------------------------------------------ DSL 2.0 package
DSL_RICH = {
    'entrypoint': {
        'entry-instance': 'main',
        'execute': [{'target': '<entry-instance>', 'args': {'v1': 'base1', 'v2': 'base2'}}],
        'output': [{'name': 'o1', 'data-in': '<entry-instance/sub1/work>/out.stdout:ref'}],
    },
    'workflows': [
        {'signature': {'name': 'main', 'parameters': [{'name': 'v1', 'default': 'dflt1'},
                                                       {'name': 'v2', 'default': 'dflt2'},
                                                       {'name': 'v3', 'default': 'dflt3'}]},
         'steps': {'gen': 'producer', 'sub1': 'inner', 'sub2': 'inner', 'join': 'joiner'},
         'execute': [
             {'target': '<gen>', 'args': {'msg': '%(v1)s'}},
             {'target': '<sub1>', 'args': {'src': '<gen>', 'tag': '%(v2)s'}},
             {'target': '<sub2>', 'args': {'src': '<gen>', 'tag': '%(v3)s'}},
             {'target': '<join>', 'args': {'a': '<sub1/work>:ref', 'b': '<sub2/work>/out.txt:ref',
                                           'c': '<gen>/g.txt:copy', 'legacy': 'data/d.txt:ref'}},
         ]},
        {'signature': {'name': 'inner', 'parameters': [{'name': 'src'}, {'name': 'tag', 'default': 't'}]},
         'steps': {'work': 'worker'},
         'execute': [{'target': '<work>', 'args': {'input': '%(src)s:ref', 'tag': '%(tag)s'}}]},
    ],
    'components': [
        {'signature': {'name': 'producer', 'parameters': [{'name': 'msg'}]},
         'command': {'executable': 'echo', 'arguments': '%(msg)s', 'environment': {'PX': 'px', 'PY': 'py'}}},
        {'signature': {'name': 'worker', 'parameters': [{'name': 'input'}, {'name': 'tag'}]},
         'command': {'executable': 'echo', 'arguments': '%(input)s %(tag)s %(local)s',
                     'environment': {'W3': '${W2}/three', 'W2': '$W/two', 'W': '/w'}},
         'variables': {'local': '%(mid)s/loc', 'mid': '%(low)s/mid', 'low': 'low'}},
        {'signature': {'name': 'joiner', 'parameters': [{'name': 'a'}, {'name': 'b'}, {'name': 'c'},
                                                        {'name': 'legacy'}]},
         'command': {'executable': 'cat', 'arguments': '%(a)s %(b)s g.txt %(legacy)s',
                     'environment': {'PY': 'py', 'PX': 'px'}}},
    ],
}

DSL_FILES = {'data/d.txt': 'data d\n'}

# ------------------------------------------------------------------------------------------------ DOSINI package
# {relative path: [(section, [(option, value), ...]), ...]}; rendered with render_ini
DOSINI_RICH = {
    'conf/experiment.conf': [('ENV-ENVA', [('Z', '${Y}/z'), ('Y', '$X:y'), ('X', 'x')]), ('ENV-ENVIRONMENT', [('D', 'd')])],
    'conf/experiment.p1.conf': [('ENV-ENVA', [('X', 'p1x')])],
    'conf/experiment.p2.conf': [('ENV-ENVB', [('B', 'p2b')])],
    'conf/experiment.p3.conf': [],
    'conf/output.conf': [('out1', [('description', 'd'), ('type', 'csv'), ('data-in', 'stage1.C/out.stdout:copy')])],
    'conf/status.conf': [('STAGE0', [('stage-weight', '0.2')]), ('STAGE1', [('stage-weight', '0.3')]),
                         ('STAGE2', [('stage-weight', '0.5')])],
    'conf/variables.conf': [('GLOBAL', [('g1', 'G1'), ('g2', 'G2')]), ('STAGE0', [('s', 'S0')]),
                            ('STAGE1', [('s', 'S1')]), ('STAGE2', [('s', 'S2')])],
    'conf/variables.d/p1.conf': [('GLOBAL', [('g1', 'P1G1')]), ('STAGE1', [('s', 'P1S1')])],
    'conf/variables.d/p2.conf': [('GLOBAL', [('g2', 'P2G2')])],
    'conf/variables.d/p3.conf': [('GLOBAL', [('g1', 'P3G1'), ('g2', 'P3G2')])],
    'conf/stages.d/stage0.conf': [
        ('META', [('stage-name', 'first')]),
        ('A', [('executable', 'echo'), ('environment', 'enva'), ('arguments', '%(g1)s %(s)s'), ('replicate', '2')]),
        ('B', [('own', 'o'), ('references', 'A:ref data/d.txt:ref'), ('executable', 'echo'),
               ('arguments', 'A:ref data/d.txt:ref %(g2)s %(own)s')])],
    'conf/stages.d/stage1.conf': [
        ('C', [('references', 'stage0.B:ref'), ('executable', 'echo'), ('arguments', 'stage0.B:ref %(s)s'),
               ('job-type', 'local'), ('aggregate', 'true')])],
    'conf/stages.d/stage2.conf': [
        ('D', [('references', 'stage1.C:ref'), ('executable', 'echo'), ('arguments', 'stage1.C:ref %(s)s %(g1)s'),
               ('walltime', '10'), ('numberProcesses', '2')]),
        ('E', [('executable', 'echo'), ('arguments', '%(s)s'), ('k8s-image', 'kimg'), ('job-type', '%(jt)s'),
               ('jt', 'local')])],
}
DOSINI_RICH_FILES = {'data/d.txt': 'data d\n', 'hooks/restart.py': 'def Restart(*a, **k):\n    return False\n'}

# components with exactly three (thorough: also four) options that the DOSINI parser knows; every group of options
# that the parser folds into one shared FlowIR dictionary appears together at least once
DOSINI_SMALL = {
    'conf/experiment.conf': [('ENV-ENVA', [('Z', '${Y}/z'), ('Y', '$X/y'), ('X', '/x')])],
    'conf/variables.conf': [('GLOBAL', [('g1', '%(g2)s/1'), ('g2', '%(g3)s/2'), ('g3', 'G3')])],
    'conf/stages.d/stage0.conf': [
        ('A', [('executable', 'echo'), ('arguments', '%(g1)s'), ('environment', 'enva')]),
        ('B', [('executable', 'echo'), ('arguments', 'A:ref'), ('references', 'A:ref')]),
        ('C', [('executable', 'echo'), ('memoization-disable-strong', 'true'), ('memoization-disable-fuzzy', 'false')]),
        ('D', [('executable', 'echo'), ('job-type', 'local'), ('walltime', '12')]),
        ('E', [('executable', 'echo'), ('queue', 'q1'), ('statusRequestInterval', '30')]),
        ('F', [('executable', 'echo'), ('k8s-image', 'img'), ('k8s-grace-period', '5')]),
        ('G', [('executable', 'echo'), ('optimizerDisable', 'true'), ('optimizerExploitChance', '0.5')]),
        ('H', [('executable', 'echo'), ('rstage-in', 'all'), ('rstage-out', 'all')]),
        ('I', [('executable', 'echo'), ('repeat-interval', '5'), ('repeatRetries', '2')]),
        ('J', [('interpreter', 'bash'), ('arguments', 'echo hi'), ('numberProcesses', '2')]),
        ('K', [('executable', 'echo'), ('arguments', 'x')]),
    ],
}
DOSINI_SMALL4 = [
    ('L', [('executable', 'echo'), ('memoization-disable-strong', 'true'), ('memoization-disable-fuzzy', 'true'),
           ('memoization-embedding-function', 'return 1;')]),
    ('M', [('executable', 'echo'), ('arguments', 'A:ref %(g1)s'), ('references', 'A:ref'), ('job-type', 'local')]),
    ('N', [('executable', 'echo'), ('k8s-image', 'img'), ('k8s-namespace', 'ns'), ('k8s-host', 'http://h')]),
]

# the layering package in DOSINI form
DOSINI_VARS = {
    'conf/experiment.conf': [],
    'conf/variables.conf': [('GLOBAL', [('v1', 'base1'), ('v2', 'base2'), ('v3', 'base3'), ('v4', 'base4')]),
                            ('STAGE0', [('s1', 'sbase')])],
    'conf/stages.d/stage0.conf': [
        ('A', [('executable', 'echo'), ('arguments', '%(v1)s %(v2)s %(v3)s %(v4)s %(s1)s')])],
    'conf/stages.d/stage1.conf': [
        ('B', [('executable', 'echo'), ('arguments', 'stage0.A:ref %(v1)s %(v2)s'), ('references', 'stage0.A:ref')])],
}


def render_ini(sections):
    out = []
    for name, options in sections:
        out.append('[%s]' % name)
        out.extend('%s = %s' % (k, v) for k, v in options)
        out.append('')
    return '\n'.join(out) + ('\n' if out else '')


def ini_variants(files, max_keys):
    """[(label, files')]: per file every order of its sections, per section every order of its options (one at a time;
    more than max_keys entries: rotations and the reversal), and everything reversed at once."""
    def orders(n):
        idx = list(range(n))
        if n < 2:
            return []
        if n <= max_keys:
            return [list(p) for p in itertools.permutations(idx)][1:]
        return [idx[i:] + idx[:i] for i in range(1, n)] + [idx[::-1]]

    out = []
    for path in sorted(files):
        secs = files[path]
        for o in orders(len(secs)):
            f2 = dict(files)
            f2[path] = [secs[i] for i in o]
            out.append(('%s:sections:%s' % (path, ','.join(secs[i][0] for i in o)), f2))
        for si, (name, options) in enumerate(secs):
            for o in orders(len(options)):
                f2 = dict(files)
                f2[path] = list(secs)
                f2[path][si] = (name, [options[i] for i in o])
                out.append(('%s:[%s]:%s' % (path, name, ','.join(options[i][0] for i in o)), f2))
    out.append(('all-reversed', {p: [(n, list(reversed(o))) for n, o in reversed(secs)] for p, secs in files.items()}))
    return out


# ------------------------------------------------------------------------------------------------ more small packages
DSL_VARS = {
    'entrypoint': {'entry-instance': 'main', 'execute': [{'target': '<entry-instance>', 'args': {'v1': 'arg1'}}]},
    'workflows': [
        {'signature': {'name': 'main', 'parameters': [{'name': 'v1', 'default': 'd1'}, {'name': 'v2', 'default': 'd2'},
                                                       {'name': 'v3', 'default': 'd3'}, {'name': 'v4', 'default': 'd4'}]},
         'steps': {'a': 'echotwo', 'b': 'echotwo'},
         'execute': [{'target': '<a>', 'args': {'x': '%(v1)s', 'y': '%(v2)s'}},
                     {'target': '<b>', 'args': {'x': '%(v3)s', 'y': '%(v4)s'}}]}],
    'components': [{'signature': {'name': 'echotwo', 'parameters': [{'name': 'x'}, {'name': 'y'}]},
                    'command': {'executable': 'echo', 'arguments': '%(x)s %(y)s'}}],
}


def backends_doc(backends):
    extra = {'kubernetes': {'kubernetes': {'image': 'img:1'}}, 'lsf': {'lsf': {'queue': 'q'}},
             'docker': {'docker': {'image': 'img:2'}}}
    comps = []
    for i, b in enumerate(backends):
        rm = {'config': {'backend': b}}
        rm.update(extra.get(b, {}))
        comps.append({'name': 'c%s' % chr(ord('a') + i), 'command': {'executable': 'echo', 'arguments': b},
                      'resourceManager': rm})
    return {'components': comps}


def dsl_refs_doc(n_refs):
    """A consumer whose parameters / arguments carry n_refs distinct OutputReferences (some only via parameters,
    one spelled twice) plus one legacy reference."""
    producers = ['pa', 'pb', 'pc', 'pd'][:n_refs]
    steps = {p: 'producer' for p in producers}
    steps['use'] = 'consumer'
    params = [{'name': 'r%d' % i} for i in range(n_refs)] + [{'name': 'legacy'}]
    methods = ['ref', 'ref', 'copy', 'ref']
    files = ['', '/out.txt', '/c.txt', '/deep/x.txt']
    args = {}
    for i, p in enumerate(producers):
        args['r%d' % i] = '<%s>%s:%s' % (p, files[i], methods[i])
    args['legacy'] = 'data/d.txt:ref'
    argstr = ' '.join(('c.txt' if methods[i] == 'copy' else '%%(r%d)s' % i) for i in range(n_refs))
    argstr += ' %(legacy)s %(r0)s'
    return {
        'entrypoint': {'entry-instance': 'main', 'execute': [{'target': '<entry-instance>', 'args': {}}]},
        'workflows': [{'signature': {'name': 'main', 'parameters': []}, 'steps': steps,
                       'execute': [{'target': '<%s>' % p, 'args': {'msg': p}} for p in producers] +
                                  [{'target': '<use>', 'args': args}]}],
        'components': [
            {'signature': {'name': 'producer', 'parameters': [{'name': 'msg'}]},
             'command': {'executable': 'echo', 'arguments': '%(msg)s'}},
            {'signature': {'name': 'consumer', 'parameters': params},
             'command': {'executable': 'cat', 'arguments': argstr}}],
    }


# one workflow ("echo <format> <v1>") written in three formats, for directories that hold several of them
def multi_flowir_doc():
    return {'variables': {'default': {'global': {'v1': 'base1'}}},
            'components': [{'name': 'greet', 'stage': 0,
                            'command': {'executable': 'echo', 'arguments': 'from-flowir %(v1)s'}}]}


def multi_dsl_doc():
    return {
        'entrypoint': {'entry-instance': 'main', 'execute': [{'target': '<entry-instance>', 'args': {'v1': 'base1'}}]},
        'workflows': [{'signature': {'name': 'main', 'parameters': [{'name': 'v%d' % i, 'default': 'd%d' % i}
                                                                    for i in (1, 2, 3, 4)]},
                       'steps': {'greet': 'echo'},
                       'execute': [{'target': '<greet>', 'args': {'x': '%(v1)s'}}]}],
        'components': [{'signature': {'name': 'echo', 'parameters': [{'name': 'x'}]},
                        'command': {'executable': 'echo', 'arguments': 'from-dsl %(x)s'}}],
    }


MULTI_DOSINI = {
    'conf/experiment.conf': [],
    'conf/variables.conf': [('GLOBAL', [('v1', 'base1')])],
    'conf/stages.d/stage0.conf': [('greet', [('executable', 'echo'), ('arguments', 'from-dosini %(v1)s')])],
}


# components that name one producer twice (relative + absolute spelling, or a literal repeat) next to other references
def dup_refs_components(thorough):
    """[(name, stage, references)]; producers gen, other, third live in stage 0."""
    out = [
        ('ca', 0, ['gen:ref', 'stage0.gen:ref', 'data/d.txt:ref']),
        ('cb', 0, ['gen:ref', 'other:ref', 'gen:ref']),
        ('cc', 0, ['stage0.other:ref', 'gen:ref', 'data/d.txt:ref', 'other:ref']),
        ('cd', 1, ['stage0.gen:ref', 'stage0.other:ref', 'stage0.gen:ref', 'data/d.txt:copy']),
        ('ce', 1, ['stage0.gen/out.txt:ref', 'stage0.gen:ref', 'stage0.gen/out.txt:ref']),
    ]
    if thorough:
        out.append(('cf', 0, ['third:ref', 'gen:ref', 'data/d.txt:ref', 'stage0.gen:ref', 'other:ref']))
        out.append(('cg', 1, ['stage0.third:ref', 'stage0.other:ref', 'data/d.txt:ref', 'stage0.third:ref',
                              'stage0.gen:output']))
    return out


def dup_refs_flowir(thorough):
    comps = [{'name': n, 'stage': 0, 'command': {'executable': 'echo', 'arguments': n}} for n in ('gen', 'other', 'third')]
    for name, stage, refs in dup_refs_components(thorough):
        used = ' '.join(r for r in refs if not r.endswith(':copy'))
        comps.append({'name': name, 'stage': stage, 'command': {'executable': 'echo', 'arguments': used},
                      'references': list(refs)})
    return {'components': comps}


def dup_refs_dosini(thorough):
    stages = {0: [(n, [('executable', 'echo'), ('arguments', n)]) for n in ('gen', 'other', 'third')], 1: []}
    for name, stage, refs in dup_refs_components(thorough):
        used = ' '.join(r for r in refs if not r.endswith(':copy'))
        stages[stage].append((name, [('executable', 'echo'), ('arguments', used), ('references', ' '.join(refs))]))
    return {'conf/experiment.conf': [], 'conf/stages.d/stage0.conf': stages[0], 'conf/stages.d/stage1.conf': stages[1]}


def dup_refs_dsl(thorough):
    """DSL can only express it by mixing an OutputReference with the legacy spelling of the same producer."""
    consumers = [('ua', {'a': '<gen>:ref', 'b': 'gen:ref', 'c': '<other>:ref'}),
                 ('ub', {'a': 'stage0.other:ref', 'b': '<other>:ref', 'c': 'data/d.txt:ref'})]
    if thorough:
        consumers.append(('uc', {'a': '<gen>:ref', 'b': 'gen:ref', 'c': '<other>:ref', 'd': '<third>:ref'}))
    steps = {'gen': 'producer', 'other': 'producer', 'third': 'producer'}
    execute = [{'target': '<%s>' % p, 'args': {'msg': p}} for p in ('gen', 'other', 'third')]
    comps = [{'signature': {'name': 'producer', 'parameters': [{'name': 'msg'}]},
              'command': {'executable': 'echo', 'arguments': '%(msg)s'}}]
    for name, args in consumers:
        steps[name] = 'consume-' + name
        execute.append({'target': '<%s>' % name, 'args': args})
        comps.append({'signature': {'name': 'consume-' + name, 'parameters': [{'name': k} for k in args]},
                      'command': {'executable': 'cat', 'arguments': ' '.join('%%(%s)s' % k for k in args)}})
    return {'entrypoint': {'entry-instance': 'main', 'execute': [{'target': '<entry-instance>', 'args': {}}]},
            'workflows': [{'signature': {'name': 'main', 'parameters': []}, 'steps': steps, 'execute': execute}],
            'components': comps}


# packages that must be rejected (two independent problems each): the outcome must not depend on the process either
FLOWIR_BROKEN = {
    'components': [
        {'name': 'A', 'command': {'executable': 'echo', 'arguments': '%(nosuch)s'}},
        {'name': 'B', 'command': {'executable': 'echo', 'arguments': 'Z:ref'}, 'references': ['Z:ref']},
    ],
}

# ------------------------------------------------------------------------------------------------ variable files
# name -> (format, layered content as the FlowIR variables dictionary {'global': {...}, 'stages': {i: {...}}})
VARIABLE_FILES = {
    'one.yaml': {'global': {'v1': 'one', 'v2': 'one'}, 'stages': {0: {'s1': 'one'}}},
    'two.yaml': {'global': {'v1': 'two', 'v3': 'two'}},
    'three.conf': {'global': {'v1': 'three', 'v2': 'three'}, 'stages': {0: {'s1': 'three'}}},
    'four.yml': {'global': {'v1': 'four', 'v4': 'four'}, 'stages': {0: {'s1': 'four'}}},
}


def variable_file_text(name, content):
    if name.endswith('.conf'):
        lines = []
        if 'global' in content:
            lines.append('[GLOBAL]')
            lines.extend('%s = %s' % kv for kv in content['global'].items())
            lines.append('')
        for idx, vs in content.get('stages', {}).items():
            lines.append('[STAGE%d]' % idx)
            lines.extend('%s = %s' % kv for kv in vs.items())
            lines.append('')
        return '\n'.join(lines) + '\n'
    return yaml.safe_dump(content, sort_keys=False)


# ------------------------------------------------------------------------------------------------ key orders
def mapping_paths(doc, path=()):
    """Paths of all mappings inside doc (lists are traversed, their order is never changed)."""
    if isinstance(doc, dict):
        yield path
        for k, v in doc.items():
            for p in mapping_paths(v, path + (k,)):
                yield p
    elif isinstance(doc, list):
        for i, v in enumerate(doc):
            for p in mapping_paths(v, path + (i,)):
                yield p


def get_at(doc, path):
    for p in path:
        doc = doc[p]
    return doc


def reorder_at(doc, path, order):
    """Deep copy of doc in which the mapping at `path` lists its keys in `order`."""
    doc = copy.deepcopy(doc)
    if not path:
        return {k: doc[k] for k in order}
    parent = get_at(doc, path[:-1])
    m = parent[path[-1]]
    parent[path[-1]] = {k: m[k] for k in order}
    return doc


def reverse_all(doc):
    if isinstance(doc, dict):
        return {k: reverse_all(doc[k]) for k in reversed(list(doc))}
    if isinstance(doc, list):
        return [reverse_all(v) for v in doc]
    return doc


def key_order_variants(doc, max_keys):
    """[(label, doc')]: for every mapping with 2..max_keys keys every non-identity permutation of its keys (one mapping
    at a time), for larger mappings the reversed order and every rotation; finally all mappings reversed at once."""
    out = []
    for path in mapping_paths(doc):
        keys = list(get_at(doc, path))
        if len(keys) < 2:
            continue
        if len(keys) <= max_keys:
            orders = [list(p) for p in itertools.permutations(keys)][1:]
        else:
            orders = [keys[i:] + keys[:i] for i in range(1, len(keys))] + [list(reversed(keys))]
        for o in orders:
            out.append(('%s:%s' % ('/'.join(map(str, path)) or '.', ','.join(map(str, o))), reorder_at(doc, path, o)))
    out.append(('all-reversed', reverse_all(doc)))
    return out


# ------------------------------------------------------------------------------------------------ writing
def write_tree(root, files):
    for rel, content in files.items():
        p = os.path.join(root, rel)
        os.makedirs(os.path.dirname(p), exist_ok=True)
        with open(p, 'w') as f:
            f.write(content)
        if rel.startswith('bin/'):
            os.chmod(p, 0o755)


def write_yaml_package(root, name, doc, files, main='flowir_package.yaml'):
    p = os.path.join(root, '%s.package' % name)
    os.makedirs(os.path.join(p, 'conf'))
    with open(os.path.join(p, 'conf', main), 'w') as f:
        yaml.safe_dump(doc, f, sort_keys=False)
    write_tree(p, files)
    return p


def write_ini_package(root, name, files, extra_files=None):
    p = os.path.join(root, '%s.package' % name)
    write_tree(p, {rel: render_ini(secs) for rel, secs in files.items()})
    write_tree(p, extra_files or {})
    return p


# ------------------------------------------------------------------------------------------------ the corpus
def build(root, thorough):
    """Writes every package / variable file below `root` and returns the list of load tasks.

    A task: {'id', 'family', 'group', 'mode', 'package', 'platform', 'variable_files', 'listing', 'inputs',
             'sweep' (run under every sweep seed), 'small' (also run under the seeds planned for set coverage),
             'seed0' (input-order task: run under the reference seed only), 'descr'}.
    Tasks of one group must produce identical dumps; the member with id == group is the reference."""
    max_keys = 4 if thorough else 3
    pk = os.path.join(root, 'pk')
    vfd = os.path.join(root, 'vf')
    os.makedirs(pk)
    os.makedirs(vfd)
    tasks = []
    in_txt = os.path.join(root, 'in.txt')
    with open(in_txt, 'w') as f:
        f.write('input\n')

    def add(tid, family, group, mode, package, platform=None, vf=None, listing=None, inputs=None, sweep=False,
            small=False, seed0=False, descr=None, names=None, kind=None, preload=False):
        tasks.append({'preload': preload, 'id': tid, 'family': family, 'group': group, 'mode': mode, 'package': package,
                      'platform': platform, 'variable_files': vf, 'listing': listing, 'inputs': inputs,
                      'sweep': sweep, 'small': small, 'seed0': seed0, 'descr': descr or {}, 'names': names,
                      'kind': kind})

    # ---- base packages
    p_rich = write_yaml_package(pk, 'rich', FLOWIR_RICH, FLOWIR_RICH_FILES)
    p_vars = write_yaml_package(pk, 'vars', FLOWIR_VARS, {})
    p_dsl = write_yaml_package(pk, 'dsl', DSL_RICH, DSL_FILES, main='dsl.yaml')
    p_dslvars = write_yaml_package(pk, 'dslvars', DSL_VARS, {}, main='dsl.yaml')
    p_dos = write_ini_package(pk, 'dos', DOSINI_RICH, DOSINI_RICH_FILES)
    small = {k: list(v) for k, v in DOSINI_SMALL.items()}
    if thorough:
        small['conf/stages.d/stage0.conf'] = small['conf/stages.d/stage0.conf'] + DOSINI_SMALL4
    p_dossmall = write_ini_package(pk, 'dossmall', small)
    p_dosvars = write_ini_package(pk, 'dosvars', DOSINI_VARS)
    p_broken = write_yaml_package(pk, 'broken', FLOWIR_BROKEN, {})
    rich_in = [in_txt]

    # ---- family hash: the same load in processes with different hash seeds
    base = []           # (task id, mode, package, platform, inputs, small)
    for plat in (None, 'p1', 'p2'):
        base.append(('hash/rich/exp/%s' % plat, 'exp', p_rich, plat, rich_in, False))
    base.append(('hash/rich/conf/None', 'conf', p_rich, None, None, False))
    base.append(('hash/rich/graph/p1', 'graph', p_rich, 'p1', None, False))
    base.append(('hash/dsl/exp/None', 'exp', p_dsl, None, None, True))
    base.append(('hash/dsl/conf/None', 'conf', p_dsl, None, None, False))
    for plat in (None, 'p1', 'p3'):
        base.append(('hash/dos/exp/%s' % plat, 'exp', p_dos, plat, None, False))
    base.append(('hash/dos/conf/p2', 'conf', p_dos, 'p2', None, False))
    base.append(('hash/dossmall/exp/None', 'exp', p_dossmall, None, None, True))
    base.append(('hash/dossmall/conf/None', 'conf', p_dossmall, None, None, True))
    base.append(('hash/broken/conf/None', 'conf', p_broken, None, None, True))
    base.append(('hash/vars/exp/None', 'exp', p_vars, None, None, True))
    bsets = [('local', 'simulator'), ('lsf', 'kubernetes'), ('local', 'simulator', 'lsf'),
             ('kubernetes', 'docker', 'local')]
    if thorough:
        bsets += [('local', 'simulator', 'lsf', 'kubernetes'), ('docker', 'lsf', 'simulator', 'kubernetes')]
    for bs in bsets:
        p = write_yaml_package(pk, 'backends-%s' % '-'.join(bs), backends_doc(bs), {})
        base.append(('hash/backends-%s/conf/None' % '-'.join(bs), 'conf', p, None, None, True))
    for n in (2, 3) + ((4,) if thorough else ()):
        p = write_yaml_package(pk, 'dslrefs%d' % n, dsl_refs_doc(n), DSL_FILES, main='dsl.yaml')
        base.append(('hash/dslrefs%d/conf/None' % n, 'conf', p, None, None, True))
        base.append(('hash/dslrefs%d/exp/None' % n, 'exp', p, None, None, True))
    for tid, mode, package, plat, inputs, is_small in base:
        add(tid, 'hash', tid, mode, package, plat, inputs=inputs, sweep=True, small=is_small,
            descr={'package': os.path.basename(package), 'mode': mode, 'platform': plat})

    # ---- components whose reference list names one producer twice, in every document kind that can express it
    p = write_yaml_package(pk, 'duprefs', dup_refs_flowir(thorough), DSL_FILES)
    pd = write_ini_package(pk, 'dosduprefs', dup_refs_dosini(thorough), DSL_FILES)
    ps = write_yaml_package(pk, 'dslduprefs', dup_refs_dsl(thorough), DSL_FILES, main='dsl.yaml')
    # (validateExperiment of the exp entry point rejects a reference that is declared twice as "not used": conf / graph)
    for name, package in (('duprefs', p), ('dosduprefs', pd), ('dslduprefs', ps)):
        for mode in ('conf', 'graph'):
            tid = 'hash/%s/%s/None' % (name, mode)
            add(tid, 'hash', tid, mode, package, sweep=True, small=True,
                descr={'package': os.path.basename(package), 'mode': mode})

    # ---- package directories that are readable in more than one format (every combination of the formats the factory
    #      knows that can be written by hand: dosini, dsl, flowir; cwl needs cwltool documents and is left out). The
    #      representations differ observably (each echoes its own format name), so which one is loaded shows in the dump.
    for fmts in (('dosini', 'flowir'), ('dsl', 'flowir'), ('dosini', 'dsl'), ('dosini', 'dsl', 'flowir')):
        name = 'multi-%s' % '-'.join(fmts)
        p = os.path.join(pk, '%s.package' % name)
        files = {}
        if 'flowir' in fmts:
            files['conf/flowir_package.yaml'] = yaml.safe_dump(multi_flowir_doc(), sort_keys=False)
        if 'dsl' in fmts:
            files['conf/dsl.yaml'] = yaml.safe_dump(multi_dsl_doc(), sort_keys=False)
        if 'dosini' in fmts:
            files.update({rel: render_ini(secs) for rel, secs in MULTI_DOSINI.items()})
        write_tree(p, files)
        for mode, vf_names in (('conf', None), ('graph', None), ('exp', None), ('conf', ['one.yaml'])):
            tid = 'hash/%s/%s/%s' % (name, mode, '+'.join(vf_names) if vf_names else 'None')
            add(tid, 'hash', tid, mode, p, vf=[os.path.join(vfd, n) for n in vf_names] if vf_names else None,
                sweep=True, small=True,
                descr={'package': os.path.basename(p), 'mode': mode, 'formats': list(fmts), 'variable_files': vf_names})
    # the same class as it arises in practice: a non-FlowIR package after a first load that stored its FlowIR translation
    for name, package in (('dslvars', p_dslvars), ('dosvars', p_dosvars), ('dsl', p_dsl)):
        for mode, vf_names in (('conf', None), ('conf', ['one.yaml']), ('graph', ['two.yaml'])):
            tid = 'hash/preloaded-%s/%s/%s' % (name, mode, '+'.join(vf_names) if vf_names else 'None')
            add(tid, 'hash', tid, mode, package, vf=[os.path.join(vfd, n) for n in vf_names] if vf_names else None,
                sweep=True, small=True, preload=True,
                descr={'package': os.path.basename(package), 'mode': mode, 'preloaded': True, 'variable_files': vf_names})

    # ---- family varfiles: every ordered selection of 2..3 (thorough: ..4) of the variable files
    pool = ['one.yaml', 'two.yaml', 'three.conf'] + (['four.yml'] if thorough else [])
    for n in pool:
        with open(os.path.join(vfd, n), 'w') as f:
            f.write(variable_file_text(n, VARIABLE_FILES[n]))
    lists = [[n] for n in pool]
    for k in (2, 3) + ((4,) if thorough else ()):
        lists.extend(list(p) for p in itertools.permutations(pool, k))
    kinds = [('flowir', p_vars, ('conf', 'graph', 'exp')), ('dsl', p_dslvars, ('conf', 'exp')),
             ('dosini', p_dosvars, ('conf', 'graph'))]
    for names in lists:
        for kind, package, modes in kinds:
            for mode in modes:
                if len(names) == 4 and mode == 'exp':
                    continue
                tid = 'varfiles/%s/%s/%s' % (kind, mode, '+'.join(names))
                # exp aggregates the files itself before the configuration object sees them: reference process only
                add(tid, 'varfiles', tid, mode, package, vf=[os.path.join(vfd, n) for n in names],
                    sweep=(mode != 'exp' or len(names) == 1), small=(mode != 'exp'), seed0=(mode == 'exp'),
                    names=list(names), kind=kind,
                    descr={'package': os.path.basename(package), 'mode': mode, 'variable_files': list(names)})

    # ---- family listing: the same load with every permutation of what the file system lists
    nlist = 24
    for gid, mode, package, plat, inputs in (('hash/rich/exp/None', 'exp', p_rich, None, rich_in),
                                             ('hash/dos/exp/None', 'exp', p_dos, None, None),
                                             ('hash/dos/conf/p2', 'conf', p_dos, 'p2', None),
                                             ('hash/dsl/exp/None', 'exp', p_dsl, None, None)):
        for k in range(nlist):
            add('listing/%s/%d' % (gid[5:], k), 'listing', gid, mode, package, plat, listing=k, inputs=inputs,
                seed0=True, descr={'package': os.path.basename(package), 'mode': mode, 'platform': plat, 'listing': k})

    # ---- family keyorder: equal documents that spell their mappings in another order
    ko = [('rich', FLOWIR_RICH, FLOWIR_RICH_FILES, 'flowir_package.yaml', 'hash/rich/exp/None', 'exp', rich_in),
          ('dsl', DSL_RICH, DSL_FILES, 'dsl.yaml', 'hash/dsl/exp/None', 'exp', None),
          ('vars', FLOWIR_VARS, {}, 'flowir_package.yaml', 'hash/vars/exp/None', 'exp', None)]
    for name, doc, files, main, gid, mode, inputs in ko:
        for i, (label, d2) in enumerate(key_order_variants(doc, max_keys)):
            p = write_yaml_package(os.path.join(pk, 'ko-%s-%03d' % (name, i)), name, d2, files, main=main)
            add('keyorder/%s/%03d' % (name, i), 'keyorder', gid, mode, p, inputs=inputs, seed0=True,
                descr={'package': name, 'mode': mode, 'reordered': label})
    for name, files, extra, gid, mode, plat in (('dos', DOSINI_RICH, DOSINI_RICH_FILES, 'hash/dos/exp/None', 'exp', None),
                                                ('dossmall', small, None, 'hash/dossmall/conf/None', 'conf', None)):
        for i, (label, f2) in enumerate(ini_variants(files, max_keys)):
            p = write_ini_package(os.path.join(pk, 'ko-%s-%03d' % (name, i)), name, f2, extra)
            add('keyorder/%s/%03d' % (name, i), 'keyorder', gid, mode, p, plat, seed0=True,
                descr={'package': name, 'mode': mode, 'reordered': label})
    # variable files with reordered mappings / sections (one file given: no layering involved)
    for n in pool:
        gid = 'varfiles/flowir/conf/%s' % n
        if n.endswith('.conf'):
            c = VARIABLE_FILES[n]
            secs = [('GLOBAL', list(c['global'].items()))] + [('STAGE%d' % i, list(v.items()))
                                                               for i, v in c.get('stages', {}).items()]
            variants = [(label, render_ini(f2['x'])) for label, f2 in ini_variants({'x': secs}, max_keys)]
        else:
            variants = [(label, yaml.safe_dump(d2, sort_keys=False))
                        for label, d2 in key_order_variants(VARIABLE_FILES[n], max_keys)]
        for i, (label, text) in enumerate(variants):
            stem, ext = os.path.splitext(n)
            path = os.path.join(vfd, '%s-ko%02d%s' % (stem, i, ext))
            with open(path, 'w') as f:
                f.write(text)
            add('keyorder/varfile-%s/%02d' % (n, i), 'keyorder', gid, 'conf', p_vars, vf=[path], seed0=True,
                descr={'package': 'vars', 'mode': 'conf', 'variable_file': n, 'reordered': label})
    ids = [t['id'] for t in tasks]
    assert len(ids) == len(set(ids)), 'duplicate task ids'
    known = set(ids)
    for t in tasks:
        assert t['group'] in known, t['group']
    return tasks


# what the components of the layering packages must show: kind -> (values without user files, component -> (arguments
# template, stage))
VARS_EXPECT = {
    'flowir': ({'v1': 'base1', 'v2': 'base2', 'v3': 'base3', 'v4': 'base4', 's1': 'sbase'},
               {'stage0.A': ('%(v1)s %(v2)s %(v3)s %(v4)s %(s1)s', 0), 'stage1.B': ('stage0.A:ref %(v1)s %(v2)s', 1)}),
    'dosini': ({'v1': 'base1', 'v2': 'base2', 'v3': 'base3', 'v4': 'base4', 's1': 'sbase'},
               {'stage0.A': ('%(v1)s %(v2)s %(v3)s %(v4)s %(s1)s', 0), 'stage1.B': ('stage0.A:ref %(v1)s %(v2)s', 1)}),
    'dsl': ({'v1': 'arg1', 'v2': 'd2', 'v3': 'd3', 'v4': 'd4'},
            {'stage0.a': ('%(v1)s %(v2)s', 0), 'stage0.b': ('%(v3)s %(v4)s', 0)}),
}

PROBE_SOURCE = r'''
import json, sys
recipes = json.load(open(sys.argv[1]))
out = []
for r in recipes:
    op = r['op']
    if op == 'set':
        o = list(set(r['a']))
    elif op == 'intersection':
        o = list(set(r['a']).intersection(r['b']))
    elif op == 'union':
        a = set()
        for x in r['a']:
            a.add(x)
        b = set()
        for x in r['b']:
            b.add(x)
        o = list(a.union(b))
    elif op == 'project':
        o = [x for x in {y for y in r['a']} if x in r['keep']]
    else:
        raise SystemExit('unknown op')
    out.append(o)
sys.stdout.write(json.dumps(out))
'''
