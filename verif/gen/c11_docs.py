"""C11 generator: well-formed base workflows and EVERY position of each single-fault mutation.

A *base* is {'id', 'root': {'doc': FlowIR dict, 'dowhile': DoWhile document|None}, 'platforms': [None|'name', ...],
'nonc': [folder names that are not components], 'files': {relative path: content}}.
A *mutation* is a small JSON-able descriptor; `apply(root, mut)` returns the mutated copy. The positions come from the
reference model's walk of the document against the schema table (verif.oracles.c11_validity), never from the code.
"""
import copy

from verif.oracles import c11_validity as V

WRONG = 'c11w'


# ------------------------------------------------------------------------------------------------ building blocks
def comp(name, stage=0, refs=(), args='', exe='echo', quiet_refs=(), **sections):
    """refs are declared and spelled in the command line; quiet_refs are declared only (e.g. :copyout)."""
    c = {'name': name, 'stage': stage,
         'command': {'executable': exe, 'arguments': ' '.join([x for x in [args] + list(refs) if x])}}
    if refs or quiet_refs:
        c['references'] = list(refs) + list(quiet_refs)
    for k, v in sections.items():
        if k == 'command':
            c['command'].update(v)
        else:
            c[k] = v
    return c


def full_options():
    """Every option of the component schema, with an explicitly valid value."""
    return {
        'workflowAttributes': {
            'restartHookFile': 'restart.py', 'aggregate': False, 'replicate': None, 'isMigratable': False,
            'isMigrated': False, 'repeatInterval': None, 'shutdownOn': ['KnownIssue'],
            'restartHookOn': ['ResourceExhausted'], 'isRepeat': False, 'maxRestarts': 2, 'repeatRetries': 1,
            'memoization': {'embeddingFunction': None, 'disable': {'strong': False, 'fuzzy': True}},
            'optimizer': {'disable': True, 'exploitChance': 0.5, 'exploitTarget': 0.6, 'exploitTargetLow': 0.2,
                          'exploitTargetHigh': 0.4}},
        'resourceManager': {
            'config': {'backend': 'local', 'walltime': 30.0},
            'lsf': {'statusRequestInterval': 10, 'queue': 'normal', 'reservation': None, 'resourceString': 'rusage',
                    'dockerImage': None, 'dockerProfileApp': None, 'dockerOptions': None},
            'kubernetes': {'image': 'img:latest', 'qos': 'guaranteed', 'image-pull-secret': 'sec',
                           'namespace': 'default', 'api-key-var': None, 'host': 'http://localhost:8080',
                           'cpuUnitsPerCore': 1.0, 'gracePeriod': 5, 'podSpec': None},
            'docker': {'image': 'img', 'imagePullPolicy': 'Always', 'platform': None}},
        'resourceRequest': {'numberProcesses': 1, 'numberThreads': 2, 'ranksPerNode': 1, 'threadsPerCore': 1,
                            'memory': '1Gi', 'gpus': None},
        'executors': {'pre': [{'name': 'lsf-dm-in', 'payload': 'in'}], 'main': [],
                      'post': [{'name': 'lsf-dm-out', 'payload': 'out'}]},
        'command': {'resolvePath': True, 'executable': 'echo', 'arguments': 'hello', 'environment': None,
                    'interpreter': None, 'expandArguments': 'double-quote'},
    }


def _b(bid, doc, platforms=(None,), dowhile=None, nonc=(), files=None, shape_only=False, uservars=None):
    """shape_only: the base is there for its references / identifiers / variables; its option keys are the ones
    every other base has, so the key and type families are enumerated for it in the thorough tier only."""
    root = {'doc': doc, 'dowhile': dowhile}
    if uservars is not None:
        root['uservars'] = uservars     # loaded with variable_files=[...]; only the factory entry point takes them
    return {'id': bid, 'root': root, 'platforms': list(platforms), 'nonc': list(nonc),
            'files': dict(files or {}), 'shape_only': shape_only}


def bases():
    out = []
    # -- shapes
    out.append(_b('b01-single', {'components': [comp('A')]}))
    out.append(_b('b02-chain2', {'components': [comp('A'), comp('B', 0, ['A:ref'])]}))
    out.append(_b('b03-chain3-2stages', {'components': [
        comp('A'), comp('B', 0, ['A:ref']), comp('C', 1, ['stage0.B:output'])]}))
    out.append(_b('b04-diamond', {'components': [
        comp('A'), comp('B', 0, ['A:ref']), comp('C', 0, ['A/out.txt:copy']),
        comp('D', 1, ['stage0.B:ref', 'stage0.C:output'])]}))
    out.append(_b('b05-colliding-names', {'components': [
        comp('A'), comp('AA', 0, ['A:ref']), comp('BA', 0, ['AA:ref']), comp('AB', 0, ['A:ref', 'BA:output'])]}))
    out.append(_b('b06-dash-names', {'components': [
        comp('A-B'), comp('x', 0, ['A-B:ref']), comp('A', 1, ['stage0.x:ref', 'stage0.A-B/f:copy'])]}))
    out.append(_b('b07-same-name-two-stages', {'components': [
        comp('A'), comp('A', 1, ['stage0.A:ref']), comp('B', 1, ['A:ref']), comp('B', 0, ['A:output'])]}))
    out.append(_b('b08-wide-leaves', {'components': [
        comp('A'), comp('B'), comp('C', 1, ['stage0.A:ref']), comp('D', 1, ['stage0.A:ref', 'stage0.B:ref']),
        comp('E', 2, ['stage1.D:ref'])]}))
    # -- variables
    out.append(_b('b09-global-variables', {
        'variables': {'default': {'global': {'msg': 'hi', 'exe': 'echo', 'unused': 'u'}}},
        'components': [comp('A', args='%(msg)s', exe='%(exe)s'), comp('B', 0, ['A:ref'], args='%(msg)s')]}))
    out.append(_b('b10-stage-variables', {
        'variables': {'default': {'global': {'g': 1}, 'stages': {0: {'x': 'zero'}, 1: {'x': 'one', 'y': 2}}}},
        'components': [comp('A', args='%(x)s %(g)s'), comp('B', 1, ['stage0.A:ref'], args='%(x)s %(y)s')]}))
    out.append(_b('b11-component-and-indirect-variables', {
        'variables': {'default': {'global': {'b': 'deep', 'c': '%(b)s'}}},
        'components': [comp('A', args='%(a)s', variables={'a': '%(c)s'}),
                       comp('B', 0, ['A:ref'], args='%(n)s', variables={'n': 3},
                            workflowAttributes={'maxRestarts': '%(n)s'})]}))
    plat_doc = {
        'platforms': ['default', 'plat'],
        'variables': {'default': {'global': {'v': 1, 'both': 'd'}, 'stages': {0: {'s': 'ds'}}},
                      'plat': {'global': {'both': 'p', 'w': 2}, 'stages': {0: {'s': 'ps'}}}},
        'components': [comp('A', args='%(v)s %(both)s %(s)s', override={'plat': {
            'command': {'arguments': '%(v)s %(both)s %(w)s %(ov)s'}, 'variables': {'ov': 'o'}}}),
            comp('B', 0, ['A:ref'], args='%(both)s')]}
    out.append(_b('b12-platform-variables', plat_doc, platforms=(None, 'plat')))
    # -- replication
    out.append(_b('b13-replicate-aggregate', {
        'variables': {'default': {'global': {'n': 2}}},
        'components': [comp('A', args='%(replica)s', workflowAttributes={'replicate': '%(n)s'}),
                       comp('B', 0, ['A:ref']),
                       comp('C', 1, ['stage0.B:ref'], workflowAttributes={'aggregate': True}),
                       comp('D', 1, ['C:output'])]}))
    out.append(_b('b14-replicate-literal', {
        'components': [comp('A', workflowAttributes={'replicate': 2}),
                       comp('AA', 0, ['A:output']),
                       comp('B', 1, ['stage0.AA:ref', 'stage0.A:ref'], workflowAttributes={'aggregate': True})]}))
    # -- loop placeholder
    dw = {'type': 'DoWhile',
          'inputBindings': {'number': {'type': 'output'}},
          'loopBindings': {'number': 'fake_add:output'},
          'condition': 'stop/iteration.next:output',
          'components': [
              comp('add', 0, ['number:output'], args='1'),
              comp('fake_add', 0, ['add:output']),
              comp('stop', 0, ['fake_add:output'], args='%(targetLoops)s', command={'expandArguments': 'none'})]}
    out.append(_b('b15-dowhile', {
        'variables': {'default': {'global': {'targetLoops': 2}}},
        'components': [comp('GenerateInput', 0, args='0'),
                       {'stage': 1, 'name': 'loop', '$import': 'dowhile.yaml',
                        'bindings': {'number': 'stage0.GenerateInput:output'}},
                       comp('report', 2, ['stage1.add:output'])]}, dowhile=dw))
    # -- direct references and application dependencies
    out.append(_b('b16-direct-references', {
        'application-dependencies': {'default': ['app.application']},
        'components': [comp('A', 0, ['data/f.txt:copy', 'input/in.dat:ref', '/etc/hosts:ref', 'app/bin:ref']),
                       comp('data-user', 0, ['A:ref', 'data/f.txt:ref'])]},
        nonc=('app',), files={'data/f.txt': 'x\n'}))
    # -- blueprints, platforms, overrides
    out.append(_b('b17-blueprint-default', {
        'blueprint': {'default': {'global': {'command': {'resolvePath': False},
                                             'resourceRequest': {'numberThreads': 2}},
                                  'stages': {1: {'workflowAttributes': {'maxRestarts': 1},
                                                 'command': {'environment': 'none'}}}}},
        'components': [comp('A'), comp('B', 1, ['stage0.A:ref'])]}))
    out.append(_b('b18-blueprint-and-override-platform', {
        'platforms': ['default', 'plat'],
        'blueprint': {'default': {'global': {'command': {'resolvePath': True}}},
                      'plat': {'global': {'command': {'resolvePath': False},
                                          'resourceManager': {'config': {'walltime': 5.0}}},
                               'stages': {0: {'resourceRequest': {'numberProcesses': 2}}}}},
        'components': [comp('A', override={'plat': {'resourceRequest': {'numberThreads': 4},
                                                    'command': {'arguments': 'over'}}}),
                       comp('B', 0, ['A:ref'], resourceRequest={'numberProcesses': 3})]},
        platforms=(None, 'plat')))
    # -- every option explicit, at every place options can be written
    out.append(_b('b19-all-options-component', {'components': [
        dict(comp('K'), **full_options()), comp('B', 0, ['K:ref'])]}))
    out.append(_b('b20-all-options-blueprint', {
        'blueprint': {'default': {'global': full_options()}},
        'components': [{'name': 'A', 'stage': 0}, {'name': 'B', 'stage': 0, 'references': ['A:ref'],
                                                     'command': {'arguments': 'hello A:ref'}}]}))
    ov = full_options()
    ov['variables'] = {'q': 'quu'}
    out.append(_b('b21-all-options-override-and-stage-blueprint', {
        'platforms': ['default', 'plat'],
        'blueprint': {'plat': {'stages': {1: full_options()}}},
        'components': [comp('A', override={'plat': ov}), comp('B', 1)]},
        platforms=('plat', None)))
    # -- stage options, outputs, environments, other top-level sections
    out.append(_b('b22-status-output-environments', {
        'version': '0.2.0',
        'platforms': ['default'],
        'virtual-environments': {'default': ['venv']},
        'environments': {'default': {'myenv': {'DEFAULTS': 'PATH', 'FOO': 'bar'}}},
        'status-report': {0: {'stage-weight': 0.25, 'executable': 'echo', 'arguments': 'zero', 'references': []},
                          1: {'stage-weight': 0.75}},
        'output': {'result': {'data-in': 'stage1.B/out.txt:copy', 'description': 'the result', 'type': 'csv',
                              'stages': [1]}},
        'components': [comp('A', command={'environment': 'myenv'}),
                       comp('B', 1, ['stage0.A:ref'], command={'environment': 'myenv'}),
                       comp('C', 1, ['B:ref'])]}))
    # -- observers and every reference method
    out.append(_b('b23-repeating-observer', {'components': [
        comp('A'), comp('Obs', 0, ['A:ref'], workflowAttributes={'repeatInterval': 5, 'repeatRetries': 1}),
        comp('C', 1, ['stage0.Obs:output', 'stage0.A:ref'])]}))
    out.append(_b('b24-reference-methods', {'components': [
        comp('P'), comp('Q', 0, ['P:ref']),
        comp('R', 1, ['stage0.P/a.txt:copy', 'stage0.Q/d:link', 'stage0.P:output', 'stage0.Q/b.txt:ref',
                      'stage0.P/c.tgz:extract']),
        comp('S', 2, ['stage0.P:ref'], quiet_refs=['stage1.R/o.txt:copyout'])]}))
    out.append(_b('b25-three-stages-mixed', {
        'variables': {'default': {'global': {'k': 'v'}}},
        'components': [comp('A', args='%(k)s'), comp('BA', 0, ['A:ref']), comp('A', 1, ['stage0.BA:ref']),
                       comp('AB', 1, ['A:ref', 'stage0.A:output']), comp('Z', 2, ['stage1.AB:ref', 'stage1.A:ref'])]}))
    # -- array access: a variable used only as the INDEX of another variable
    out.append(_b('b26-array-index-variables', {
        'variables': {'default': {'global': {'choices': 'alpha beta gamma', 'pick': '1', 'n': '2'},
                                  'stages': {1: {'which': '2'}}}},
        'components': [comp('select', args='%(choices)s[%(pick)s]'),
                       comp('fan', 0, ['select:ref'], args='%(choices)s[%(replica)s]',
                            workflowAttributes={'replicate': '%(n)s'}),
                       comp('join', 1, ['stage0.fan:ref'], args='%(choices)s[%(which)s] %(mine)s[%(idx)s]',
                            variables={'mine': 'x y', 'idx': 0}, workflowAttributes={'aggregate': True})]}))
    # -- a component that has the name of a folder of the package; the stage prefix says which of the two is meant
    out.append(_b('b27-component-named-like-application-dependency', {
        'application-dependencies': {'default': ['prep.application']},
        'components': [comp('prep'),
                       comp('sim', 0, ['stage0.prep:ref', 'prep/bin:ref']),
                       comp('report', 1, ['stage0.sim:ref', 'stage0.prep/out.txt:copy'])]}, nonc=('prep',), shape_only=True))
    out.append(_b('b28-component-named-like-top-level-folder', {
        'components': [comp('tools'), comp('mid', 0, ['stage0.tools:ref']),
                       comp('user', 1, ['stage0.tools/o.txt:copy', 'stage0.mid:ref'])]},
        nonc=('tools',), files={'tools/run.sh': '#!/bin/sh\n'}, shape_only=True))
    # -- replication that reaches consumers, replica names with two digits, the replica variable in inherited replicas
    out.append(_b('b29-replica-consumers', {
        'variables': {'default': {'global': {'n': 2, 'many': 11}}},
        'components': [comp('plain'),
                       comp('fan', 0, ['plain:ref'], args='%(replica)s', workflowAttributes={'replicate': '%(n)s'}),
                       comp('work', 0, ['fan:ref'], args='%(replica)s'),
                       comp('audit', 0, ['plain:ref']),
                       comp('sweep', 1, args='%(replica)s', workflowAttributes={'replicate': '%(many)s'}),
                       comp('probe', 1, args='%(replica)s', workflowAttributes={'replicate': 2}),
                       comp('join', 2, ['stage0.work:ref', 'stage0.audit:ref'], workflowAttributes={'aggregate': True}),
                       comp('collect', 2, ['stage1.sweep:ref'], workflowAttributes={'aggregate': True}),
                       comp('gather', 2, ['stage1.probe:ref'], workflowAttributes={'aggregate': True})]},
        shape_only=True))
    # -- variables that only the user supplies (variable_files= of the loader): for all stages, per stage
    out.append(_b('b30-user-variables-file', {
        'variables': {'default': {'global': {'greeting': 'hello'}}},
        'components': [comp('prepare', args='%(greeting)s %(dataset)s %(tol)s'),
                       comp('simulate', 1, ['stage0.prepare:ref'], args='%(dataset)s'),
                       comp('analyse', 2, ['stage1.simulate:ref'], args='%(greeting)s %(late)s %(tol)s')]},
        uservars={'global': {'tol': 0.5},
                  'stages': {0: {'dataset': 'water'}, 1: {'dataset': 'ice'}, 2: {'late': 'x'}}}, shape_only=True))
    out.append(_b('b31-user-variables-file-platform', {
        'platforms': ['default', 'plat'],
        'variables': {'default': {'global': {'g': 'd'}, 'stages': {1: {'s1': 'one'}}}, 'plat': {'global': {'g': 'p'}}},
        'components': [comp('A', args='%(g)s %(u0)s %(both)s'), comp('B', 1, ['stage0.A:ref'], args='%(s1)s %(u1)s %(both)s'),
                       comp('C', 1, ['B:ref'], args='%(g)s')]},
        platforms=(None, 'plat'),
        uservars={'stages': {0: {'u0': 'a', 'both': 'x'}, 1: {'u1': 'b', 'both': 'y'}}}, shape_only=True))
    return out


# ------------------------------------------------------------------------------------------------ mutations
def _at(root, path):
    cur = root
    for k in path:
        cur = cur[k]
    return cur


def _comp_list(root, where):
    return root['doc']['components'] if where == 'doc' else root['dowhile']['components']


def _respell(ref, new_producer):
    stage, producer, path, method = V.parse_ref(ref)
    body = new_producer if path is None else '%s/%s' % (new_producer, path)
    if stage is not None:
        body = 'stage%d.%s' % (stage, body)
    return '%s:%s' % (body, method)


def _respell_stage(ref, new_stage):
    stage, producer, path, method = V.parse_ref(ref)
    body = producer if path is None else '%s/%s' % (producer, path)
    return 'stage%d.%s:%s' % (new_stage, body, method)


def rename_component(r, where, index, new_name):
    """Gives component `index` the name `new_name` and re-spells every reference to it (references and arguments of the
    components of the same document), so that the only thing that changes is the identifier."""
    lst = _comp_list(r, where)
    target = lst[index]
    old, tstage = target['name'], target.get('stage', 0)
    for c in lst:
        if not isinstance(c, dict):
            continue
        refs = c.get('references')
        for j, ref in enumerate(refs if isinstance(refs, list) else []):
            p = V.parse_ref(ref)
            if p is None or p[1] != old or (p[0] if p[0] is not None else c.get('stage', 0)) != tstage:
                continue
            new = _respell(ref, new_name)
            refs[j] = new
            if isinstance(c.get('command', {}).get('arguments'), str):
                c['command']['arguments'] = _replace_token(c['command']['arguments'], ref, new)
    target['name'] = new_name


def _replace_token(text, old, new):
    return ' '.join(new if t == old else t for t in text.split(' '))


def apply(root, mut):
    r = copy.deepcopy(root)
    k = mut['kind']
    if k == 'drop':
        del _comp_list(r, mut['where'])[mut['index']]
    elif k == 'rename':
        c = _comp_list(r, mut['where'])[mut['index']]
        old = c['references'][mut['ref']]
        new = _respell(old, mut['to'])
        c['references'][mut['ref']] = new
        if mut['variant'] == 'both':
            c['command']['arguments'] = _replace_token(c['command']['arguments'], old, new)
    elif k == 'cycle':
        c = _comp_list(r, mut['where'])[mut['index']]
        c.setdefault('references', []).append(mut['reference'])
        cmd = c.setdefault('command', {})
        cmd['arguments'] = (cmd.get('arguments', '') + ' ' + mut['reference']).strip()
    elif k == 'dup':
        lst = _comp_list(r, mut['where'])
        if mut.get('consistent'):
            rename_component(r, mut['where'], mut['to'], lst[mut['from']]['name'])
        else:
            lst[mut['to']]['name'] = lst[mut['from']]['name']
    elif k == 'dupreplica':
        rename_component(r, mut['where'], mut['index'], mut['to'])
    elif k == 'restage':
        c = _comp_list(r, mut['where'])[mut['index']]
        old = c['references'][mut['ref']]
        new = _respell_stage(old, mut['stage'])
        c['references'][mut['ref']] = new
        c['command']['arguments'] = _replace_token(c['command']['arguments'], old, new)
    elif k == 'misspell':
        d = _at(r, mut['path'])
        items = [(mut['new'] if kk == mut['key'] else kk, vv) for kk, vv in d.items()]
        d.clear()
        d.update(items)
    elif k == 'mistype':
        parent = _at(r, mut['path'][:-1])
        parent[mut['path'][-1]] = copy.deepcopy(mut['value'])
    elif k == 'unvar':
        del _at(r, mut['path'])[mut['name']]
    elif k == 'addkey':
        _at(r, mut['path'])[mut['new']] = 'v'
    elif k == 'setopt':
        cur = _at(r, mut['path'])
        for key in mut['option'][:-1]:
            cur = cur.setdefault(key, {})
        cur[mut['option'][-1]] = copy.deepcopy(mut['value'])
    else:
        raise ValueError(k)
    return r


def _wrong_values(t, thorough=False):
    scalar_str = [[WRONG], {WRONG: 1}]
    scalar_other = [WRONG, [WRONG]] + ([{WRONG: 1}] if thorough else [])
    if getattr(t, 'kind', None) == 'int':
        scalar_other = scalar_other + [2.5]      # a number, but not an integer
    if t == 'section':
        return [WRONG, [WRONG]]
    if t == 'list':
        return [WRONG, {WRONG: 1}]
    if t.kind in ('str', 'enum', 'prim'):
        return scalar_str
    if t.kind == 'list':
        return [WRONG, {WRONG: 1}]
    if t.kind == 'dict':
        return [WRONG, [WRONG]]
    return scalar_other


def _misspellings(key):
    """Typos of one key: plural/singular slip, a case slip of the first letter, a dropped last character."""
    out = []
    out.append(key[:-1] if key.endswith('s') and len(key) > 2 else key + 's')
    out.append(key[0].swapcase() + key[1:] if key[0].isalpha() else key + '_')
    if len(key) > 3:
        out.append(key[:-1])
    seen = []
    for o in out:
        if o != key and o not in seen:
            seen.append(o)
    return seen


def _leaf_options(schema, prefix):
    for k, v in schema.items():
        if isinstance(v, dict):
            for x in _leaf_options(v, prefix + (k,)):
                yield x
        elif isinstance(v, V.T):
            yield prefix + (k,), v
        elif isinstance(v, V.L):
            yield prefix + (k,), 'list'


def _jpath(p):
    return [x for x in p]


def mutations(base, platform, thorough):
    """Yields every single-fault mutation descriptor of the base for the given platform (deterministic order)."""
    root = base['root']
    an = V.analyse(root, platform, base['nonc'])
    comps, imports, inner = V.component_table(root, platform)
    spaces = [('doc', comps + imports)] + ([('dowhile', inner)] if inner else [])
    # 1. drop component i
    for where, lst in spaces:
        for e in sorted(lst, key=lambda e: e['where'][1]):
            yield {'kind': 'drop', 'where': where, 'index': e['where'][1]}
    # 2. rename the producer in reference j (consistently / in the references list only)
    names = sorted(set(e['name'] for e in comps + inner + imports))
    for where, lst in spaces:
        for e in sorted(lst, key=lambda e: e['where'][1]):
            refs = e['comp'].get('references') or []
            for j, ref in enumerate(refs):
                p = V.parse_ref(ref)
                if p is None or V.is_noncomponent(p[1], base['nonc'], p[0]):
                    continue
                old = p[1]
                cands = ['Zq', old + 'A', 'A' + old] + ([old[:-1]] if len(old) > 1 else []) + names
                seen = []
                for q in cands:
                    if q == old or q in seen:
                        continue
                    seen.append(q)
                    for variant in ('both', 'refs-only'):
                        yield {'kind': 'rename', 'where': where, 'index': e['where'][1], 'ref': j, 'to': q,
                               'variant': variant}
    # 2b. point a stage-qualified reference at every other stage of the document (and one stage past the last)
    all_stages = sorted(set(e['stage'] for e in comps + inner + imports if e['stage'] is not None))
    for where, lst in spaces:
        for e in sorted(lst, key=lambda e: e['where'][1]):
            off = e.get('offset', 0)
            for j, ref in enumerate(e['comp'].get('references') or []):
                p = V.parse_ref(ref)
                if p is None or p[0] is None or p[1].startswith('/'):
                    continue
                for st in [x - off for x in all_stages if x - off >= 0] + [all_stages[-1] - off + 1]:
                    if st != p[0]:
                        yield {'kind': 'restage', 'where': where, 'index': e['where'][1], 'ref': j, 'stage': st}
    # 3. add an edge that closes a cycle: u consumes v for every v that (transitively) depends on u, and u itself
    succ = {}
    for a, b in an.edges:
        succ.setdefault(a, set()).add(b)

    def reach(a):
        out, todo = set([a]), [a]
        while todo:
            n = todo.pop()
            for m in succ.get(n, ()):
                if m not in out:
                    out.add(m)
                    todo.append(m)
        return out

    methods = ('ref', 'output') if thorough else ('ref',)
    for where, lst in (('doc', comps), ('dowhile', inner)):
        for u in sorted(lst, key=lambda e: e['where'][1]):
            r = reach((u['stage'], u['name']))
            for v in sorted(lst, key=lambda e: e['where'][1]):
                if (v['stage'], v['name']) not in r:
                    continue
                vstage = v['stage'] - (v.get('offset', 0) if where == 'dowhile' else 0)
                for m in methods:
                    yield {'kind': 'cycle', 'where': where, 'index': u['where'][1],
                           'reference': 'stage%d.%s:%s' % (vstage, v['name'], m), 'target': v['where'][1]}
    # 4. duplicate the name of component i into component j of the same stage
    for where, lst in spaces:
        for a in sorted(lst, key=lambda e: e['where'][1]):
            for b in sorted(lst, key=lambda e: e['where'][1]):
                if a is not b and a['stage'] == b['stage'] and a['name'] != b['name']:
                    yield {'kind': 'dup', 'where': where, 'from': a['where'][1], 'to': b['where'][1]}
                    # the same with every reference to j re-spelled: nothing dangles, only the identifier repeats
                    yield {'kind': 'dup', 'where': where, 'from': a['where'][1], 'to': b['where'][1], 'consistent': True}
    # 4b. identifiers that only repeat AFTER replication: component j of the same stage is called like replica k of a
    #     replicated component i (k = 0..n; k = n is the first name that does not clash), references re-spelled
    if an.replicas:
        for a in sorted(comps, key=lambda e: e['where'][1]):
            n = an.replicas.get(a['where'], 0)
            if not n:
                continue
            for b in sorted(comps, key=lambda e: e['where'][1]):
                if a is b or a['stage'] != b['stage']:
                    continue
                for k in sorted(set([0, 1, n - 1, n])):
                    if 0 <= k <= n:
                        yield {'kind': 'dupreplica', 'where': 'doc', 'index': b['where'][1],
                               'to': '%s%d' % (a['name'], k), 'like': a['where'][1]}
    bulk = thorough or not base.get('shape_only')
    # 5. misspell every option key at every nesting level
    for path, key, scope in an.key_positions if bulk else []:
        typos = _misspellings(key)
        # quick: two typos for the keys that give the document its shape (depth <= 3), one for deeper option keys
        for new in typos if thorough else typos[:2 if len(path) <= 3 else 1]:
            if new in _at(root, path):
                continue
            yield {'kind': 'misspell', 'path': _jpath(path), 'key': key, 'new': new}
    # 5b. the same fault by insertion: an unknown key next to the valid ones, in every dict whose keys the schema fixes
    for path, scope in an.containers if bulk else []:
        yield {'kind': 'addkey', 'path': _jpath(path), 'new': 'c11x'}
    # 6. a value of the wrong type for every typed option
    for path, t, scope in an.typed_positions if bulk else []:
        if len(path) <= 1:
            continue
        for w in _wrong_values(t, thorough):
            yield {'kind': 'mistype', 'path': _jpath(path), 'value': w}
    # 6b. (thorough) every option of the schema that the first component of the document does NOT set, set to a wrongly
    #     typed value there -- so that every typed option meets every workflow shape, not only the all-options bases
    if thorough and comps:
        first = sorted(comps, key=lambda e: e['where'][1])[0]
        for opt, t in _leaf_options(V.comp_options(), ()):
            cur = first['comp']
            for key in opt:
                cur = cur.get(key) if isinstance(cur, dict) else None
            if cur is not None or (isinstance(first['comp'].get(opt[0]), dict) is False and opt[0] in first['comp']):
                continue
            for w in _wrong_values(t, False):
                yield {'kind': 'setopt', 'path': ['doc', 'components', first['where'][1]], 'option': list(opt), 'value': w}
    # 7. remove every variable that is referenced
    text = ' '.join(V._strings(root))
    for path, name, scope in an.var_positions:
        if '%%(%s)s' % name in text:
            yield {'kind': 'unvar', 'path': _jpath(path), 'name': name}
