"""Helpers that build real on-disk packages / instances from FlowIR documents (dicts)."""
import contextlib
import os
import shutil
import tempfile
import uuid

import yaml


def scratch_root():
    base = '/dev/shm' if os.path.isdir('/dev/shm') and os.access('/dev/shm', os.W_OK) else tempfile.gettempdir()
    return base


@contextlib.contextmanager
def scratch_dir(prefix='verif-'):
    d = tempfile.mkdtemp(prefix=prefix, dir=scratch_root())
    cwd = os.getcwd()
    try:
        yield d
    finally:
        try:
            os.chdir(cwd)
        except OSError:
            os.chdir('/')
        shutil.rmtree(d, ignore_errors=True)


def populate_files(location, extra_files):
    for path, content in (extra_files or {}).items():
        full = os.path.join(location, path)
        os.makedirs(os.path.dirname(full), exist_ok=True)
        mode = 'wb' if isinstance(content, bytes) else 'w'
        with open(full, mode) as f:
            f.write(content)


def write_package(doc, location, extra_files=None, is_flowir=True, name=None, manifest=None):
    """Writes <location>/<name>.package/conf/flowir_package.yaml (+ extra files). Returns the package path."""
    package_path = os.path.join(location, '%s.package' % (name or uuid.uuid4().hex[:10]))
    dir_conf = os.path.join(package_path, 'conf')
    os.makedirs(dir_conf)
    text = doc if isinstance(doc, str) else yaml.safe_dump(doc, sort_keys=False)
    with open(os.path.join(dir_conf, 'flowir_package.yaml' if is_flowir else 'dsl.yaml'), 'w') as f:
        f.write(text)
    populate_files(package_path, extra_files)
    return package_path


def experiment_from_doc(doc, location, extra_files=None, variable_files=None, platform=None, is_flowir=True,
                        validate=True, check_executables=False, inputs=None, data=None, name=None, **kw):
    """The same recipe tests/utils.experiment_from_flowir uses, kept here so that checks do not import tests."""
    import experiment.model.data
    import experiment.model.storage
    package_path = write_package(doc, location, extra_files, is_flowir, name=name)
    pkg = experiment.model.storage.ExperimentPackage.packageFromLocation(package_path, platform=platform)
    exp = experiment.model.data.Experiment.experimentFromPackage(
        pkg, location=location, variable_files=variable_files, inputs=inputs, data=data, platform=platform, **kw)
    if validate:
        exp.validateExperiment(checkExecutables=check_executables)
    return exp
