"""C18 — generators of hostile tar archives, reference lists and manifests (all finite, enumerated completely).

Cases are plain JSON-able data. The string '@ABS@' stands for "<scratch sandbox>/victim" (an existing directory
inside the scratch sandbox but outside every staging/deployment target); it is substituted when a case is
materialised, so that no absolute name ever points outside the scratch sandbox and case ids are stable.
"""
import io
import itertools
import tarfile

ABS = '@ABS@'
WD = '@WD@'     # the staging destination itself: '@WD@x/ax' is an absolute name in a sibling directory whose name
#                 merely *starts with* the destination's name (textual-prefix collision)

# ------------------------------------------------------------------------------------------------------ archives
NAMES = ['a', 'd', 'd/a', './a', '../x', 'd/../../x', '../outside-file', ABS + '/ax', WD + 'x/ax']
KINDS = [('file', None), ('dir', None),
         ('sym', 'a'), ('sym', '..'), ('sym', '../x'), ('sym', ABS),
         ('hard', 'a'), ('hard', '../outside-file')]
MTIME = 1000000000          # distinctive, so that utime()/chmod() applied to something outside is visible
FILE_MODE = 0o640
DIR_MODE = 0o750


def member_alphabet():
    return [{'name': n, 'kind': k, 'link': l} for n in NAMES for k, l in KINDS]


def archives(n_members):
    """Every ordered archive with exactly n_members members of the alphabet (names may repeat)."""
    alpha = member_alphabet()
    for combo in itertools.product(alpha, repeat=n_members):
        yield [dict(m) for m in combo]


def n_archives(n_members):
    return len(NAMES) ** n_members * len(KINDS) ** n_members


def archive_by_index(n_members, index):
    """The index-th archive of archives(n_members) without enumerating the others."""
    alpha = member_alphabet()
    k = len(alpha)
    digits = []
    for _ in range(n_members):
        digits.append(index % k)
        index //= k
    return [dict(alpha[d]) for d in reversed(digits)]


# ---- link chains: every member is lexically inside (judged on its own, against an empty destination), but the
# links compose on disk: 'a -> .', 'd -> a/..' makes d the parent of the destination. Names are distinct.
CHAIN_NAMES = ['a', 'd', 'd/a', 'a/x']
CHAIN_KINDS = [('file', None), ('dir', None),
               ('sym', '.'), ('sym', '..'), ('sym', 'a/..'), ('sym', 'd/..'), ('sym', 'd/a/..')]


def n_chain_archives(n_members):
    n = 1
    for i in range(n_members):
        n *= len(CHAIN_NAMES) - i
    return n * len(CHAIN_KINDS) ** n_members


def chain_archive_by_index(n_members, index):
    """The index-th ordered archive of n_members members with DISTINCT names of the chain alphabet."""
    perms = list(itertools.permutations(CHAIN_NAMES, n_members))
    nk = len(CHAIN_KINDS)
    pi, ki = divmod(index, nk ** n_members)
    kinds = []
    for _ in range(n_members):
        kinds.append(CHAIN_KINDS[ki % nk])
        ki //= nk
    return [{'name': nm, 'kind': k, 'link': l} for nm, (k, l) in zip(perms[pi], reversed(kinds))]


def chain_archives(n_members):
    for i in range(n_chain_archives(n_members)):
        yield chain_archive_by_index(n_members, i)


def subst(s, abs_dir, wd=None):
    if s is None:
        return None
    s = s.replace(ABS, abs_dir)
    return s.replace(WD, wd) if wd is not None else s


def realise(members, abs_dir, wd):
    """The member list with the placeholders replaced by real absolute paths."""
    return [dict(m, name=subst(m['name'], abs_dir, wd), link=subst(m['link'], abs_dir, wd)) for m in members]


def build_tar(members, abs_dir='', compress=''):
    """bytes of a tar archive with exactly these members (names and link names are stored verbatim)."""
    buf = io.BytesIO()
    with tarfile.open(fileobj=buf, mode='w:' + compress, format=tarfile.GNU_FORMAT) as t:
        for i, m in enumerate(members):
            ti = tarfile.TarInfo(subst(m['name'], abs_dir))
            ti.mtime = MTIME
            ti.uid = ti.gid = 0
            ti.uname = ti.gname = ''
            if m['kind'] == 'file':
                data = b'payload-of-member-%d\n' % i
                ti.type = tarfile.REGTYPE
                ti.mode = FILE_MODE
                ti.size = len(data)
                t.addfile(ti, io.BytesIO(data))
            elif m['kind'] == 'dir':
                ti.type = tarfile.DIRTYPE
                ti.mode = DIR_MODE
                t.addfile(ti)
            elif m['kind'] == 'sym':
                ti.type = tarfile.SYMTYPE
                ti.linkname = subst(m['link'], abs_dir)
                ti.mode = 0o777
                t.addfile(ti)
            elif m['kind'] == 'hard':
                ti.type = tarfile.LNKTYPE
                ti.linkname = subst(m['link'], abs_dir)
                ti.mode = FILE_MODE
                t.addfile(ti)
            else:
                raise ValueError(m['kind'])
    return buf.getvalue()


def read_back(data):
    """What a reader sees in the archive: [(name, kind, link)] — used to self-check the builder."""
    out = []
    with tarfile.open(fileobj=io.BytesIO(data)) as t:
        for ti in t.getmembers():
            kind = 'file' if ti.isreg() else 'dir' if ti.isdir() else 'sym' if ti.issym() else 'hard' if ti.islnk() else '?'
            out.append((ti.name, kind, ti.linkname if kind in ('sym', 'hard') else None))
    return out


# ---------------------------------------------------------------------------------------- reference lists (copy/link)
# fixtures that every staging package contains (see props.c18.build_stage_package):
#   data/f (file)  data/lf -> f  data/d/ {f, l -> .., labs -> @ABS@, dangling -> nowhere}  data/ld -> d
#   bin/f (file, other content)  bin/d/ {g}
REF_SOURCES = ['data/f', 'data/lf', 'data/d', 'data/d/', 'data/d/.', 'data/d/..', 'data/ld', 'data/d/l', 'data/d/labs',
               'bin/f', 'bin/d']
REF_METHODS = ['copy', 'link', 'copyout']


def ref_lists(n, methods):
    refs = ['%s:%s' % (s, m) for s in REF_SOURCES for m in methods]
    if n == 1:
        for r in refs:
            yield [r]
    else:
        for combo in itertools.permutations(refs, n):
            yield list(combo)


COMBO_PRE = [['data/d:link'], ['data/d:copy'], ['data/ld:link']]

# ------------------------------------------------------------------------------------------------------ manifests
# 'conf' is the folder into which deployment itself writes the workflow definition after the manifest was applied
# 'data' is the folder whose files experimentFromPackage(data=[...]) replaces after the manifest was applied
# '@INSTNAME@' stands for the name of the new instance directory: '../@INSTNAME@x' is a sibling whose name merely
# starts with the instance directory's name (textual-prefix collision, like '@WD@x' for archives)
INSTNAME = '@INSTNAME@'
KEYS = ['a', 'a/b', '../x', 'a/../../x', './a', ABS + '/mk', 'conf', 'data', '../' + INSTNAME + 'x']
# every manifest source folder contains symbolic links with these names pointing at victim files outside the
# instance: the names of the files that deployment / instance creation writes into conf/ and data/ afterwards
LATER_WRITTEN = ['flowir_package.yaml', 'dsl.yaml', 'flowir_instance.yaml', 'manifest.yaml', 'big.csv']
METHODS = ['copy', 'link']


def manifests(n_keys, with_default_method=False):
    """Ordered manifests with n_keys distinct keys: [[key, method, source index], ...]; source i is folder src<i>."""
    ms = METHODS + ([None] if with_default_method else [])
    for keys in itertools.permutations(KEYS, n_keys):
        for meths in itertools.product(ms, repeat=n_keys):
            yield [[k, m, i] for i, (k, m) in enumerate(zip(keys, meths))]


# ---- nested keys named like the files that deployment writes later, below a folder deployed from a PLAIN source
# (a folder that does not contain those names). The third element of an entry is then a source token instead of an
# index: 'plain' = <package>/plain (folder: keep.txt only), 'vfile' = <package>/vfile.txt (a precious file),
# 'missing' = <package>/missing.txt (does not exist: a link to it dangles until something writes through it).
LATER_IN = {'conf': ['flowir_package.yaml', 'dsl.yaml', 'flowir_instance.yaml', 'manifest.yaml'], 'data': ['big.csv']}


def nested_later_manifests():
    """[folder entry, nested entry] in both orders, and the nested entry alone; every method and source kind."""
    for folder, names in LATER_IN.items():
        for name in names:
            for m2 in METHODS:
                for src2 in ('vfile', 'missing', 'plain'):
                    nested = ['%s/%s' % (folder, name), m2, src2]
                    yield [nested]
                    for m1 in METHODS:
                        first = [folder, m1, 'plain']
                        yield [first, nested]
                        yield [nested, first]
