"""Generators for C03: abstract workflows (see verif.oracles.c03_replicate for the case format) and their FlowIR
documents.  Pure functions, deterministic, no imports from `experiment.*`."""
import itertools

from verif.oracles.c03_replicate import PATH_SUFFIX, PATH_SUFFIX2


# ------------------------------------------------------------------------------------------------- case -> FlowIR
def ref_string(case, e, other=False):
    p = case['comps'][e['p']]
    s = p['name'] + ('/' + e['file'] if e['file'] else '') + ':' + e['method']
    if bool(e['abs']) != bool(other):
        s = 'stage%d.%s' % (p['stage'], s)
    return s


PLATFORM = 'big'


def _define(scope, var, value):
    if scope.get(var, value) != value:
        raise ValueError('conflicting definitions of %s in one scope' % var)
    scope[var] = value


def build_doc(case):
    """Returns (flowir dict, manifest dict)."""
    comps = []
    gvars, svars, cvars, pvars = {}, {}, {}, {}
    for j, c in enumerate(case['comps']):
        refs, args = [], []
        for e in c['refs']:
            refs.append(ref_string(case, e))
            if e.get('arg'):
                tok = ref_string(case, e, other=(e['arg'] == 'other'))
                if e['arg'] == 'path':
                    args += ['-i', tok + '/' + PATH_SUFFIX]
                elif e['arg'] == 'path2':
                    args += ['-i', tok + '/' + PATH_SUFFIX, tok + '/' + PATH_SUFFIX2]
                else:
                    args += ['-i', tok]
        for d in c.get('direct') or []:
            refs.append(d)
            args.append(d)
        if c.get('replica_arg'):
            args.append('r=%(replica)s')
        args.append('end')
        d = {'name': c['name'], 'stage': c['stage'],
             'command': {'executable': 'echo', 'arguments': ' '.join(args)}, 'references': refs}
        wa = {}
        if c.get('rep'):
            form = c['rep'].get('form', 'lit')
            n = c['rep']['n']
            stage = c['stage']
            if form == 'lit':
                wa['replicate'] = n
            elif form in ('gvar', 'svar'):
                var = 'n%d' % j
                wa['replicate'] = '%%(%s)s' % var
                if form == 'gvar':
                    _define(gvars, var, n)
                else:
                    _define(svars.setdefault(stage, {}), var, n)
            else:
                # one variable name defined in several scopes; the documented layering (global < stage < component)
                # makes the requester see n; the other definitions must not reach it
                wa['replicate'] = '%(n)s'
                others = [x for x in range(len(case['comps'])) if x != j]
                if form == 'cvar':
                    _define(cvars.setdefault(j, {}), 'n', n)
                elif form == 'g+othercomp':
                    _define(gvars, 'n', n)
                    for x in others:
                        _define(cvars.setdefault(x, {}), 'n', n + 1)
                elif form == 'g+otherstage':
                    other_stages = sorted(set(x['stage'] for x in case['comps']) - set([stage]))
                    if not other_stages:
                        raise ValueError('form g+otherstage needs a second stage')
                    _define(gvars, 'n', n)
                    for st in other_stages:
                        _define(svars.setdefault(st, {}), 'n', n + 1)
                elif form == 's>g':
                    _define(svars.setdefault(stage, {}), 'n', n)
                    _define(gvars, 'n', n + 1)
                elif form == 'c>s>g':
                    _define(cvars.setdefault(j, {}), 'n', n)
                    _define(svars.setdefault(stage, {}), 'n', n + 1)
                    _define(gvars, 'n', n + 2)
                elif form == 's+othercomp':
                    _define(svars.setdefault(stage, {}), 'n', n)
                    for x in others:
                        if case['comps'][x].get('rep') is None:
                            _define(cvars.setdefault(x, {}), 'n', n + 1)
                elif form in ('chain', 'chain+othercomp', 'chain:s+othercomp'):
                    # the count is a component variable defined through another variable (substituted until none of a
                    # defined variable remains); other components shadow that other variable in their own scope
                    wa['replicate'] = '%(m)s'
                    _define(cvars.setdefault(j, {}), 'm', '%(n)s')
                    if form == 'chain:s+othercomp':
                        _define(svars.setdefault(stage, {}), 'n', n)
                        _define(gvars, 'n', n + 2)
                    else:
                        _define(gvars, 'n', n)
                    if form != 'chain':
                        for x in others:
                            if case['comps'][x].get('rep') is None:
                                _define(cvars.setdefault(x, {}), 'n', n + 1)
                elif form.startswith('P:') or form == 'D:ds+pdecoy':
                    # a second platform: default global < default stage < platform global < platform stage < component
                    if (form == 'D:ds+pdecoy') != (case.get('platform') is None):
                        raise ValueError('form %s and platform %r do not fit' % (form, case.get('platform')))
                    pg = pvars.setdefault('global', {})
                    ps = pvars.setdefault('stages', {}).setdefault(stage, {})
                    if form == 'P:pg>ds':
                        _define(svars.setdefault(stage, {}), 'n', n + 1)
                        _define(pg, 'n', n)
                    elif form == 'P:pg>dg':
                        _define(gvars, 'n', n + 1)
                        _define(pg, 'n', n)
                    elif form == 'P:ps>pg':
                        _define(gvars, 'n', n + 2)
                        _define(pg, 'n', n + 1)
                        _define(ps, 'n', n)
                    elif form == 'P:ds':
                        _define(gvars, 'n', n + 1)
                        _define(svars.setdefault(stage, {}), 'n', n)
                        _define(pg, 'unrelated', 1)
                    elif form == 'P:c>pg':
                        _define(cvars.setdefault(j, {}), 'n', n)
                        _define(pg, 'n', n + 1)
                    elif form == 'D:ds+pdecoy':
                        _define(svars.setdefault(stage, {}), 'n', n)
                        _define(pg, 'n', n + 1)
                        _define(ps, 'n', n + 2)
                    else:
                        raise ValueError('unknown form %r' % (form,))
                else:
                    raise ValueError('unknown form %r' % (form,))
        if c.get('agg'):
            if c.get('agg_form') == 'chain':
                # the flag is a component variable defined through a global one that other components shadow
                wa['aggregate'] = '%(a)s'
                _define(cvars.setdefault(j, {}), 'a', '%(b)s')
                _define(gvars, 'b', 'yes')
                for x in range(len(case['comps'])):
                    if x != j and not case['comps'][x].get('agg'):
                        _define(cvars.setdefault(x, {}), 'b', 'no')
            else:
                wa['aggregate'] = True
        if wa:
            d['workflowAttributes'] = wa
        comps.append(d)
    for x, v in cvars.items():
        comps[x]['variables'] = dict(v)
    doc = {'components': comps}
    if gvars or svars:
        v = {}
        if gvars:
            v['global'] = gvars
        if svars:
            v['stages'] = svars
        doc['variables'] = {'default': v}
    if pvars:
        pv = dict((k, v) for k, v in pvars.items() if v and (k != 'stages' or any(v.values())))
        if 'stages' in pv:
            pv['stages'] = dict((k, v) for k, v in pv['stages'].items() if v)
        doc.setdefault('variables', {})[PLATFORM] = pv
        doc['platforms'] = ['default', PLATFORM]
    if case.get('appdeps'):
        doc['application-dependencies'] = {'default': list(case['appdeps'])}
    return doc, dict(case.get('manifest') or {})


# ------------------------------------------------------------------------------------------------- shapes
def shapes(k):
    """All DAG shapes on k components: (stages tuple, edges tuple of (producer, consumer)), producers have the lower
    index, stages are non-decreasing along the index and at most two, at least one edge."""
    stage_sets = [tuple([0] * a + [1] * (k - a)) for a in range(k, 0, -1)]
    pairs = [(i, j) for j in range(k) for i in range(j)]
    for stages in stage_sets:
        for m in range(1, len(pairs) + 1):
            for edges in itertools.combinations(pairs, m):
                yield stages, edges


def attr_assignments(k, edges, counts=(1, 2, 3), pair_counts=((2, 2), (2, 3), (3, 2))):
    """(rep tuple of None|n, agg tuple of bool): one or two requesting components; aggregation on any subset of the
    components that have a producer.  Only assignments with at least one replicating component."""
    has_prod = sorted(set(j for _, j in edges))
    reps = []
    for j in range(k):
        for n in counts:
            reps.append(tuple(n if x == j else None for x in range(k)))
    for a, b in itertools.combinations(range(k), 2):
        for na, nb in pair_counts:
            reps.append(tuple(na if x == a else nb if x == b else None for x in range(k)))
    for rep in reps:
        for m in range(len(has_prod) + 1):
            for aggs in itertools.combinations(has_prod, m):
                yield rep, tuple(x in aggs for x in range(k))


def make_case(names, stages, edges, rep, agg, labels, forms=None, direct=None, manifest=None, appdeps=None,
              replica_arg=None):
    """labels: dict edge -> (abs, file, method, arg)."""
    comps = []
    for j, (n, s) in enumerate(zip(names, stages)):
        refs = []
        for (p, c) in edges:
            if c == j:
                a, f, m, g = labels[(p, c)]
                refs.append({'p': p, 'abs': bool(a) or stages[p] != s, 'file': f, 'method': m, 'arg': g})
        comps.append({'name': n, 'stage': s,
                      'rep': None if rep[j] is None else {'n': rep[j], 'form': (forms or {}).get(j, 'lit')},
                      'agg': bool(agg[j]), 'refs': refs, 'direct': list((direct or {}).get(j, [])),
                      'replica_arg': bool((replica_arg or {}).get(j))})
    return {'comps': comps, 'manifest': dict(manifest or {}), 'appdeps': list(appdeps or [])}


# ------------------------------------------------------------------------------------------------- families
NEUTRAL = ('P', 'Q', 'R', 'S')
ALPHA_QUICK = ('A', 'AA', 'BA', 'AB', 'A-B', 'A.B', 'x')
ALPHA_THOROUGH = ALPHA_QUICK + ('B7', 'A_B')
CONSUMER = 'C'


def _spellings(stages, edges, full):
    """Spelling vectors for the same-stage edges (cross-stage edges are always absolute)."""
    same = [e for e in edges if stages[e[0]] == stages[e[1]]]
    if full:
        for bits in itertools.product((False, True), repeat=len(same)):
            yield dict(zip(same, bits))
    else:
        seen = []
        for bits in ([False] * len(same), [True] * len(same), [i % 2 == 0 for i in range(len(same))],
                     [i % 2 == 1 for i in range(len(same))]):
            if bits not in seen:
                seen.append(bits)
                yield dict(zip(same, bits))


def family_structure(thorough):
    """S: every DAG shape x every replicate/aggregate assignment, neutral names, (None, ref) labels, every
    relative/absolute spelling vector (k<=3) or 4 uniform vectors (k=4); variable forms for single requesters."""
    for k in (2, 3, 4) if thorough else (2, 3):
        for stages, edges in shapes(k):
            for rep, agg in attr_assignments(k, edges):
                single = [j for j in range(k) if rep[j] is not None]
                form_sets = [{}]
                if len(single) == 1 and rep[single[0]] == 2:
                    j = single[0]
                    form_sets += [{j: f} for f in (('gvar', 'svar', 'cvar', 'g+othercomp', 's>g', 'c>s>g',
                                                    's+othercomp') if k <= 3 else ('gvar', 'svar', 'g+othercomp'))]
                    if k > 3:
                        more = ('chain+othercomp', 'P:pg>ds')
                    elif thorough:
                        more = ('chain', 'chain+othercomp', 'chain:s+othercomp', 'P:pg>ds', 'P:pg>dg', 'P:ps>pg',
                                'P:ds', 'P:c>pg', 'D:ds+pdecoy')
                    else:
                        more = ('chain+othercomp', 'chain:s+othercomp', 'P:pg>ds', 'P:ps>pg', 'P:c>pg', 'D:ds+pdecoy')
                    form_sets += [{j: f} for f in more]
                    if any(agg):
                        form_sets.append({'agg': 'chain'})
                        form_sets.append({j: 'chain+othercomp', 'agg': 'chain'})
                    if len(set(stages)) > 1:
                        form_sets.append({j: 'g+otherstage'})
                elif len(single) == 2:
                    # both requesters through the same variable name, each defined in its own component scope
                    form_sets.append({single[0]: 'cvar', single[1]: 'cvar'})
                for sp in _spellings(stages, edges, full=(k <= 3)):
                    for forms in form_sets:
                        if forms and any(sp.values()) and k > 2:
                            continue        # variable forms: with the all-relative spelling vector only
                        labels = dict((e, (sp.get(e, True), None, 'ref', 'same')) for e in edges)
                        yield ('S', NEUTRAL[:k], stages, edges, rep, agg, labels, forms, False)


KINDS_SAME_QUICK = ((None, 'ref'), ('out.txt', 'ref'))
KINDS_DIFF_QUICK = ()
KINDS_SAME_THOROUGH = ((None, 'ref'), ('out.txt', 'ref'), ('d/f', 'ref'), (None, 'copy'), ('out.txt', 'output'),
                       (None, 'link'))
KINDS_DIFF_THOROUGH = (((None, 'ref'), ('out.txt', 'ref')), (('out.txt', 'ref'), (None, 'ref')),
                       ((None, 'ref'), (None, 'copy')), (('out.txt', 'copy'), ('out.txt', 'ref')))


def family_names(thorough):
    """N: two producers X, Y feeding one consumer C (optionally X -> Y), every ordered pair of names of the collision
    alphabet (equal names when the stages differ), every replicate/aggregate pattern, label pairs."""
    alpha = ALPHA_THOROUGH if thorough else ALPHA_QUICK
    patterns = []
    for stages in ((0, 0, 0), (0, 0, 1), (0, 1, 1)):
        for rep in ((2, None, None), (None, 2, None), (2, 2, None)) + (((3, 3, None),) if thorough else ()):
            if not thorough and rep == (None, 2, None) and stages[0] == stages[1]:
                continue    # quick: X and Y are interchangeable here (all ordered name pairs are enumerated)
            for aggc in (False, True):
                patterns.append((stages, ((0, 2), (1, 2)), rep, (False, False, aggc)))
        if stages[0] == stages[1] or thorough:
            for aggy in (False, True):
                for aggc in (False, True):
                    if stages != (0, 0, 0) and not thorough:
                        continue
                    patterns.append((stages, ((0, 1), (0, 2), (1, 2)), (2, None, None), (False, aggy, aggc)))
    kinds = [(k, k) for k in (KINDS_SAME_THOROUGH if thorough else KINDS_SAME_QUICK)]
    kinds += list(KINDS_DIFF_THOROUGH if thorough else KINDS_DIFF_QUICK)
    argforms = ('same', 'path', None, 'other') if thorough else ('same', 'path')
    for stages, edges, rep, agg in patterns:
        for nx in alpha:
            for ny in alpha:
                if nx == ny and stages[0] == stages[1]:
                    continue
                for kx, ky in kinds:
                    for ax in (False, True):
                        for ay in (False, True):
                            # relative spelling needs the same stage
                            if (not ax and stages[0] != stages[2]) or (not ay and stages[1] != stages[2]):
                                continue
                            for arg in argforms:
                                if arg == 'other' and not (stages[0] == stages[2] and stages[1] == stages[2]):
                                    continue
                                if arg == 'path' and (kx[0] is not None or ky[0] is not None):
                                    continue
                                if arg in (None, 'other') and kx != ky:
                                    continue
                                for rev in (False, True):
                                    if rev and not (nx == ny or (thorough and kx == ky and arg == 'same')):
                                        continue
                                    labels = {(0, 2): (ax, kx[0], kx[1], arg), (1, 2): (ay, ky[0], ky[1], arg)}
                                    if (0, 1) in edges:
                                        labels[(0, 1)] = (ax, None, 'ref', 'same')
                                    yield ('N', (nx, ny, CONSUMER), stages, edges, rep, agg, labels, {}, rev)


DIRECTS = ('data/in.txt:ref', 'input/f.csv:copy', 'mf/g.txt:ref', 'mf/sub/h.txt:copy', 'app/bin/run:ref',
           '/abs/path/file.txt:ref', 'conf/c.yaml:ref', 'data/{x}:ref', 'mf/{x}/out.txt:ref')
MANIFEST = {'mf': 'src/mf:copy'}
APPDEPS = ['App.application']


def family_directs(thorough):
    """D: X (replicated) -> C with references that are not component references next to the component reference,
    on the consumer, on the producer, one at a time and all together."""
    alpha = ALPHA_THOROUGH if thorough else ALPHA_QUICK
    for nx in alpha:
        for cstage in (0, 1):
            for aggc in (False, True):
                for ab in (False, True):
                    if cstage == 1 and not ab:
                        continue
                    for kind in ((None, 'ref'), ('out.txt', 'ref')) + ((('out.txt', 'copy'),) if thorough else ()):
                        sets = [(d,) for d in DIRECTS] + [DIRECTS]
                        for ds in sets:
                            for where in ((1,), (0,), (0, 1)):
                                if where != (1,) and len(ds) == 1 and not thorough:
                                    continue
                                labels = {(0, 1): (ab, kind[0], kind[1], 'same')}
                                ds2 = tuple(d.replace('{x}', nx) for d in ds)
                                yield ('D', (nx, CONSUMER), (0, cstage), ((0, 1),), (2, None), (False, aggc), labels,
                                       {}, False, dict((w, ds2) for w in where))


def family_paths(thorough):
    """P: replicated producer -> consumer whose command line names two different files under the same reference
    (`X:ref/o.dat X:ref/p.dat`)."""
    for n in (1, 2, 3):
        for cstage in (0, 1):
            for aggc in (False, True):
                for ab in (False, True):
                    if cstage == 1 and not ab:
                        continue
                    for kind in ((None, 'ref'), (None, 'copy')):
                        labels = {(0, 1): (ab, kind[0], kind[1], 'path2')}
                        yield ('P', NEUTRAL[:2], (0, cstage), ((0, 1),), (n, None), (False, aggc), labels, {}, False)


def family_large(thorough):
    """L: replica counts with two-digit indices (copies 10, 11 sort before 2 as text): X -> C and X -> M -> C,
    last component aggregating or not."""
    for n in (10, 11, 12) if thorough else (11,):
        for k in (2, 3):
            edges = tuple((i, i + 1) for i in range(k - 1))
            for stages in ((0,) * k, (0,) * (k - 1) + (1,)):
                for agg_last in (False, True):
                    for ab in (False, True):
                        for kind in ((None, 'ref'), ('out.txt', 'ref')) if k == 2 else ((None, 'ref'),):
                            for arg in ('same', 'path'):
                                if arg == 'path' and kind[0] is not None:
                                    continue
                                if ab and stages[-1] == 1 and k == 2:
                                    continue    # the only edge is cross-stage: already absolute
                                labels = dict((e, (ab, kind[0], kind[1], arg)) for e in edges)
                                yield ('L', NEUTRAL[:k], stages, edges, (n,) + (None,) * (k - 1),
                                       (False,) * (k - 1) + (agg_last,), labels, {}, False)


def family_files(thorough):
    """F: X (replicated) -> C, every path spelling (none, file, nested file, directory with a trailing separator,
    nested directory with a trailing separator) x method."""
    for cstage in (0, 1):
        for aggc in (False, True):
            for ab in (False, True):
                if cstage == 1 and not ab:
                    continue
                for f in (None, 'out.txt', 'd/f', 'd/', 'd/e/'):
                    for m in ('ref', 'copy', 'link') + (('output',) if f in ('out.txt', 'd/f') else ()):
                        for arg in ('same', None) + (('path',) if f is None and m == 'ref' else ()):
                            labels = {(0, 1): (ab, f, m, arg)}
                            yield ('F', NEUTRAL[:2], (0, cstage), ((0, 1),), (2, None), (False, aggc), labels, {},
                                   False)


def case_from_item(item):
    fam, names, stages, edges, rep, agg, labels, forms, rev = item[:9]
    direct = item[9] if len(item) > 9 else None
    case = make_case(names, stages, edges, rep, agg, labels, forms=forms, direct=direct,
                     manifest=MANIFEST if direct else None, appdeps=APPDEPS if direct else None)
    if any(str(f).startswith('P:') for k, f in (forms or {}).items() if k != 'agg'):
        case['platform'] = PLATFORM
    if (forms or {}).get('agg'):
        for c in case['comps']:
            if c['agg']:
                c['agg_form'] = forms['agg']
    if rev:
        for c in case['comps']:
            c['refs'].reverse()
    case['family'] = fam
    return case


def all_items(thorough):
    for fam in (family_structure, family_names, family_directs, family_paths, family_large, family_files):
        for it in fam(thorough):
            yield it
