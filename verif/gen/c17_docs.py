"""Enumerators for C17: launch environments, system variables, default-environment layouts, named-environment
layer templates, component selections; and the FlowIR document that hosts all components of one document-level
configuration."""
import itertools

P = 'P'

# ---- launch environments (every value is a unique token that is not a substring of another one)
LAUNCH = {
    'rich': {'LA': 'launchLA', 'LB': 'launchLB', 'LC': 'launchLC', 'K1': 'launchK1', 'K3': 'launchK3',
             'D1': 'launchD1', 'D4': 'launchD4', 'PATH': '/launch/bin', 'PYTHONPATH': '/launch/py', 'PYTHONHOME': '/launch/home',
             'LD_LIBRARY_PATH': '/launch/lib', 'HOME': '/launch/user', 'UNRELATED': 'launchUNRELATED'},
    'sparse': {'LB': 'launchLB', 'PATH': '/launch/bin', 'LD_LIBRARY_PATH': '/launch/lib', 'K2': 'launchK2',
               'UNRELATED': 'launchUNRELATED'},
    'bare': {'LC': 'launchLC'},
}
LAUNCH_THOROUGH = {
    'pyonly': {'PYTHONPATH': '/launch/py', 'PYTHONHOME': '/launch/home', 'LA': 'launchLA', 'NOPE1': 'launchNOPE1',
               'UNDEF1': 'launchUNDEF1', 'gv': 'launchgv'},
}

SYSTEM = {
    'nosys': {},
    'sys': {'INSTANCE_DIR': '/sys/inst', 'FLOW_RUN_ID': 'sysrun'},
}

GVARS = {'gv': 'gval'}

# ---- the package default environment ("environment"): (layer on default, layer on P)
_DD = {'D1': 'dd1', 'D2': '$D1/${LA}', 'D4': 'dd4'}
_DD_DEF = {'D1': 'dd1', 'D2': '$D1/${LA}', 'D4': '$D1/dd4:$D4', 'DEFAULTS': 'D1:LB:NOPE1:D4'}
_DP = {'D1': 'pd1', 'D3': 'pd3:$LC'}
DEFAULT_ENV = {
    'nodef': (None, None),
    'def-d': (_DD, None),
    'def-d-imports': (_DD_DEF, None),
    'def-p': (None, _DP),
    'def-both': (_DD, _DP),
    'def-both-imports': (_DD_DEF, _DP),
    # a default environment that is DEFINED but has no variables (on one layer or the other)
    'def-d-empty': ({}, None),
    'def-p-empty': (None, {}),
    'def-both-pempty': (_DD, {}),
    'def-dempty-p': ({}, _DP),
}
# the named-environment documents are crossed with these layouts of the default environment (quick / thorough); the documents of the special selections are crossed with every layout in both tiers
NAMED_LAYOUTS_QUICK = ('nodef', 'def-both-imports')
NAMED_LAYOUTS_THOROUGH = ('nodef', 'def-d-imports', 'def-p', 'def-both', 'def-both-imports', 'def-p-empty')

# ---- named environments: layer templates
LAYER_D = {
    'd0': None,
    'de': {},                                                        # defined, but without variables
    'd1': {'K1': 'd1', 'K2': 'd2'},
    'd2': {'K1': 'd1', 'R1': '$K1/x', 'R2': '${K3}y', 'RL': '${LA}:$LB', 'RU': '$UNDEF1/${UNDEF2}'},
    'd3': {'K1': 'd1', 'DEFAULTS': 'LA:LB'},
    'd4': {'K1': 'd1', 'DEFAULTS': 'NOPE1:NOPE2'},
    'd5': {'K1': 'd1', 'LA': 'mine:$LA', 'RL': 'q$LA', 'DEFAULTS': 'LA:NOPE1:K1'},
    'd6': {'K2': 'd2', 'G': '%(gv)s/g', 'RS': '${INSTANCE_DIR}/s'},
    # variables that are declared AND imported, whose values reference OTHER declared+imported variables that the
    # launch environment also defines (listed earlier: K1 before LA; listed later: K3 after LC), next to the
    # self-reference idiom and a reference to an imported-but-undeclared variable
    'dx': {'DEFAULTS': 'K1:LA:LB:LC:K3', 'K1': 'd1', 'LA': '$K1/a:$LA', 'LC': '${K3}/c:$LC', 'K3': 'd3',
           'RB': '$LB/x|$K1'},
}
LAYER_P = {
    'p0': None,
    'pe': {},                                                        # defined, but without variables
    'p1': {'K2': 'p2', 'K3': 'p3'},
    'p2': {'K1': 'p1', 'R3': '$K2|${K1}'},
    'p3': {'K3': 'p3', 'DEFAULTS': 'LC'},
    'p4': {'LA': 'pmine:$LA', 'K1': 'p1:$K1'},
    'p5': {'PATH': '/p/bin:$PATH', 'DEFAULTS': 'PATH:PYTHONPATH'},
}
LAYER_D_THOROUGH = {
    'd7': {'K1': 'd1', 'DEFAULTS': 'LA::LB:'},                      # empty segments
    'd8': {'R1': '${K1}', 'R2': '$R1', 'K1': 'd1'},                 # chain (grey for R2), declared after use
    'd9': {'PYTHONPATH': '/d/py', 'LD_LIBRARY_PATH': '/d/lib:$LD_LIBRARY_PATH', 'DEFAULTS': 'LD_LIBRARY_PATH'},
}
LAYER_P_THOROUGH = {
    'p6': {'DEFAULTS': 'K1:K3:UNRELATED'},
    'p7': {'RU': '$K1$K1', 'K1': 'p1'},
}


# ---- named environments whose names contain no cased character: case normalisation is the identity on them, all
# "spellings" coincide. (name, default-layer template, P-layer template)
CASELESS = [('2024', 'd1', 'p0'), ('3.11', 'd0', 'p1'), ('_', 'd1', 'p1'), ('7-1.0_2', 'dx', 'p3')]
CASELESS_THOROUGH = [('0', 'de', 'p0'), ('__', 'd0', 'pe'), ('1.2.3', 'd2', 'p2'), ('10', 'd5', 'p4')]


def caseless(thorough):
    out = list(CASELESS) + (list(CASELESS_THOROUGH) if thorough else [])
    for name, _, _ in out:
        if name != name.lower() or name != name.upper():
            raise AssertionError('%r is not caseless' % name)
    return out


def env_name(dk, pk):
    return 'myenv%s%s' % (dk[1:], pk[1:])


def spell(name, how):
    """Spellings of an environment name."""
    if how == 'lower':
        return name.lower()
    if how == 'upper':
        return name.upper()
    if how == 'mixed':
        return name[0].upper() + name[1:2] + name[2:3].upper() + name[3:]
    raise ValueError(how)


def layers(thorough):
    d = dict(LAYER_D)
    p = dict(LAYER_P)
    if thorough:
        d.update(LAYER_D_THOROUGH)
        p.update(LAYER_P_THOROUGH)
    return d, p


def doc_configs(thorough):
    """Document-level configurations, simplest first."""
    launch = dict(LAUNCH)
    if thorough:
        launch.update(LAUNCH_THOROUGH)
    flips = (0, 1) if thorough else (0,)
    for flip, sysk, lk, dek, plat in itertools.product(flips, SYSTEM, launch, DEFAULT_ENV, ('default', P)):
        yield {'platform': plat, 'default_env': dek, 'launch': lk, 'system': sysk, 'flip': flip}


def launch_of(cfg):
    return dict(LAUNCH.get(cfg['launch']) or LAUNCH_THOROUGH[cfg['launch']])


def environments_of(cfg, thorough, only=None):
    """The `environments` section: {platform: {spelled name: vars}}. `only` (a set of lower-case names) restricts
    the named environments that are included; the package default environment is always included.

    The spelling used by the *definitions* alternates (lower / mixed / upper) with the template indices and with
    cfg['flip'], and differs between the default-platform layer and the P layer of the same environment."""
    envs = {'default': {}, P: {}}
    dd, dp = DEFAULT_ENV[cfg['default_env']]
    hows = ('lower', 'mixed', 'upper')
    if dd is not None:
        envs['default'][spell('environment', hows[cfg['flip'] % 3])] = dict(dd)
    if dp is not None:
        envs[P][spell('environment', hows[(cfg['flip'] + 1) % 3])] = dict(dp)
    ld, lp = layers(thorough)
    for i, (dk, dv) in enumerate(ld.items()):
        for j, (pk, pv) in enumerate(lp.items()):
            name = env_name(dk, pk)
            if only is not None and name not in only:
                continue
            if dv is not None:
                envs['default'][spell(name, hows[(i + j + cfg['flip']) % 3])] = dict(dv)
            if pv is not None:
                envs[P][spell(name, hows[(i + 2 * j + 1 + cfg['flip']) % 3])] = dict(pv)
    for name, dk, pk in caseless(thorough):
        if only is not None and name not in only:
            continue
        if ld[dk] is not None:
            envs['default'][name] = dict(ld[dk])
        if lp[pk] is not None:
            envs[P][name] = dict(lp[pk])
    return envs


def selections(thorough):
    """(selection kind label, spelled selection or None, via component variable?)"""
    out = [('unset', None, False), ('unset', '', False)]
    for s in ('none', 'NONE', 'None'):
        out.append(('none', s, False))
    for s in ('environment', 'Environment', 'ENVIRONMENT'):
        out.append(('default-by-name', s, False))
    out.append(('default-by-name', 'Environment', True))
    ld, lp = layers(thorough)
    for dk in ld:
        for pk in lp:
            name = env_name(dk, pk)
            for how in ('lower', 'mixed', 'upper'):
                out.append(('named', spell(name, how), False))
            out.append(('named', spell(name, 'mixed'), True))
    for name, _, _ in caseless(thorough):
        out.append(('named', name, False))
        out.append(('named', name, True))
    return out


def components(thorough):
    """All component descriptions hosted by one document: dicts with name, selection, via_var, interpreter."""
    comps = []
    for kind, sel, via in selections(thorough):
        for interp in (False, True):
            if via and interp:
                continue
            if interp and not thorough and sel is not None and sel.isupper() and kind == 'named':
                continue
            comps.append({'name': 'c%04d' % len(comps), 'kind': kind, 'selection': sel, 'via_var': via,
                          'interpreter': interp})
    return comps


def groups(thorough):
    """Components are hosted in several documents per configuration (the product's validation cost grows with
    document size x number of components): one group for the special selections (hosted together with the named
    environments of the first non-absent, non-empty default-layer template, which nobody in that document selects)
    one group per default-platform layer template, and one group for the environments with caseless names.
    Returns [(group kind 'special'|'named', set of lower-case environment names, [components])]."""
    comps = components(thorough)
    ld, lp = layers(thorough)
    company = [dk for dk, dv in ld.items() if dv][0]
    out = [('special', set(env_name(company, pk) for pk in lp), [c for c in comps if c['kind'] != 'named'])]
    for dk in ld:
        names = set(env_name(dk, pk) for pk in lp)
        out.append(('named', names, [c for c in comps if c['kind'] == 'named' and c['selection'].lower() in names]))
    names = set(n for n, _, _ in caseless(thorough))
    out.append(('named', names, [c for c in comps if c['kind'] == 'named' and c['selection'] in names]))
    if sum(len(m) for _, _, m in out) != len(comps):
        raise AssertionError('grouping lost components')
    return out


def flowir_component(c):
    cmd = {'executable': 'ls'}
    comp = {'name': c['name'], 'stage': 0, 'command': cmd}
    if c['via_var']:
        cmd['environment'] = '%(envsel)s'
        comp['variables'] = {'envsel': c['selection']}
    elif c['selection'] is not None:
        cmd['environment'] = c['selection']
    if c['interpreter']:
        cmd['interpreter'] = 'bash'
    return comp


def flowir_doc(cfg, comps, thorough, only=None):
    return {
        'platforms': ['default', P],
        'variables': {'default': {'global': dict(GVARS)}},
        'environments': environments_of(cfg, thorough, only=only),
        'components': [flowir_component(c) for c in comps],
    }
