"""Enumerator of DoWhile document shapes for C05 and their translation into real FlowIR documents.

The shape grammar is documented in verif/oracles/c05_dowhile.py.  Everything here is plain data; nothing imports
`experiment.*`.
"""
import copy
import itertools

OUT_X = 'gen'     # outside producer bound to the (possibly loop-carried) binding x
OUT_Y = 'src'     # outside producer bound to the never-carried binding y
CMDLINE_METHODS = ('ref', 'output', 'loopref', 'loopoutput')   # the only methods FlowIR accepts inside command lines


FILE_AT = {None: (0, 0, 0), 'binding': (1, 1, 0), 'usage': (0, 0, 1), 'loop+usage': (0, 1, 1), 'all': (1, 1, 1),
           'loop': (0, 1, 0), 'orig': (1, 0, 0), 'orig+usage': (1, 0, 1)}   # file on (original binding, loopBinding, usage)


def _files(b):
    o, l, u = FILE_AT[b['file_at']]
    return (b['file'] if o else None, b['file'] if l else None, b['file'] if u else None)


def _args(refs):
    on_cmdline = [r for r in refs if r.rsplit(':', 1)[1] in CMDLINE_METHODS]
    return ' '.join(on_cmdline) if on_cmdline else 'hello'


def _comp(name, ls, uses=(), deps=(), replicate=0, aggregate=False):
    return {'name': name, 'ls': ls, 'uses': list(uses), 'deps': [list(d) for d in deps], 'replicate': replicate,
            'aggregate': aggregate}


def topologies(thorough):
    """Yields (label, comps, cond idx, x-carry options [(label, carried_from idx|None, user idx)], y users).

    deps are [producer idx, spelling, method, file]."""
    A, B, C = 'A', 'B', 'C'
    # 1 looped component
    yield ('one', [_comp(A, 0)], 0, [('nocarry', None, 0), ('self', 0, 0)], [0])
    # 2 looped components, same loop stage, relative / absolute spelling of the inner reference
    yield ('chain-same-rel', [_comp(A, 0), _comp(B, 0, deps=[(0, 'rel', 'ref', None)])], 1,
           [('nocarry', None, 0), ('last2first', 1, 0), ('self', 0, 0)], [1])
    yield ('chain-same-abs', [_comp(A, 0), _comp(B, 0, deps=[(0, 'abs', 'output', None)])], 1,
           [('last2first', 1, 0)], [0, 1])
    # the second component consumes the first one of THIS iteration and, through a loop-carried binding, of the LAST one
    yield ('carry-and-dep', [_comp(A, 0), _comp(B, 0, deps=[(0, 'rel', 'output', None)])], 1,
           [('first2second', 0, 1)], [1])
    # the same component names in two loop stages: the identical text 'prep:output' means another producer in each stage
    yield ('reuse-names', [_comp('prep', 0), _comp('work', 0, deps=[(0, 'rel', 'output', None)]),
                           _comp('prep', 1, deps=[(1, 'abs', 'ref', None)]), _comp('work', 1, deps=[(2, 'rel', 'output', None)])], 3,
           [('last2first', 3, 0), ('nocarry', None, 0)], [1, 3])
    # a loop-carried input produced by a REPLICATED looped component and consumed by an aggregating one
    yield ('rep-carried', [_comp(A, 0, replicate=2), _comp(B, 0, aggregate=True)], 1, [('rep2agg', 0, 1)], [])
    # an original binding to a REPLICATED outside producer, consumed by an aggregating looped component
    yield ('outside-rep', [_comp(A, 0, aggregate=True), _comp(B, 0, deps=[(0, 'rel', 'ref', None)])], 1,
           [('nocarry', None, 0), ('last2first', 1, 0)], [], {OUT_X: 2})
    # 2 looped components over two loop stages
    yield ('chain-2stage', [_comp(A, 0), _comp(B, 1, deps=[(0, 'abs', 'ref', None)])], 1,
           [('nocarry', None, 0), ('self1', 1, 1), ('self0', 0, 0)], [1])
    yield ('chain-2stage-cond-first', [_comp(A, 0), _comp(B, 1, deps=[(0, 'abs', 'copy', 'f.txt')])], 0,
           [('self1', 1, 1)], [0])
    # the shape of tests/test_dowhile.py::test_dowhile_loopbindings_stage_offset (condition in stage 0, carried in 1)
    yield ('indep-2stage', [_comp('stop', 0), _comp('echo', 1)], 0, [('self1', 1, 1)], [])
    # 3 looped components
    yield ('three', [_comp(A, 0), _comp(B, 0, deps=[(0, 'rel', 'ref', None)]),
                     _comp(C, 1, deps=[(1, 'abs', 'ref', None), (0, 'abs', 'output', 'f.txt')])], 2,
           [('self1', 2, 2), ('first', 0, 0), ('nocarry', None, 0)], [1, 2])
    # replicated looped component + aggregating looped component (shape of tests/test_dowhile.py::dw_exp_simple)
    for r in ((1, 2) if thorough else (2,)):
        yield ('replicate%d' % r, [_comp(A, 0, replicate=r), _comp(B, 0, deps=[(0, 'rel', 'output', None)], aggregate=True),
                                  _comp(C, 0, deps=[(1, 'rel', 'output', None)])], 2,
               [('agg2rep', 1, 0), ('nocarry', None, 0)], [2])
    # names that collide as words: digits first, '-' boundary, suffix
    yield ('names-suffix', [_comp(A, 0), _comp('BA', 0, deps=[(0, 'rel', 'ref', None)]),
                            _comp('AB', 1, deps=[(1, 'abs', 'ref', None), (0, 'abs', 'ref', None)])], 2,
           [('last2first', 1, 0)], [2])
    if thorough:
        yield ('reuse-names-3', [_comp('prep', 0), _comp('work', 0, deps=[(0, 'rel', 'ref', 'f.txt')]),
                                 _comp('work', 1, deps=[(1, 'abs', 'output', None)]),
                                 _comp('prep', 2), _comp('work', 2, deps=[(3, 'rel', 'ref', 'f.txt'), (2, 'abs', 'output', None)])], 4,
               [('last2first', 4, 0), ('self0', 1, 1)], [4])
        yield ('names-digit', [_comp('2A', 0), _comp('A2x', 0, deps=[(0, 'rel', 'ref', None)])], 1,
               [('last2first', 1, 0)], [1])
        yield ('three-allstage1', [_comp(A, 1), _comp(B, 1, deps=[(0, 'rel', 'ref', None)]),
                                   _comp(C, 1, deps=[(1, 'rel', 'output', 'f.txt')])], 2,
               [('last2first', 2, 0), ('nocarry', None, 0)], [0])


def binding_variants(thorough):
    """(type, file, file_at) of the binding x."""
    vs = [('output', None, None), ('ref', None, None), ('output', 'f.txt', 'binding'), ('ref', 'f.txt', 'usage')]
    if thorough:
        vs += [('output', 'f.txt', 'usage'), ('ref', 'f.txt', 'binding'), ('copy', None, None)]
    return vs


def file_placement_variants(thorough):
    """More placements of the file name of a LOOP-CARRIED binding: on the loopBinding and (the same name) on the usage
    while the original binding has none, everywhere, only on the loopBinding, only on the original binding, ..."""
    vs = [('ref', 'f.txt', 'loop+usage'), ('output', 'f.txt', 'all'), ('ref', 'f.txt', 'loop'), ('output', 'f.txt', 'orig')]
    if thorough:
        vs += [('output', 'f.txt', 'loop+usage'), ('ref', 'f.txt', 'all'), ('output', 'f.txt', 'loop'), ('ref', 'f.txt', 'orig'),
               ('ref', 'f.txt', 'orig+usage'), ('output', 'f.txt', 'orig+usage')]
    return vs


def build_shape(S, topo, carry, bvar, with_y, store, spell, reloads=()):
    label, comps, cond, _carries, y_users = topo[:5]
    outside_rep = dict(topo[5]) if len(topo) > 5 else {}
    clabel, carried_from, user = carry
    comps = copy.deepcopy(comps)
    btype, bfile, bfile_at = bvar
    bindings = {'xin': {'type': btype, 'outside': OUT_X, 'file': bfile, 'file_at': bfile_at,
                      'carried_from': carried_from, 'spell': spell}}
    comps[user]['uses'].append('xin')
    if with_y and y_users:
        bindings['yin'] = {'type': 'ref', 'outside': OUT_Y, 'file': None, 'file_at': None, 'carried_from': None,
                         'spell': 'abs'}
        for u in y_users:
            comps[u]['uses'].append('yin')
    maxls = max(c['ls'] for c in comps)
    cond_ls = comps[cond]['ls']
    plain = [i for i, c in enumerate(comps) if not c['replicate']]
    consumers = [
        {'name': 'cons-plain', 'stage': S + maxls + 1, 'refs': [[i, 'ref', None] for i in plain]},
        {'name': 'cons-agg', 'stage': S + maxls + 1, 'refs': [[plain[0], 'loopref', None], [cond, 'loopoutput', None]]},
        {'name': 'cons-out', 'stage': S + maxls + 2, 'refs': [[cond, 'output', None], [plain[-1], 'copy', 'f.txt']]},
        {'name': 'cons-same', 'stage': S + maxls, 'refs': [[plain[-1], 'link', None]]},
    ]
    return {'label': '%s/%s%s' % (label, clabel, '/reload' if reloads else ''), 'S': S, 'comps': comps,
            'bindings': bindings, 'cond': cond, 'reloads': list(reloads), 'outside_replicate': outside_rep,
            'cond_file': 'f.txt' if (S + len(comps)) % 2 else None,
            'cond_spell': 'rel' if (cond_ls == 0 and spell == 'rel') else 'abs',
            'consumers': consumers, 'store': store}


def shapes(thorough):
    """The complete, deterministic list of shapes (histories) of a tier (simplest first)."""
    out = []
    seen = set()

    def add(sh):
        key = repr(sh)
        if key not in seen:
            seen.add(key)
            out.append(sh)

    bvs = binding_variants(thorough)
    late = ('reuse-names', 'reuse-names-3', 'rep-carried', 'outside-rep')      # topologies added later: reduced product
    placed = ('one', 'chain-same-rel', 'three') + (('chain-2stage', 'carry-and-dep', 'reuse-names', 'three-allstage1') if thorough else ())
    for topo in topologies(thorough):
        for carry in topo[3]:
            for S in (0, 1):
                for bi, bvar in enumerate(bvs):
                    if topo[0] in late:
                        if bi >= (4 if thorough else 2):
                            continue
                        ys, stores, spells = (bool(topo[4]) and bi % 2 == 1,), (True,), ('abs',)
                    elif thorough:
                        ys = (False, True) if (topo[4] and bi in (0, 3)) else (bool(topo[4]) and bi % 2 == 1,)
                        stores = (True, False) if bi in (0, 2) else (True,)
                        spells = ('abs', 'rel') if (S == 0 and bi == 0) else (('rel',) if (S == 0 and bi == 1) else ('abs',))
                    else:
                        ys = ((bi % 2 == 1) and bool(topo[4]),)
                        stores = ((bi + S) % 4 != 3,)
                        spells = ('rel' if (S == 0 and bi % 2 == 0) else 'abs',)
                    for with_y in ys:
                        for store in stores:
                            for spell in spells:
                                add(build_shape(S, topo, carry, bvar, with_y, store, spell))
                # more placements of the file name of a loop-carried binding
                if carry[1] is not None and topo[0] in placed and (thorough or carry[0] != 'first'):
                    for fi, fvar in enumerate(file_placement_variants(thorough)):
                        if thorough or (fi + S) % 2 == 0:
                            add(build_shape(S, topo, carry, fvar, False, True, 'abs'))
                if topo[0] in late and not (thorough or topo[0] == 'reuse-names'):
                    continue
                # histories with restarts: the instance is loaded again after the listed iterations
                if thorough:
                    plans = [(S, rl) for rl in ((1,), (9, 10), (11, 24))]
                else:
                    plans = [(S, (2, 10))] if S == 1 else []
                for (S_, rl) in plans:
                    add(build_shape(S_, topo, carry, bvs[0], bool(topo[4]), True, 'abs', rl))
    return out


# ------------------------------------------------------------------ translation to FlowIR documents
def _ref_text(stage, producer, fil, method, relative=False):
    t = producer if relative else 'stage%d.%s' % (stage, producer)
    if fil:
        t += '/' + fil
    return '%s:%s' % (t, method)


def _loop_parts(shape, dwfile='dowhile.yaml'):
    """-> (names of outside producers, importing component, consumer components, DoWhile dict) of one loop."""
    S = shape['S']
    comps = shape['comps']
    dw_components = []
    for c in comps:
        refs = []
        for bname in c['uses']:
            b = shape['bindings'][bname]
            refs.append(_ref_text(None, bname, _files(b)[2], b['type'], relative=True))
        for (pi, spelling, method, fil) in c['deps']:
            p = comps[pi]
            refs.append(_ref_text(p['ls'], p['name'], fil, method, relative=(spelling == 'rel' and p['ls'] == c['ls'])))
        d = {'name': c['name'], 'stage': c['ls'],
             'command': {'executable': 'echo', 'arguments': _args(refs)},
             'references': refs}
        if c['ls'] == 0 and len(c['name']) % 2 == 0:
            del d['stage']       # the stage of a looped component defaults to 0
        wa = {}
        if c.get('replicate'):
            wa['replicate'] = c['replicate']
        if c.get('aggregate'):
            wa['aggregate'] = True
        if wa:
            d['workflowAttributes'] = wa
        dw_components.append(d)
    input_bindings, loop_bindings, bindings = {}, {}, {}
    for bname, b in shape['bindings'].items():
        input_bindings[bname] = {'type': b['type']}
        bindings[bname] = _ref_text(0, b['outside'], _files(b)[0], b['type'], relative=(b['spell'] == 'rel' and S == 0))
        if b['carried_from'] is not None:
            p = comps[b['carried_from']]
            loop_bindings[bname] = _ref_text(p['ls'], p['name'], _files(b)[1], b['type'],
                                             relative=(b['spell'] == 'rel' and p['ls'] == 0))
    cond = comps[shape['cond']]
    dw = {'type': 'DoWhile', 'inputBindings': input_bindings,
          'condition': _ref_text(cond['ls'], cond['name'], shape['cond_file'], 'output',
                                 relative=(shape['cond_spell'] == 'rel' and cond['ls'] == 0)),
          'components': dw_components}
    if loop_bindings or len(comps) % 2:
        dw['loopBindings'] = loop_bindings
    outside = sorted({b['outside'] for b in shape['bindings'].values()} | {OUT_X})
    importer = {'stage': S, 'name': shape.get('loop_name', 'loop'), '$import': dwfile, 'bindings': bindings}
    consumers = []
    for cons in shape['consumers']:
        refs = []
        for (pi, method, fil) in cons['refs']:
            p = comps[pi]
            refs.append(_ref_text(S + p['ls'], p['name'], fil, method))
        consumers.append({'stage': cons['stage'], 'name': cons['name'], 'references': refs,
                          'command': {'executable': 'echo', 'arguments': _args(refs)}})
    return outside, importer, consumers, dw


def _outside_component(n, replicate=0):
    c = {'stage': 0, 'name': n, 'command': {'executable': 'echo', 'arguments': n}}
    if replicate:
        c['workflowAttributes'] = {'replicate': replicate}
    return c


def to_documents(shape):
    """-> (main FlowIR dict, {file name under conf/: DoWhile dict}) for single- and multi-loop shapes."""
    if 'loops' not in shape:
        outside, importer, consumers, dw = _loop_parts(shape)
        orep = shape.get('outside_replicate') or {}
        return ({'components': [_outside_component(n, orep.get(n, 0)) for n in outside] + [importer] + consumers},
                {'dowhile.yaml': dw})
    parts = [_loop_parts(loop, 'dw%d.yaml' % j) for j, loop in enumerate(shape['loops'])]
    outside = sorted({n for p in parts for n in p[0]})
    comps = [_outside_component(n) for n in outside]
    comps += [parts[j][1] for j in shape['import_order']]
    for p in parts:
        comps += p[2]
    for cons in shape.get('xconsumers', []):
        refs = []
        for (j, pi, method, fil) in cons['refs']:
            loop = shape['loops'][j]
            c = loop['comps'][pi]
            refs.append(_ref_text(loop['S'] + c['ls'], c['name'], fil, method))
        comps.append({'stage': cons['stage'], 'name': cons['name'], 'references': refs,
                      'command': {'executable': 'echo', 'arguments': _args(refs)}})
    return {'components': comps}, {'dw%d.yaml' % j: parts[j][3] for j in range(len(parts))}


# ------------------------------------------------------------------ several DoWhile documents in one workflow
def _topo(label, thorough=True):
    return [t for t in topologies(thorough) if t[0] == label][0]


def _loop(S, topo_label, carry_label, bvar, names, loop_name, suffix, with_y=False, spell='abs'):
    topo = _topo(topo_label)
    carry = [c for c in topo[3] if c[0] == carry_label][0]
    loop = build_shape(S, topo, carry, bvar, with_y, True, spell)
    for c, n in zip(loop['comps'], names):
        c['name'] = n
    loop['loop_name'] = loop_name
    for cons in loop['consumers']:
        cons['name'] += suffix
    for k in ('store', 'reloads'):
        loop.pop(k, None)
    return loop


def multi_shapes(thorough):
    """Workflows with 2 (3) DoWhile documents whose loops advance independently."""
    bv = binding_variants(True)
    out = []

    def add(label, loops, order, store=True):
        top = max(l['S'] + max(c['ls'] for c in l['comps']) for l in loops)
        refs_plain = [[j, l['cond'], 'ref', None] for j, l in enumerate(loops)]
        refs_agg = [[j, 0, 'loopref', None] for j, l in enumerate(loops)] + [[len(loops) - 1, loops[-1]['cond'], 'loopoutput', 'f.txt']]
        out.append({'label': 'multi/' + label, 'loops': loops, 'import_order': list(order), 'store': store,
                    'xconsumers': [{'name': 'cons-all', 'stage': top + 1, 'refs': refs_plain},
                                   {'name': 'cons-all-agg', 'stage': top + 1, 'refs': refs_agg}]})

    def chain(S, names, lname, sfx, b=0):
        return _loop(S, 'chain-same-rel', 'last2first', bv[b], names, lname, sfx)

    def one(S, names, lname, sfx, b=1):
        return _loop(S, 'one', 'self', bv[b], names, lname, sfx)

    # two chains in consecutive stages, registered in both orders
    add('stages-1-2', [chain(1, ('work', 'stopA'), 'loopA', '-a'), chain(2, ('refine', 'stopB'), 'loopB', '-b')], (0, 1))
    add('stages-1-2/second-first', [chain(1, ('work', 'stopA'), 'loopA', '-a'), chain(2, ('refine', 'stopB'), 'loopB', '-b', 2)], (1, 0))
    # both loops imported into the same stage
    add('same-stage', [one(1, ('A',), 'loopA', '-a'), chain(1, ('C', 'D'), 'loopB', '-b', 3)], (0, 1), store=False)
    # the looped components of the two loops have the same names (in different stages)
    add('same-names', [one(0, ('A',), 'loopA', '-a', 0), one(1, ('A',), 'loopB', '-b', 1)], (0, 1))
    if thorough:
        add('same-names/chains', [chain(0, ('A', 'stop'), 'loopA', '-a'), chain(2, ('A', 'stop'), 'loopB', '-b', 1)], (1, 0))
        add('different-topologies', [one(0, ('A',), 'loopA', '-a'),
                                     _loop(1, 'three', 'self1', bv[0], ('P', 'Q', 'R'), 'loopB', '-b', with_y=True)], (0, 1))
        add('suffix-names', [one(1, ('A',), 'loopA', '-a'), chain(1, ('BA', 'AB'), 'loopB', '-b')], (0, 1))
        add('three-loops', [one(0, ('A',), 'loopA', '-a'), chain(1, ('B', 'C'), 'loopB', '-b'), one(1, ('D',), 'loopC', '-c', 2)], (0, 1, 2))
    return out


def multi_words(shape, thorough):
    """Histories of a multi-loop shape: every word of length L over the loop letters (all interleavings; every prefix is
    judged) plus long schedules in which one loop crosses the 9->10 boundary while another is behind, ahead or in step,
    plus schedules with restarts (R) where the shape stores its FlowIR."""
    n = len(shape['loops'])
    letters = 'ABC'[:n]
    L = (6 if n == 2 else 4) if thorough else 3
    words = [''.join(w) for w in itertools.product(letters, repeat=L)]
    kmax = 24 if thorough else 11
    longs = []
    for a in letters:
        for b in letters:
            if a != b:
                longs.append(a * 2 + b * kmax)               # b far ahead of a (a registered before or after b)
                if thorough or a < b:
                    longs.append(a * kmax + b * 3 + a)       # a ahead, then b catches up a little, then a again
    longs.append((letters * 12)[:n * (12 if thorough else 5)])     # lock step
    if shape['store']:
        longs.append('AAB' + 'R' + 'BBBA' + ('R' + 'B' * 8 + 'A' if thorough else ''))
        longs.append('BBA' + 'R' + 'AAAB')
    seen, out = set(), []
    for w in words + longs:
        if w not in seen:
            seen.add(w)
            out.append(w)
    return out
