"""Enumerator of DoWhile document shapes for C05 and their translation into real FlowIR documents.

The shape grammar is documented in verif/oracles/c05_dowhile.py.  Everything here is plain data; nothing imports
`experiment.*`.
"""
import copy
import itertools

OUT_X = 'gen'     # outside producer bound to the (possibly loop-carried) binding x
OUT_Y = 'src'     # outside producer bound to the never-carried binding y
CMDLINE_METHODS = ('ref', 'output', 'loopref', 'loopoutput')   # the only methods FlowIR accepts inside command lines


def _args(refs):
    on_cmdline = [r for r in refs if r.rsplit(':', 1)[1] in CMDLINE_METHODS]
    return ' '.join(on_cmdline) if on_cmdline else 'hello'


def _comp(name, ls, uses=(), deps=(), replicate=0, aggregate=False):
    return {'name': name, 'ls': ls, 'uses': list(uses), 'deps': [list(d) for d in deps], 'replicate': replicate,
            'aggregate': aggregate}


def topologies(thorough):
    """Yields (label, comps, cond idx, x-carry options [(label, carried_from idx|None, user idx)], y users).

    deps are [producer idx, spelling, method, file]."""
    A, B, C = 'A', 'B', 'C'
    # 1 looped component
    yield ('one', [_comp(A, 0)], 0, [('nocarry', None, 0), ('self', 0, 0)], [0])
    # 2 looped components, same loop stage, relative / absolute spelling of the inner reference
    yield ('chain-same-rel', [_comp(A, 0), _comp(B, 0, deps=[(0, 'rel', 'ref', None)])], 1,
           [('nocarry', None, 0), ('last2first', 1, 0), ('self', 0, 0)], [1])
    yield ('chain-same-abs', [_comp(A, 0), _comp(B, 0, deps=[(0, 'abs', 'output', None)])], 1,
           [('last2first', 1, 0)], [0, 1])
    # 2 looped components over two loop stages
    yield ('chain-2stage', [_comp(A, 0), _comp(B, 1, deps=[(0, 'abs', 'ref', None)])], 1,
           [('nocarry', None, 0), ('self1', 1, 1), ('self0', 0, 0)], [1])
    yield ('chain-2stage-cond-first', [_comp(A, 0), _comp(B, 1, deps=[(0, 'abs', 'copy', 'f.txt')])], 0,
           [('self1', 1, 1)], [0])
    # the shape of tests/test_dowhile.py::test_dowhile_loopbindings_stage_offset (condition in stage 0, carried in 1)
    yield ('indep-2stage', [_comp('stop', 0), _comp('echo', 1)], 0, [('self1', 1, 1)], [])
    # 3 looped components
    yield ('three', [_comp(A, 0), _comp(B, 0, deps=[(0, 'rel', 'ref', None)]),
                     _comp(C, 1, deps=[(1, 'abs', 'ref', None), (0, 'abs', 'output', 'f.txt')])], 2,
           [('self1', 2, 2), ('first', 0, 0), ('nocarry', None, 0)], [1, 2])
    # replicated looped component + aggregating looped component (shape of tests/test_dowhile.py::dw_exp_simple)
    for r in ((1, 2) if thorough else (2,)):
        yield ('replicate%d' % r, [_comp(A, 0, replicate=r), _comp(B, 0, deps=[(0, 'rel', 'output', None)], aggregate=True),
                                  _comp(C, 0, deps=[(1, 'rel', 'output', None)])], 2,
               [('agg2rep', 1, 0), ('nocarry', None, 0)], [2])
    # names that collide as words: digits first, '-' boundary, suffix
    yield ('names-suffix', [_comp(A, 0), _comp('BA', 0, deps=[(0, 'rel', 'ref', None)]),
                            _comp('AB', 1, deps=[(1, 'abs', 'ref', None), (0, 'abs', 'ref', None)])], 2,
           [('last2first', 1, 0)], [2])
    if thorough:
        yield ('names-digit', [_comp('2A', 0), _comp('A2x', 0, deps=[(0, 'rel', 'ref', None)])], 1,
               [('last2first', 1, 0)], [1])
        yield ('three-allstage1', [_comp(A, 1), _comp(B, 1, deps=[(0, 'rel', 'ref', None)]),
                                   _comp(C, 1, deps=[(1, 'rel', 'output', 'f.txt')])], 2,
               [('last2first', 2, 0), ('nocarry', None, 0)], [0])


def binding_variants(thorough):
    """(type, file, file_at) of the binding x."""
    vs = [('output', None, None), ('ref', None, None), ('output', 'f.txt', 'binding'), ('ref', 'f.txt', 'usage')]
    if thorough:
        vs += [('output', 'f.txt', 'usage'), ('ref', 'f.txt', 'binding'), ('copy', None, None)]
    return vs


def build_shape(S, topo, carry, bvar, with_y, store, spell, reloads=()):
    label, comps, cond, _carries, y_users = topo
    clabel, carried_from, user = carry
    comps = copy.deepcopy(comps)
    btype, bfile, bfile_at = bvar
    bindings = {'xin': {'type': btype, 'outside': OUT_X, 'file': bfile, 'file_at': bfile_at,
                      'carried_from': carried_from, 'spell': spell}}
    comps[user]['uses'].append('xin')
    if with_y and y_users:
        bindings['yin'] = {'type': 'ref', 'outside': OUT_Y, 'file': None, 'file_at': None, 'carried_from': None,
                         'spell': 'abs'}
        for u in y_users:
            comps[u]['uses'].append('yin')
    maxls = max(c['ls'] for c in comps)
    cond_ls = comps[cond]['ls']
    plain = [i for i, c in enumerate(comps) if not c['replicate']]
    consumers = [
        {'name': 'cons-plain', 'stage': S + maxls + 1, 'refs': [[i, 'ref', None] for i in plain]},
        {'name': 'cons-agg', 'stage': S + maxls + 1, 'refs': [[plain[0], 'loopref', None], [cond, 'loopoutput', None]]},
        {'name': 'cons-out', 'stage': S + maxls + 2, 'refs': [[cond, 'output', None], [plain[-1], 'copy', 'f.txt']]},
        {'name': 'cons-same', 'stage': S + maxls, 'refs': [[plain[-1], 'link', None]]},
    ]
    return {'label': '%s/%s%s' % (label, clabel, '/reload' if reloads else ''), 'S': S, 'comps': comps,
            'bindings': bindings, 'cond': cond, 'reloads': list(reloads),
            'cond_file': 'f.txt' if (S + len(comps)) % 2 else None,
            'cond_spell': 'rel' if (cond_ls == 0 and spell == 'rel') else 'abs',
            'consumers': consumers, 'store': store}


def shapes(thorough):
    """The complete, deterministic list of shapes (histories) of a tier (simplest first)."""
    out = []
    seen = set()

    def add(sh):
        key = repr(sh)
        if key not in seen:
            seen.add(key)
            out.append(sh)

    bvs = binding_variants(thorough)
    for topo in topologies(thorough):
        for carry in topo[3]:
            for S in (0, 1):
                for bi, bvar in enumerate(bvs):
                    if thorough:
                        ys = (False, True) if (topo[4] and bi in (0, 3)) else (bool(topo[4]) and bi % 2 == 1,)
                        stores = (True, False) if bi in (0, 2) else (True,)
                        spells = ('abs', 'rel') if (S == 0 and bi == 0) else (('rel',) if (S == 0 and bi == 1) else ('abs',))
                    else:
                        ys = ((bi % 2 == 1) and bool(topo[4]),)
                        stores = ((bi + S) % 4 != 3,)
                        spells = ('rel' if (S == 0 and bi % 2 == 0) else 'abs',)
                    for with_y in ys:
                        for store in stores:
                            for spell in spells:
                                add(build_shape(S, topo, carry, bvar, with_y, store, spell))
                # histories with restarts: the instance is loaded again after the listed iterations
                if thorough:
                    plans = [(S, rl) for rl in ((1,), (9, 10), (11, 24))]
                else:
                    plans = [(S, (2, 10))] if S == 1 else []
                for (S_, rl) in plans:
                    add(build_shape(S_, topo, carry, bvs[0], bool(topo[4]), True, 'abs', rl))
    return out


# ------------------------------------------------------------------ translation to FlowIR documents
def _ref_text(stage, producer, fil, method, relative=False):
    t = producer if relative else 'stage%d.%s' % (stage, producer)
    if fil:
        t += '/' + fil
    return '%s:%s' % (t, method)


def to_documents(shape):
    """-> (main FlowIR dict, DoWhile dict)."""
    S = shape['S']
    comps = shape['comps']
    dw_components = []
    for c in comps:
        refs = []
        for bname in c['uses']:
            b = shape['bindings'][bname]
            refs.append(_ref_text(None, bname, b['file'] if b['file_at'] == 'usage' else None, b['type'], relative=True))
        for (pi, spelling, method, fil) in c['deps']:
            p = comps[pi]
            refs.append(_ref_text(p['ls'], p['name'], fil, method, relative=(spelling == 'rel' and p['ls'] == c['ls'])))
        d = {'name': c['name'], 'stage': c['ls'],
             'command': {'executable': 'echo', 'arguments': _args(refs)},
             'references': refs}
        if c['ls'] == 0 and len(c['name']) % 2 == 0:
            del d['stage']       # the stage of a looped component defaults to 0
        wa = {}
        if c.get('replicate'):
            wa['replicate'] = c['replicate']
        if c.get('aggregate'):
            wa['aggregate'] = True
        if wa:
            d['workflowAttributes'] = wa
        dw_components.append(d)
    input_bindings, loop_bindings, bindings = {}, {}, {}
    for bname, b in shape['bindings'].items():
        input_bindings[bname] = {'type': b['type']}
        fil = b['file'] if b['file_at'] == 'binding' else None
        bindings[bname] = _ref_text(0, b['outside'], fil, b['type'], relative=(b['spell'] == 'rel' and S == 0))
        if b['carried_from'] is not None:
            p = comps[b['carried_from']]
            loop_bindings[bname] = _ref_text(p['ls'], p['name'], fil, b['type'],
                                             relative=(b['spell'] == 'rel' and p['ls'] == 0))
    cond = comps[shape['cond']]
    dw = {'type': 'DoWhile', 'inputBindings': input_bindings,
          'condition': _ref_text(cond['ls'], cond['name'], shape['cond_file'], 'output',
                                 relative=(shape['cond_spell'] == 'rel' and cond['ls'] == 0)),
          'components': dw_components}
    if loop_bindings or len(comps) % 2:
        dw['loopBindings'] = loop_bindings
    outside = sorted({b['outside'] for b in shape['bindings'].values()} | {OUT_X})
    main_components = [{'stage': 0, 'name': n, 'command': {'executable': 'echo', 'arguments': n}} for n in outside]
    main_components.append({'stage': S, 'name': 'loop', '$import': 'dowhile.yaml', 'bindings': bindings})
    for cons in shape['consumers']:
        refs = []
        for (pi, method, fil) in cons['refs']:
            p = comps[pi]
            refs.append(_ref_text(S + p['ls'], p['name'], fil, method))
        main_components.append({'stage': cons['stage'], 'name': cons['name'], 'references': refs,
                                'command': {'executable': 'echo', 'arguments': _args(refs)}})
    return {'components': main_components}, dw
