"""C14 — Experiment state files are updated atomically and read back faithfully.

Engine E3 (verif.faultfs): every real writer is run inside a file-operation interposer that numbers the operations of
each update (open / every write / flush / close / rename / remove). For every boundary a crash (incl. torn writes) and
an I/O error are injected, then the REAL loader of the file is run on the scratch directory and its result compared with
the reference history of logical values (verif.oracles.c14_ref).

Targets (writer <-> loader):
  status    Status.update                                   <-> Status.statusFromFile
  outputs   OutputAgent.process_stage -> updateLogs          <-> ConfigurationFileToJson (output.txt),
                                                                 Experiment._parse_outputs_file (output.json)
  details   StatusMonitor.try_generate_status_details        <-> json.load
  instance  FlowIRExperimentConfiguration._generate_instance_files / store_unreplicated_flowir_to_disk
                                                             <-> package_document_load(is_instance) + Manifest.fromFile
                                                                 (+ ExperimentConfigurationFactory on clean histories)
"""
import contextlib
import copy
import json
import os
import shutil

from verif.core.runner import HarnessError
from verif.oracles import c14_ref as ref
from verif.oracles.c14_ref import ABSENT, AWKWARD

PROPERTY = 'C14'
LEVEL = 'fault_enumeration'
RULE = ('For each of the 4 writer/loader pairs (status.txt; output.txt+output.json; status_details.json; '
        'conf/flowir_instance.yaml+manifest.yaml) histories of 4 successive updates with distinct logical values are '
        'executed with the real writer inside the file-operation interposer; every prefix of length 1..4 is judged. '
        'CLEAN: after every update the real loader must return exactly the values written (fidelity); values range over an '
        'alphabet of 17 awkward strings (=, newline, newline+key-looking text, backslash-n, backslashes, %, :, #, leading / '
        'trailing blanks, trailing newline, non-ASCII, [section], tab/CR, quotes, empty) placed in every free-text field of '
        'the format (status: error description under all 4^4 keep/set/set-other/remove sequences; outputs: key-output '
        'name and file name; details: keys and cell text; instance: arguments, component and global variables, manifest '
        'keys/values). FAULTS: for every update k=1..4, under BOTH file models (unbuffered: every write() of the writer '
        'reaches the file at once and is a boundary; buffered: data stays in the process until flush()/close()/8 KiB, as '
        'Python files really behave, so a rename before close is exposed) and for EVERY entry of the recorded write log '
        '(open / write / flush / close / rename / remove): a crash before the entry and, for entries that move data, after '
        'none/half/all-but-the-last byte of it (after the crash nothing else reaches the disk), and an I/O error raised '
        'by the entry (data entries: after none/half of the data) after which the code under test continues and the '
        'remaining updates are performed cleanly and judged. Two further fault classes per boundary: a PERSISTENT I/O error '
        '(from the entry on, every later operation of the same class [data / link / dir / unlink] of the update fails too, '
        'or every later operation at all; for the instance files the quick tier starts them at every entry except the interior '
        'of a run of writes, thorough at every entry) and a TWO-STAGE fault (the one-shot I/O error followed by a crash at '
        'each entry of the error-handling path, i.e. of the operations the writer performed after the error that are not the '
        'resumption of the recorded sequence). Each (target, history, judged update, file, fault, model) '
        'is one evaluation; it is non-trivial when a fault was injected or the history contains an awkward string or '
        'has >=2 updates; distinct = distinct such tuples.')
ASSUMPTIONS = [
    'crash model: the process dies at a Python-level file operation; the kernel is assumed POSIX (rename atomic, data of '
    'completed write() calls visible to a later reader); no reordering of completed operations, no power-loss model',
    'two file models bracket the real buffered file object: unbuffered (every write() call is a crash point and the disk '
    'holds every prefix of the data) and buffered (nothing reaches the disk before flush()/close() or 8 KiB); in the '
    'buffered model data pending at a failed flush()/close() is lost (not retried)',
    'one fault scenario per history: a crash; a one-shot I/O error (every later operation succeeds); an I/O error that '
    'persists until the end of that update (later updates succeed); or a one-shot I/O error followed by a crash inside the '
    'error-handling path of the same update',
    'the statement is judged per file (each file is previous-or-new); no cross-file consistency is required',
    'a missing output.txt / output.json and an empty listing are the same logical value (no key-output produced yet)',
    'output.txt is an INI listing: its values are compared modulo leading/trailing blanks (the format cannot carry them); '
    'output.json, the listing the product loads, is compared exactly',
    'status.txt: awkward strings are only placed in the error description (the only free-text field); states, exit status '
    'and stage names come from their vocabularies; numeric fields are compared by their string form',
    'outputs: key-output names / file names that the reference grammar itself rejects (":" in a file name) or that cannot '
    'be written as an INI section header (newline in a key-output name, the name DEFAULT) are excluded (grey zone)',
    'instance: strings containing %(name)s variable references are excluded (they are FlowIR syntax, not data); the '
    'manifest is written through Manifest() as the product does',
    'a writer that raises a non-I/O exception on a clean update is judged by what the loader then returns (fidelity), '
    'not by the exception itself',
]
EXHAUSTIVE = True

UNLOADABLE = '<UNLOADABLE>'
STAGES = ('stage0', 'stage1')
CREATED = '2026-01-01T000000.000001'


# ====================================================================================== infrastructure
@contextlib.contextmanager
def shadow_in(root):
    """ExperimentShadowDirectory.temporaryShadow is hard-wired to /tmp/chpc-<user>-shadow: relocate it under root."""
    import experiment.model.storage as st
    loc = os.path.join(root, 'shadow')
    os.makedirs(loc, exist_ok=True)
    orig = st.ExperimentShadowDirectory.__dict__['temporaryShadow']
    st.ExperimentShadowDirectory.temporaryShadow = staticmethod(lambda name: st.ExperimentShadowDirectory(name, loc))
    try:
        yield
    finally:
        st.ExperimentShadowDirectory.temporaryShadow = orig


def build_experiment(root, doc):
    from verif.gen.pkg import experiment_from_doc
    with shadow_in(root):
        try:
            return experiment_from_doc(doc, root)
        except Exception as e:
            raise HarnessError('C14 base experiment does not load: %s: %s' % (type(e).__name__, str(e)[:400]))


def unloadable(e):
    return {UNLOADABLE: type(e).__name__}


def is_unloadable(obs):
    return isinstance(obs, dict) and UNLOADABLE in obs


def clear_dir(d, keep=()):
    for n in os.listdir(d):
        if n in keep:
            continue
        p = os.path.join(d, n)
        if os.path.isdir(p) and not os.path.islink(p):
            shutil.rmtree(p)
        else:
            os.remove(p)


def files_snapshot(d):
    out = {}
    for n in os.listdir(d):
        p = os.path.join(d, n)
        if os.path.isfile(p) and not os.path.islink(p):
            with open(p, 'rb') as f:
                out[n] = f.read()
    return out


def files_restore(d, snap, keep=()):
    clear_dir(d, keep=keep)
    for n, b in snap.items():
        if n in keep:
            continue
        with open(os.path.join(d, n), 'wb') as f:
            f.write(b)


def jsonable(obj):
    if isinstance(obj, dict):
        return {(k if isinstance(k, str) else repr(k)): jsonable(v) for k, v in obj.items()}
    if isinstance(obj, (list, tuple)):
        return [jsonable(v) for v in obj]
    if obj is None or isinstance(obj, (str, int, float, bool)):
        return obj
    return repr(obj)


def short(obj, limit=1500):
    obj = jsonable(obj)
    s = json.dumps(obj, sort_keys=True, ensure_ascii=True)
    return obj if len(s) <= limit else s[:limit] + '...'


# ====================================================================================== targets
class Target:
    name = None
    files = ()           # labels of the judged files
    clean_only = ()      # labels observed only after clean updates (expensive loaders)
    n_updates = 4

    def reset(self):
        raise NotImplementedError

    def do_update(self, j):
        """Runs update j with the real writer. Returns an 'acknowledged' flag (True / False / None = not reported)."""
        raise NotImplementedError

    def after_update(self, j):
        pass

    def snapshot(self):
        """State (files + the writer's memory) after a clean prefix, so that fault runs need not re-execute it."""
        raise NotImplementedError

    def restore(self, snap):
        raise NotImplementedError

    def expected(self, label, j):
        raise NotImplementedError

    def observe(self, label):
        raise NotImplementedError

    def path_of(self, label):
        raise NotImplementedError

    def matches(self, label, obs, exp):
        return obs == exp

    def shape(self, label, obs, exps):
        if is_unloadable(obs):
            return 'unloadable:%s' % obs[UNLOADABLE]
        if obs == ABSENT:
            return 'absent'
        return 'other-value'

    def awkward(self):
        return True


class StatusTarget(Target):
    """params: {'actions': [4 of keep|s|t|remove], 's': label, 't': label}"""
    name = 'status'
    files = ('status.txt',)

    def __init__(self, root, params):
        import experiment.model.data
        self.cls = experiment.model.data.Status
        self.params = params
        self.dir = os.path.join(root, 'output')
        os.makedirs(self.dir, exist_ok=True)
        self.path = os.path.join(self.dir, 'status.txt')
        self.history = ref.status_history(params['actions'], AWKWARD[params['s']], AWKWARD[params['t']], STAGES)
        self.n_updates = len(self.history)
        self.reset()

    def reset(self):
        clear_dir(self.dir)
        # the way Experiment.__init__ creates it
        self.st = self.cls(self.path, {}, list(STAGES))
        self.st.setCreated(CREATED)
        self.dyn = {}

    def do_update(self, j):
        st, u = self.st, self.history[j - 1]
        try:
            self._set(st, u)
        except Exception as e:
            raise HarnessError('a Status setter rejected a value of the reference history: %r' % (e,))
        return st.update()

    @staticmethod
    def _set(st, u):
        st.setCurrentStage(u['current-stage'])
        st.setStageState(u['stage-state'])
        st.setExperimentState(u['experiment-state'])
        st.setStageProgress(u['stage-progress'])
        st.setTotalProgress(u['total-progress'])
        st.setCost(u['cost'])
        st.setExitStatus(u['exit-status'])
        if 'completed-on' in u:
            st.setCompleted(u['completed-on'])
        d = u['error-description']
        if d == '<REMOVE>':
            st.removeErrorDescription()
        elif d != '<KEEP>':
            st.setErrorDescription(d)

    def path_of(self, label):
        return self.path

    def after_update(self, j):
        self.dyn[j] = '%s' % (self.st.data['updated-on'],)

    def snapshot(self):
        return files_snapshot(self.dir), copy.deepcopy(self.st.data), dict(self.dyn)

    def restore(self, snap):
        files_restore(self.dir, snap[0])
        self.st = self.cls(self.path, {}, list(STAGES))
        self.st.data = copy.deepcopy(snap[1])
        self.dyn = dict(snap[2])

    def expected(self, label, j):
        e = ref.status_expected(self.history, j, STAGES, CREATED)
        if e != ABSENT:
            e['updated-on'] = e['updated'] = self.dyn[j]
        return e

    def observe(self, label):
        if not os.path.lexists(self.path):
            return ABSENT
        try:
            st = self.cls.statusFromFile(self.path)
            return {k: (v if isinstance(v, (str, list)) else '%s' % (v,)) for k, v in st.data.items()}
        except Exception as e:
            return unloadable(e)

    def matches(self, label, obs, exp):
        if exp == ABSENT or obs == ABSENT or is_unloadable(obs):
            return obs == exp
        return all(obs.get(k, ABSENT) == v for k, v in exp.items())

    def shape(self, label, obs, exps):
        if is_unloadable(obs) or obs == ABSENT:
            return Target.shape(self, label, obs, exps)
        # closest expected version: the one with the fewest differing keys
        best = None
        for exp in exps:
            if exp == ABSENT:
                continue
            diff = sorted(k for k, v in exp.items() if obs.get(k, ABSENT) != v)
            if best is None or len(diff) < len(best[0]):
                best = (diff, exp)
        if best is None:
            return 'present-but-should-be-absent'
        diff, exp = best
        if diff == ['error-description']:
            want, got = exp['error-description'], obs.get('error-description', ABSENT)
            if want == ABSENT:
                return 'description-not-removed'
            if got == ABSENT:
                return 'description-lost'
            if ref.escape_depth(want, got):
                return 'description-escaped-again'
            if got == want.strip():
                return 'description-blank-stripped'
            return 'description-other'
        return 'other-value:' + ','.join(diff[:4])

    def awkward(self):
        return self.params['s'] != 'plain' or self.params['t'] != 'plain'


OUT_NAMES = {'plain': 'Energy', 'equals': 'a=b', 'blank-inside': 'band gap', 'percent': 'yield%', 'colon': 'a:b',
             'hash': 'a#b', 'non-ascii': 'énergie-€', 'section': '[sec]', 'bracket': 'a]b',
             'backslash-n': 'a\\nb', 'leading-blank': ' lead', 'trailing-blank': 'trail ', 'upper-lower': 'ENERGY'}
OUT_FILES = {'plain': 'out.csv', 'equals': 'a=b.txt', 'blank-inside': 'my results.txt', 'percent': 'yield_50%.txt',
             'hash': 'a#b', 'hash-first': '#hash', 'non-ascii': 'résumé.txt', 'section': '[sec]',
             'backslash-n': 'a\\nb', 'nested': 'sub/dir/f.txt', 'leading-blank': ' lead.txt', 'trailing-blank': 'trail ',
             'semicolon': 'a;b.txt'}


class OutputTarget(Target):
    """params: {'name': label in OUT_NAMES, 'file': label in OUT_FILES, 'seq': [stage processed by update j]}"""
    name = 'outputs'
    files = ('output.txt', 'output.json')

    def __init__(self, root, params):
        import experiment.model.conf
        import experiment.model.data
        import experiment.runtime.output
        self.params = params
        self.kname, self.fname = OUT_NAMES[params['name']], OUT_FILES[params['file']]
        self.seq = list(params['seq'])
        self.n_updates = len(self.seq)
        doc = {'components': [
            {'name': 'comp', 'stage': 0, 'command': {'executable': 'ls'}},
            {'name': 'last', 'stage': 1, 'command': {'executable': 'ls', 'arguments': 'stage0.comp:ref'},
             'references': ['stage0.comp:ref']}],
            'output': {self.kname: {'data-in': 'stage0.comp/%s:copy' % self.fname},
                       'second': {'data-in': 'last/second.txt:copy', 'stages': [1]}}}
        self.exp = build_experiment(root, doc)
        self.conf_to_json = experiment.model.conf.ConfigurationFileToJson
        self.parse_outputs = experiment.model.data.Experiment._parse_outputs_file
        try:
            self.agent = experiment.runtime.output.OutputAgent(self.exp)
        except Exception as e:
            raise HarnessError('OutputAgent rejected the base experiment: %r' % (e,))
        self.inst = self.exp.instanceDirectory.location
        self.outdir = os.path.realpath(self.exp.instanceDirectory.outputDir)
        if not self.outdir.startswith(os.path.realpath(root) + os.sep):
            raise HarnessError('output directory %s is outside the scratch root' % self.outdir)
        self.paths, self.spec = {}, {}
        for key, stage in ((self.kname, 0), ('second', 1)):
            loc = self.agent.dataReferences[key]['references'][stage].location(self.exp.experimentGraph)
            os.makedirs(os.path.dirname(loc), exist_ok=True)
            with open(loc, 'w') as f:
                f.write('data')
            self.paths[key] = loc
            self.spec[key] = {'stages': [stage], 'relpath': os.path.relpath(loc, self.inst)}
        if os.path.basename(self.paths[self.kname]) != os.path.basename(self.fname):
            raise HarnessError('reference machinery maps %r to %r' % (self.fname, self.paths[self.kname]))
        self.mtimes = [{self.kname: 1600000000.0 + 1000.25 * j, 'second': 1600000000.0 + 1000.25 * j + 0.5}
                       for j in range(1, self.n_updates + 1)]
        self.reset()

    def reset(self):
        clear_dir(self.outdir, keep=('status.txt',))
        self.agent.parse_key_outputs()

    def snapshot(self):
        return files_snapshot(self.outdir), {k: copy.deepcopy(v['status']) for k, v in self.agent.dataReferences.items()}

    def restore(self, snap):
        files_restore(self.outdir, snap[0], keep=('status.txt',))
        self.agent.parse_key_outputs()
        for k, v in snap[1].items():
            self.agent.dataReferences[k]['status'] = copy.deepcopy(v)

    def do_update(self, j):
        for key, p in self.paths.items():
            os.utime(p, (self.mtimes[j - 1][key],) * 2)
        self.agent.process_stage(self.seq[j - 1])
        return None

    def path_of(self, label):
        return os.path.join(self.outdir, label)

    def expected(self, label, j):
        state = ref.outputs_expected(self.spec, self.seq, j, self.mtimes)
        return ref.outputs_as_txt_view(state) if label == 'output.txt' else ref.outputs_as_json_view(state)

    def observe(self, label):
        p = os.path.join(self.outdir, label)
        if not os.path.lexists(p):
            return ABSENT
        try:
            if label == 'output.txt':
                return json.loads(self.conf_to_json(p))
            return self.parse_outputs(p)
        except Exception as e:
            return unloadable(e)

    @staticmethod
    def ini_view(exp):
        # an INI value cannot carry leading / trailing blanks: output.txt is compared modulo those (output.json is not)
        return exp if exp == ABSENT else {n: {k: v.strip() for k, v in e.items()} for n, e in exp.items()}

    def matches(self, label, obs, exp):
        empty = (ABSENT, {})
        if obs in empty and exp in empty:
            return True
        if label == 'output.txt':
            exp = self.ini_view(exp)
        return obs == exp

    def shape(self, label, obs, exps):
        if is_unloadable(obs) or obs == ABSENT:
            return Target.shape(self, label, obs, exps)
        if label == 'output.txt':
            exps = [self.ini_view(e) for e in exps]
        for exp in exps:
            if exp == ABSENT or set(exp) != set(obs):
                continue
            diffs = set()
            for n in exp:
                for k, v in exp[n].items():
                    got = obs[n].get(k, ABSENT)
                    if got != v:
                        diffs.add('%s-blank-stripped' % k if isinstance(v, str) and got == v.strip() else '%s-differs' % k)
            if diffs:
                return ','.join(sorted(diffs))
        names = [sorted(e) for e in exps if e != ABSENT]
        if names and all(sorted(obs) != n for n in names):
            if any(sorted(x.strip() for x in n) == sorted(obs) for n in names):
                return 'name-blank-stripped'
            return 'names-differ'
        return 'other-value'

    def awkward(self):
        return self.params['name'] != 'plain' or self.params['file'] != 'plain'


class _DB:
    value = None

    def getWorkflowStatus(self, json_friendly=True):
        return json.loads(json.dumps(self.value)) if self.value is not None else None


class DetailsTarget(Target):
    """params: {'s': label}"""
    name = 'details'
    files = ('status_details.json',)

    def __init__(self, root, params):
        import experiment.runtime.output
        self.params = params
        doc = {'components': [{'name': 'comp', 'stage': 0, 'command': {'executable': 'ls'}}]}
        self.exp = build_experiment(root, doc)
        self.sm = experiment.runtime.output.StatusMonitor(self.exp, report_components=False)
        self.db = _DB()
        self.sm.set_status_database(self.db)
        self.outdir = os.path.realpath(self.exp.instanceDirectory.outputDir)
        if not self.outdir.startswith(os.path.realpath(root) + os.sep):
            raise HarnessError('output directory %s is outside the scratch root' % self.outdir)
        self.path = os.path.join(self.outdir, 'status_details.json')
        self.values = [ref.details_value(j, AWKWARD[params['s']]) for j in range(1, self.n_updates + 1)]
        self.reset()

    def reset(self):
        clear_dir(self.outdir, keep=('status.txt',))

    def snapshot(self):
        return (files_snapshot(self.outdir),)

    def restore(self, snap):
        files_restore(self.outdir, snap[0], keep=('status.txt',))

    def do_update(self, j):
        self.db.value = self.values[j - 1]
        self.sm.try_generate_status_details()
        return None

    def path_of(self, label):
        return self.path

    def expected(self, label, j):
        return ref.details_expected(self.values, j)

    def observe(self, label):
        if not os.path.lexists(self.path):
            return ABSENT
        try:
            with open(self.path) as f:
                return json.load(f)
        except Exception as e:
            return unloadable(e)

    def awkward(self):
        return self.params['s'] != 'plain'


class InstanceTarget(Target):
    """params: {'kinds': ['gen'|'store', ...] (first must be gen), 'strings': [labels]}"""
    name = 'instance'
    files = ('flowir_instance.yaml', 'manifest.yaml')
    clean_only = ('instance(full loader)',)
    BASE_COMPONENTS = {'comp': {'stage': 0, 'arguments': '-l', 'w': None}}
    BASE_GLOBALS = {'v': 'x'}

    def __init__(self, root, params):
        import experiment.model.conf
        import experiment.model.frontends.flowir
        self.flowir = experiment.model.frontends.flowir
        self.factory = experiment.model.conf.ExperimentConfigurationFactory
        self.params = params
        if params['kinds'][0] != 'gen':
            raise HarnessError('the first update of an instance history creates both files')
        doc = {'components': [{'name': 'comp', 'stage': 0, 'command': {'executable': 'ls', 'arguments': '-l'}}],
               'variables': {'default': {'global': {'v': 'x'}}}}
        self.exp = build_experiment(root, doc)
        self.inst = self.exp.instanceDirectory.location
        self.confdir = os.path.join(self.inst, 'conf')
        self.conf = self.exp.configuration
        self.pristine = self.conf._unreplicated.copy()
        self.updates = ref.instance_updates(params['kinds'], [AWKWARD[s] for s in params['strings']])
        self.n_updates = len(self.updates)
        self.memo = {}
        self.manifests = [ref.manifest_value(j + 1, u['string']) for j, u in enumerate(self.updates)]
        self.paths = {'flowir_instance.yaml': os.path.join(self.confdir, 'flowir_instance.yaml'),
                      'manifest.yaml': os.path.join(self.confdir, 'manifest.yaml')}
        for p in self.paths.values():
            if not os.path.isfile(p):
                raise HarnessError('instance creation did not produce %s' % p)
        self.reset()

    def reset(self):
        # the state just before the instance files are written for the first time
        clear_dir(self.confdir, keep=('flowir_package.yaml',))
        self.conf._unreplicated = self.pristine.copy()

    def snapshot(self):
        return files_snapshot(self.confdir), self.conf._unreplicated.copy(), self.conf._manifest

    def restore(self, snap):
        files_restore(self.confdir, snap[0], keep=('flowir_package.yaml',))
        self.conf._unreplicated = snap[1].copy()
        self.conf._manifest = snap[2]

    def do_update(self, j):
        u = self.updates[j - 1]
        un = self.conf._unreplicated
        # what WorkflowGraph does when a DoWhile iteration adds components, plus a changed variable
        un.add_component({'name': u['component'], 'stage': 0, 'command': {'executable': 'echo', 'arguments': u['string']},
                          'variables': {'w': u['string']}})
        un.set_platform_global_variable('g', u['string'], 'default')
        if u['kind'] == 'gen':
            self.conf._manifest = self.flowir.Manifest(self.manifests[j - 1])
            errors = []
            self.conf._generate_instance_files(True, True, errors)
            if errors:
                raise errors[0]
        else:
            self.conf.store_unreplicated_flowir_to_disk()
        return None

    def path_of(self, label):
        return self.paths[label]

    def expected(self, label, j):
        if label == 'manifest.yaml':
            return ref.manifest_expected(self.updates, j, self.manifests)
        return ref.instance_expected(self.updates, j, self.BASE_COMPONENTS, self.BASE_GLOBALS)

    @staticmethod
    def project(root):
        comps = {}
        for c in root.get('components') or []:
            comps[c.get('name')] = {'stage': c.get('stage'), 'arguments': (c.get('command') or {}).get('arguments'),
                                    'w': (c.get('variables') or {}).get('w')}
        glob = (((root.get('variables') or {}).get('default') or {}).get('global') or {})
        return {'components': comps, 'globals': dict(glob)}

    def observe(self, label):
        if label == 'manifest.yaml':
            p = self.paths[label]
            if not os.path.lexists(p):
                return ABSENT
            try:
                return self.flowir.Manifest.fromFile(p).manifestData
            except Exception as e:
                return unloadable(e)
        p = self.paths['flowir_instance.yaml']
        if not os.path.lexists(p):
            return ABSENT
        try:
            if label == 'flowir_instance.yaml':
                # the loader is a function of the file content: identical contents (e.g. "crash before write k" and
                # "ENOSPC in write k with nothing written") are loaded once
                with open(p, 'rb') as f:
                    content = f.read()
                if content not in self.memo:
                    try:
                        root, _docs = self.flowir.package_document_load(p, True)
                        self.memo[content] = self.project(root)
                    except Exception as e:
                        self.memo[content] = unloadable(e)
                return self.memo[content]
            chosen = {}
            c = self.factory.configurationForExperiment(
                self.inst, is_instance=True, createInstanceFiles=False, updateInstanceFiles=False, primitive=True,
                variable_substitute=False, out_chosen_format=chosen)
            if chosen.get('is-instance') is not True:
                return {UNLOADABLE: 'fell-back-to-package'}
            return self.project(c.get_flowir_concrete(return_copy=False).raw())
        except Exception as e:
            return unloadable(e)

    def shape(self, label, obs, exps):
        if is_unloadable(obs) or obs == ABSENT:
            return Target.shape(self, label, obs, exps)
        if label == 'manifest.yaml':
            return 'partial' if any(e != ABSENT and set(obs) < set(e) for e in exps) else 'other-value'
        for e in exps:
            if e != ABSENT and set(obs.get('components', {})) < set(e['components']):
                return 'partial'
            if e != ABSENT and set(obs.get('components', {})) == set(e['components']):
                return 'field-differs'
        return 'other-value'

    def awkward(self):
        return any(s != 'plain' for s in self.params['strings'])


TARGETS = {'status': StatusTarget, 'outputs': OutputTarget, 'details': DetailsTarget, 'instance': InstanceTarget}


# ====================================================================================== execution + judgement
def reference_update(target, k, snaps, buffered):
    """(write log, {file: bytes}) of a clean update k executed from exactly the state every fault run of update k starts
    from (pristine state for k = 1, else the restored snapshot of the clean prefix 1..k-1), under the given file model."""
    from verif.faultfs import FaultFS
    if k == 1:
        target.reset()
    else:
        target.restore(snaps[k - 1])
    with FaultFS(target.root, buffered=buffered) as fs:
        try:
            target.do_update(k)
        except Exception:
            pass            # judged in the clean run
        finally:
            target.after_update(k)
    return fs.log, target.snapshot()[0]


def short_log(log):
    """The log with paths reduced to their last two components (instance directory names are random)."""
    from verif.faultfs import Op
    return [Op(o.index, o.name, os.sep.join(o.path.split(os.sep)[-2:]), o.size) for o in log]


def run_history(col, target, fault=None, k=None, judge_clean=True, log_of=None, snaps=None, full_bytes=None,
                buffered=False, strict=True):
    """Executes updates 1..n of target's history; `fault` (verif.faultfs.Fault) is injected in update k.

    clean run (fault None): every update is judged for fidelity when judge_clean; returns {j: write log of update j}.
    crash run:  updates 1..k-1 clean (not judged), update k crashes, judged, stop.
    ioerror run: updates 1..k-1 clean (not judged), update k with the error, judged; updates k+1..n clean, judged."""
    from verif.faultfs import FaultFS, Crash, describe_fault
    from verif.faultfs.interposer import InterposerError
    root = target.root
    base = {'target': target.name, 'params': target.params}
    logs = {}
    landed = {}          # label -> the expected version found on disk after the previous judged update (fault runs)
    n = target.n_updates
    first = 1
    if fault is not None and snaps is not None and k > 1:
        target.restore(snaps[k - 1])      # == the state after the clean updates 1..k-1
        first = k
    else:
        target.reset()
    for j in range(first, n + 1):
        this_fault = fault if (fault is not None and j == k) else None
        crashed, raised, ack = False, None, None
        with FaultFS(root, this_fault, buffered=buffered) as fs:
            try:
                ack = target.do_update(j)
            except Crash:
                crashed = True
            except HarnessError:
                raise
            except InterposerError as e:
                raise HarnessError('interposer: %s' % e)
            except Exception as e:       # an exception escaping the writer is an observation, not a harness problem
                raised = e
            finally:
                target.after_update(j)
        logs[j] = fs.log
        if fault is None and snaps is not None:
            snaps[j] = target.snapshot()
        if this_fault is not None:
            if not fs.fired:
                raise HarnessError('fault %r was not reached in update %d of %s %r (log has %d entries)'
                                   % (this_fault, j, target.name, target.params, len(fs.log)))
            if this_fault.then_crash is not None and not fs.crash_fired and strict:
                raise HarnessError('fault %r: the crash entry was not reached (log has %d entries)' % (this_fault, len(fs.log)))
            if crashed != (this_fault.kind == 'crash' or fs.crash_fired):
                raise HarnessError('fault %r: crashed=%s' % (this_fault, crashed))
        elif crashed:
            raise HarnessError('Crash without a fault')
        if fault is not None and j < k:
            continue
        if fault is None and not judge_clean:
            continue
        # ---------------- judge update j
        if this_fault is not None:
            op = log_of[this_fault.op] if log_of is not None else fs.log[this_fault.op]
            mode = '%s@%s' % (fault_kind(this_fault), op.name)
            fault_file = os.path.basename(op.path)
        elif fault is not None:
            op = log_of[fault.op] if log_of is not None else None
            mode = 'after-%s@%s' % (fault_kind(fault), op.name if op else '?')
            fault_file = os.path.basename(op.path) if op else None
        else:
            mode, fault_file = 'clean', None
        labels = list(target.files) + (list(target.clean_only) if (this_fault is None and fault is None) else [])
        for label in labels:
            col.evaluated()
            case = dict(base, k=k, fault=fault.to_json() if fault is not None else None, judged_update=j, file=label,
                        mode=mode, fault_file=fault_file, buffered=buffered)
            if fault is not None or j >= 2 or target.awkward():
                col.nontriv([target.name, target.params, j, label, case['fault'], k, buffered])
            obs = target.observe(label)
            new = target.expected(label if label in target.files else target.files[0], j)
            prev = target.expected(label if label in target.files else target.files[0], j - 1)
            if this_fault is None:
                accept = [new]
                # an update that does not change this file's logical value (e.g. the manifest in a 'store' update) need not
                # rewrite it: what an earlier failed update legitimately left there is still acceptable
                if fault is not None and new == prev and landed.get(label) is not None:
                    accept.append(landed[label])
            else:
                accept = [prev, new]
                if this_fault.kind == 'ioerror' and ack is True:
                    accept = [new]        # the writer reported success: the new version must be what is on disk
            hit = [i for i, e in enumerate(accept) if target.matches(label, obs, e)]
            landed[label] = accept[hit[0]] if hit else None
            if hit:
                which = 'new' if accept[hit[0]] is new else 'prev'
                if len(accept) == 2 and target.matches(label, obs, prev) and target.matches(label, obs, new):
                    which = 'prev=new'
                extra = '+raised' if raised is not None and this_fault is not None else ''
                col.outcome('%s:%s:%s%s:%s%s' % (target.name, label, 'buffered-' if buffered and fault is not None else '', mode, which, extra))
                continue
            shp = target.shape(label, obs, accept)
            torn = None
            if fault is not None and full_bytes is not None and label in target.files:
                # is the file on disk a proper prefix of what the complete update k writes? (signature of a file that
                # is written in place, or of a torn temporary file that was renamed over the target)
                full = full_bytes.get(label)
                disk = None
                if os.path.isfile(target.path_of(label)):
                    with open(target.path_of(label), 'rb') as fh:
                        disk = fh.read()
                torn = bool(full is not None and disk is not None and len(disk) < len(full) and full.startswith(disk))
            if raised is not None and this_fault is None:
                shp = 'update-raised:%s:%s' % (type(raised).__name__, shp)
            # the signature groups failures by defect shape; the precise mode / shape are in case['mode'], observed['shape']
            sig = '%s:%s:%s:%s' % (target.name, label, 'clean' if fault is None else 'fault', 'torn' if torn else coarse(shp))
            col.outcome('FAIL:%s:%s:%s%s:%s' % (target.name, label, 'buffered-' if buffered and fault is not None else '', mode, coarse(shp)))
            if this_fault is not None:
                what = describe_fault(this_fault, short_log(log_of if log_of is not None else fs.log))
                if this_fault.then_crash is not None:
                    cop = short_log(fs.log)[this_fault.then_crash]
                    what += ' = %s(%s)' % (cop.name, cop.path)
                why = ('%s %s: after a %s in update %d [%s file model] the loader returns neither the previous nor the '
                       'new version (%s)' % (target.name, label, what, j, 'buffered' if buffered else 'unbuffered', shp))
            elif fault is not None:
                why = ('%s %s: update %d, performed after update %d had suffered an I/O error, does not read back as '
                       'written (%s)' % (target.name, label, j, k, shp))
            else:
                why = ('%s %s: after %d clean update(s) the loader does not return the values last written (%s)'
                       % (target.name, label, j, shp))
            col.fail(case, why, {'loader_returned': short(obs), 'previous': short(prev), 'new': short(new),
                                 'writer_raised': repr(raised)[:300] if raised is not None else None,
                                 'acknowledged': ack, 'shape': shp, 'disk_is_proper_prefix_of_new_content': torn}, sig=sig)
        if crashed:
            break
    return logs


def fault_kind(fault):
    """'crash' | 'ioerror' | 'ioerror-persistent-class' | 'ioerror-persistent-all' | 'ioerror-then-crash'"""
    if fault.kind == 'ioerror' and fault.then_crash is not None:
        return 'ioerror-then-crash'
    if fault.kind == 'ioerror' and fault.persist:
        return 'ioerror-persistent-%s' % fault.persist
    return fault.kind


def coarse(shp):
    if shp.startswith('unloadable'):
        return 'unloadable'
    if shp.startswith('update-raised:'):
        return ':'.join(shp.split(':')[:2])
    if shp.startswith('other-value'):
        return 'other-value'
    if all(t.endswith('-blank-stripped') for t in shp.split(',')):
        return 'blank-stripped'
    return shp


def make_target(root, name, params):
    t = TARGETS[name](root, params)
    t.root = root
    return t


def worker(col, item, tier, seed):
    """item: {'target', 'params', 'faults': None | list of update indices k, 'judge_clean': bool}"""
    from verif.faultfs import Fault, enumerate_faults, enumerate_persistent_faults, error_path_entries
    from verif.gen.pkg import scratch_dir
    thorough = tier == 'thorough'
    with scratch_dir('c14-') as root:
        variants = item.get('variants') or [item['params']]
        for vi, params in enumerate(variants):
            sub = os.path.join(root, 'v%d' % vi)
            os.makedirs(sub)
            target = make_target(sub, item['target'], params)
            snaps = {} if item.get('faults') else None
            logs = run_history(col, target, judge_clean=item.get('judge_clean', True), snaps=snaps)
            col.count('clean_histories')
            if vi == 0:
                col.sample({'target': item['target'], 'params': params, 'updates': target.n_updates,
                            'write_log_of_update_1': [op.as_list()[1:] for op in logs[1]][:12]})
            for k in item.get('faults') or []:
                for buffered in (False, True):
                    log, full_bytes = reference_update(target, k, snaps, buffered)
                    sl, of = item.get('slice', (0, 1))
                    if sl == 0:
                        col.count('write_log_entries_buffered' if buffered else 'write_log_entries', len(log))
                    for fault in enumerate_faults(log, both_errnos=thorough)[sl::of]:
                        flogs = run_history(col, target, fault=fault, k=k, log_of=log, snaps=snaps, full_bytes=full_bytes,
                                            buffered=buffered)
                        col.count('faults_injected')
                        col.count('crash_points' if fault.kind == 'crash' else 'io_errors')
                        if fault.kind != 'ioerror':
                            continue
                        # second stage: the process dies at an entry of the path the writer took BECAUSE of the error
                        for m in error_path_entries(log, fault, flogs[k]):
                            two = Fault('ioerror', fault.op, fault.prefix, fault.err, then_crash=m)
                            run_history(col, target, fault=two, k=k, log_of=log, snaps=snaps, full_bytes=full_bytes,
                                        buffered=buffered)
                            col.count('faults_injected')
                            col.count('error_path_crash_points')
                    # errors that persist: the retry / clean-up of the writer fails as well
                    edges = item['target'] == 'instance' and not thorough
                    for fault in enumerate_persistent_faults(log, edges_only=edges)[sl::of]:
                        run_history(col, target, fault=fault, k=k, log_of=log, snaps=snaps, full_bytes=full_bytes,
                                    buffered=buffered)
                        col.count('faults_injected')
                        col.count('persistent_io_errors')
            shutil.rmtree(sub, ignore_errors=True)
    # keep a few examples per failure class and work item (all failures stay counted in n_failures / known_counts), so
    # that one prolific class cannot crowd the others out of the runner's bounded list of examples
    seen, kept = {}, []
    for f in col.failures:
        seen[f['sig']] = seen.get(f['sig'], 0) + 1
        if seen[f['sig']] <= 2:
            kept.append(f)
    col.failures = kept


def status_items(thorough):
    items = []
    labels = list(AWKWARD)
    # fidelity: every awkward string x every keep/set/set-other/remove sequence of length 4
    seqs = [list(a) for a in ref.status_action_sequences(4)]
    for s in labels:
        t = 'backslash-n' if s != 'backslash-n' else 'newline'
        chunk = 64
        for i in range(0, len(seqs), chunk):
            items.append({'target': 'status', 'judge_clean': True, 'faults': None,
                          'variants': [{'actions': a, 's': s, 't': t} for a in seqs[i:i + chunk]]})
    # faults
    fault_strings = labels if thorough else ['plain', 'newline', 'non-ascii', 'keylike-line']
    fault_actions = [['s', 'keep', 'keep', 'keep'], ['s', 't', 's', 't'], ['keep', 's', 'remove', 's'], ['s', 'keep', 't', 'keep']]
    for s in fault_strings:
        for a in fault_actions:
            items.append({'target': 'status', 'judge_clean': False, 'faults': [1, 2, 3, 4],
                          'params': {'actions': a, 's': s, 't': 'plain' if s != 'plain' else 'equals'}})
    return items


def output_items(thorough):
    items = []
    seq = [0, 0, 1, 1]
    for n in OUT_NAMES:
        items.append({'target': 'outputs', 'judge_clean': True, 'faults': None, 'params': {'name': n, 'file': 'plain', 'seq': seq}})
    for f in OUT_FILES:
        if f != 'plain':
            items.append({'target': 'outputs', 'judge_clean': True, 'faults': None, 'params': {'name': 'plain', 'file': f, 'seq': seq}})
    combos = [('plain', 'plain'), ('equals', 'non-ascii'), ('section', 'blank-inside')]
    if thorough:
        combos += [('non-ascii', 'equals'), ('hash', 'hash'), ('colon', 'nested')]
    for n, f in combos:
        for sq in ([seq, [1, 0, 1, 0]] if thorough else [seq]):
            for k in (1, 2, 3, 4):
                items.append({'target': 'outputs', 'judge_clean': False, 'faults': [k], 'params': {'name': n, 'file': f, 'seq': sq}})
    return items


def details_items(thorough):
    items = [{'target': 'details', 'judge_clean': True, 'faults': None, 'params': {'s': s}} for s in AWKWARD]
    for s in (list(AWKWARD) if thorough else ['plain', 'newline', 'non-ascii']):
        for k in (1, 2, 3, 4):
            items.append({'target': 'details', 'judge_clean': False, 'faults': [k], 'params': {'s': s}})
    return items


def instance_items(thorough):
    items = []
    labels = list(AWKWARD)
    kind_seqs = [['gen', 'store', 'gen', 'store'], ['gen', 'gen', 'store', 'store']]
    if thorough:
        kind_seqs = [['gen', a, b, c] for a in ('store', 'gen') for b in ('store', 'gen') for c in ('store', 'gen')]
    for ki, kinds in enumerate(kind_seqs):
        for i in range(0, len(labels), 4):
            strings = (labels[i:i + 4] + labels[:4])[:4]
            items.append({'target': 'instance', 'judge_clean': True, 'faults': None, 'params': {'kinds': kinds, 'strings': strings}})
    fault_sets = [(['gen', 'store', 'gen', 'store'], ['plain', 'newline', 'non-ascii', 'colon'])]
    if thorough:
        fault_sets += [(['gen', 'gen', 'store', 'store'], ['hash', 'quotes', 'leading-blank', 'percent']),
                       (['gen', 'store', 'store', 'gen'], ['section', 'empty', 'backslash-n', 'equals'])]
    for kinds, strings in fault_sets:
        for k in (1, 2, 3, 4):
            for sl in range(4):       # the faults of one update are spread over 4 work items (load balance only)
                items.append({'target': 'instance', 'judge_clean': False, 'faults': [k], 'slice': (sl, 4),
                              'params': {'kinds': kinds, 'strings': strings}})
    return items


def all_items(thorough):
    return instance_items(thorough) + output_items(thorough) + details_items(thorough) + status_items(thorough)


def run(ctx):
    items = all_items(ctx.thorough)
    ctx.count('work_items', len(items))
    ctx.pmap('verif.props.c14', 'worker', items)


def replay(ctx, case):
    from verif.faultfs import Fault
    from verif.gen.pkg import scratch_dir
    with scratch_dir('c14-') as root:
        target = make_target(root, case['target'], case['params'])
        if case.get('fault') is None:
            run_history(_Only(ctx, case), target)
        else:
            snaps = {}
            logs = run_history(_Only(ctx, None), target, judge_clean=False, snaps=snaps)
            buffered = bool(case.get('buffered'))
            log, full_bytes = reference_update(target, case['k'], snaps, buffered)
            # strict=False: on a tree whose error-handling path no longer has the recorded crash entry the case is judged
            # as the plain I/O error it then is (instead of a harness error)
            run_history(_Only(ctx, case), target, fault=Fault.from_json(case['fault']), k=case['k'], log_of=log,
                        snaps=snaps, full_bytes=full_bytes, buffered=buffered, strict=False)


class _Only:
    """Collector proxy for replay: forwards only the failure of the judged (update, file) of the replayed case."""

    def __init__(self, col, case):
        self._col, self._case = col, case

    def __getattr__(self, n):
        return getattr(self._col, n)

    def fail(self, case, why, observed=None, sig=None):
        c = self._case
        if c is not None and case.get('judged_update') == c.get('judged_update') and case.get('file') == c.get('file'):
            self._col.fail(case, why, observed, sig)


# ====================================================================================== known-finding selectors
DATA_OPS = ('write', 'flush', 'close')      # operations that move data into the file (flush / close: buffered model)


def _shape(f):
    return (f.get('observed') or {}).get('shape') or ''


def _mode_op(f):
    """('crash' | 'ioerror' | 'after-ioerror' | 'clean', op name or None)"""
    m = f['case'].get('mode', '')
    return tuple(m.split('@', 1)) if '@' in m else (m, None)


def _escapable(label):
    return ref.unicode_escape(AWKWARD[label]) != AWKWARD[label]


def _sel_status_escaped_again(f):
    """Status.writeToStream escapes the description inside self.data, so every later write escapes it once more."""
    c = f['case']
    return (c['target'] == 'status' and _shape(f) == 'description-escaped-again'
            and (_escapable(c['params']['s']) or _escapable(c['params']['t'])))


def _sel_status_blank_stripped(f):
    """Status.__init__ strips every value that statusFromFile hands it, including the free-text description."""
    c = f['case']
    return (c['target'] == 'status' and _shape(f) == 'description-blank-stripped'
            and (c['params']['s'] in ref.BLANK_EDGED or c['params']['t'] in ref.BLANK_EDGED))


def _sel_outputs_percent(f):
    """output.json is produced by re-reading output.txt with an interpolating ConfigParser: a '%' in a value raises."""
    c = f['case']
    return (c['target'] == 'outputs' and ('%' in OUT_FILES[c['params']['file']])
            and 'InterpolationSyntaxError' in _shape(f))


def _sel_outputs_blank_stripped(f):
    """the INI round trip strips leading / trailing blanks of file names."""
    c = f['case']
    shp = _shape(f)
    return (c['target'] == 'outputs' and c['params']['file'] in ('leading-blank', 'trailing-blank')
            and bool(shp) and all(t in ('filename-blank-stripped', 'filepath-blank-stripped') for t in shp.split(',')))


def _sel_details_renamed_after_failed_write(f):
    """try_generate_status_details renames the temporary file over status_details.json although writing it failed."""
    c = f['case']
    kind, op = _mode_op(f)
    return (c['target'] == 'details' and kind == 'ioerror' and op in DATA_OPS
            and _shape(f).startswith('unloadable:') and (f['observed'] or {}).get('disk_is_proper_prefix_of_new_content') is True)


def _in_place(label):
    def sel(f):
        c = f['case']
        kind, op = _mode_op(f)
        shp = _shape(f)
        return (c['target'] == 'instance' and c['file'] == label and c.get('fault_file') == label
                and kind in ('crash', 'ioerror', 'after-ioerror') and op in DATA_OPS
                and (shp.startswith('unloadable:') or shp in ('partial', 'field-differs', 'other-value', 'absent'))
                and (f['observed'] or {}).get('disk_is_proper_prefix_of_new_content') is True)
    return sel


KNOWN_SELECTORS = {
    'status_description_escaped_again': _sel_status_escaped_again,
    'status_description_blank_stripped': _sel_status_blank_stripped,
    'outputs_percent_in_file_name': _sel_outputs_percent,
    'outputs_file_name_blank_stripped': _sel_outputs_blank_stripped,
    'details_renamed_after_failed_write': _sel_details_renamed_after_failed_write,
    'flowir_instance_written_in_place': _in_place('flowir_instance.yaml'),
    'manifest_written_in_place': _in_place('manifest.yaml'),
}
