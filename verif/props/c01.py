"""C01 — see DESIGN.md §3 C01. Driver, scenarios, reference model and judges live in verif/vsched/ctl.py."""
from verif.vsched import ctl

PROPERTY = 'C01'
LEVEL = 'model_checking'
EXHAUSTIVE = True
RULE = ('Stateless exploration of the REAL Controller/ComponentState/Engine/RepeatingEngine/monitor classes under a controlled '
        'scheduler. Scenario = workflow DAG (chain, fan-in, diamond, cross-stage, same-stage observer, cross-stage observer, '
        'replicated+aggregating) x exit-reason script per component (success / shutdown-listed / unrecoverable / restartable / '
        'failed submission; every single assignment and every pair). Every scenario is executed on the canonical fair schedule; '
        'for the listed core scenarios ALL schedules with <=1 deviation (running a younger activity first, a task exiting '
        'early, a timer/poll firing early) are executed to completion. The invariant is evaluated at every task launch and '
        'every ComponentState.run(). distinct = distinct (scenario, choice prefix); non-trivial = all (each has >=2 components).')
ASSUMPTIONS = [
    'scheduling points are the blocking/synchronisation operations of the runtime (rx scheduler hops, Event.wait, sleep, '
    'lock acquisition, task wait, thread start); preemption inside an atomic region is not explored (GIL-level data races are out of scope)',
    'task backend, wall clock, file-system output listing and the system-stability tracker are scripted stand-ins',
    'deviation bound 1 completed for the core scenarios; all other scenarios only on the canonical schedule',
    'optimizer, hybrid mode, memoization and completion-check hooks are off',
]
MC_EXPLANATION = ('states = distinct fingerprints (component controller states, engine exit reasons, restart counters, comp_done, '
                  'staged set, pending-activity multiset, live tasks) seen at choice points; transitions = scheduling steps executed; '
                  'traces_validated_against_impl = complete executions of the implementation (there is no separate model: every '
                  'trace is an implementation trace)')


def run(ctx):
    ctl.run(ctx, 'C01')


def replay(ctx, case):
    ctl.replay(ctx, 'C01', case)
