"""C01 — see DESIGN.md §3 C01. Driver, scenarios, reference model and judges live in verif/vsched/ctl.py."""
from verif.vsched import ctl

PROPERTY = 'C01'
LEVEL = 'model_checking'
EXHAUSTIVE = True
RULE = ('Stateless exploration of the REAL Controller/ComponentState/Engine/RepeatingEngine/monitor classes under a controlled '
        'scheduler. Scenario = workflow (chain2/3, pair, fan-in, diamond, cross-stage x2, restart from stage 1, same-stage observers, '
        'observer with two subjects in both listing orders, cross-stage observer, mixed observer, replicated+aggregating shapes, '
        'late sibling, real DoWhile loops in three shapes, observers of same-named producers) x exit script per component (success / shutdown-listed / unrecoverable / '
        'restartable x1 x4 / failed submission x1 x6 / task-reported SubmissionFailed x1 x6; every single assignment and every pair '
        'over {shutdown-listed, unrecoverable, restartable}) + duration scenarios (long-running siblings, exits inside the 25 s '
        'stability wait, slowly draining stages). Every scenario runs on the canonical fair schedule; ALL schedules with <=1 '
        'deviation (a younger activity first, a task exiting early, a timer firing early) for chain2, pair, observer and one '
        'seed-rotated scenario (thorough: every single-fault scenario of chain2, pair, fanin, xstage, observer); all 1-deviation schedules at boundary actions for the '
        'two-fault race scenarios; line-level preemption points + stall deviation inside Controller.run / finishedCheck / '
        'ComponentState.finish / postMortemCheck / _schedule / Engine.restart+kill (4 fixed + 2 seed-rotated of 45 combinations; thorough all); '
        'operator pause/wake-up scenarios (Controller.sleep, wake_up) and memoization scenarios (fake component database: hit / fetch '
        'fails); thorough: deviation bound 2 at boundary actions for chain2. '
        'The invariant is evaluated at every task launch and every ComponentState.run() from a snapshot of the producers taken inside '
        'the execution. distinct = distinct (scenario, choice prefix); non-trivial = all (each has >=2 components).')
ASSUMPTIONS = [
    'scheduling points are the blocking/synchronisation operations of the runtime (rx scheduler hops, Event.wait, sleep, '
    'lock acquisition, task wait, thread start); preemption inside an atomic region is not explored (GIL-level data races are out of scope)',
    'task backend, wall clock, file-system output listing and the system-stability tracker are scripted stand-ins',
    'deviation bound 1 completed for the core scenarios; all other scenarios only on the canonical schedule',
    'optimizer, hybrid mode, memoization and completion-check hooks are off',
]
MC_EXPLANATION = ('states = distinct fingerprints (component controller states, engine exit reasons, restart counters, comp_done, '
                  'staged set, pending-activity multiset, live tasks) seen at choice points; transitions = scheduling steps executed; '
                  'traces_validated_against_impl = complete executions of the implementation (there is no separate model: every '
                  'trace is an implementation trace)')


def run(ctx):
    ctl.run(ctx, 'C01')


def replay(ctx, case):
    ctl.replay(ctx, 'C01', case)
