"""C16 — Memoization hashes identify equivalent work and nothing else.

Every enumerated *world* (a complete small workflow + the files it consumes / has produced + where and when its
instance was created) is realised as a real experiment instance on disk; `memoization_hash` and
`memoization_hash_fuzzy` of every component are read from the real ComponentSpecification objects.  Independently,
verif/oracles/c16_memo.py computes a canonical work descriptor of every component from the world (never from the
product).  The oracle is the comparison of two partitions of all (world, component) records:

    strong:  descriptors equal  <=>  strong hashes equal (and present)
    fuzzy :  fz_hi equal => fuzzy hashes equal;  fz_lo different => fuzzy hashes different
    missing: a component one of whose own referenced files is missing has no strong hash (and no fuzzy hash when the
             missing file is not produced by a component)

judged for every designated (parent world, single-aspect variant) pair and, through the partitions, for every other
pair of records of the run.
"""
import copy
import itertools

from verif.core.runner import HarnessError, canon
from verif.gen import c16_worlds as G
from verif.oracles import c16_memo as M

PROPERTY = 'C16'
LEVEL = 'exploration'
EXHAUSTIVE = True

RULE = ('14 base workflows (mentions: a consumer whose command line mentions a produced file three times and a data '
        'file twice; dirchain: P -> Q consuming the directory of P -> C consuming the directory of Q; direct: one component consuming a data file inside its arguments plus a :copy file; one: '
        'consumer of a file of one producer; chain: producer -> producer -> consumer; two: consumer of two producers '
        'named A-B and B; dir / dircopy: consumer of the working directory of a producer inside / outside its '
        'arguments; k8s: direct with a container image; ext: direct with an absolute path outside the instance; bin / '
        'binone: direct / one with pathless executables that are scripts shipped in bin/ and found through an '
        'environment PATH=$INSTANCE_DIR/bin:$PATH, validated with checkExecutables=True so that they are resolved; '
        'stdout / streams: consumer of `<producer>:output` of a plain / a repeating producer whose streams/<n>.stdout '
        'hold the last 5 of 1,2,5,10,11,12,14,100,101,104,1001 repetitions - same most recent output under every '
        'history, most recent output changed, all older outputs changed, no output yet) x '
        'every single-aspect variation of the tables in verif/gen/c16_worlds.py::variations (relevant: executable (4), '
        'every literal part of the arguments changed/extended/dropped, token appended/prepended, two references '
        'exchanged, content of every consumed file (first/last byte flipped, byte appended, emptied, 5000 bytes, last '
        'of 5000 bytes; long files of 4096/4097/65536/65537/204800 bytes [thorough also 8192/65535/70000/131073/'
        '1048577] changed at the last byte, at byte 65536 and in the middle, each compared with the unchanged file of '
        'the same size), reference method, backend x image (kubernetes/lsf/docker/local x 2 images), consumed file '
        'added/removed, value of a used variable; producers: executable / arguments / image / input changed with the '
        'produced files unchanged, produced file content changed, produced file renamed; irrelevant: 10 component '
        'names, 7 producer names, stage index (+1, same stage with relative references, all stages +1), stage names, '
        'absolute/relative spelling, every permutation of the reference list, unused variables (component/global/'
        'stage), 5 resource requests, instance directory (2 depths, package name, instance name, no timestamp, '
        'reloaded from the instance, moved then reloaded, executables checked/resolved or not), file times (2001/2033; modification times against the natural name order, with it, rotated), unrelated component / data file, '
        'same content under another name / under input / at another absolute path, value spelled through a '
        'variable; missing: every consumed file and every upstream file removed, also upstream of working-directory '
        'references (dir, dirchain): the consumer must then have no hash; history: each of those files missing when '
        'the hashes are first read and present afterwards - the hashes read then must be those of the complete world) + the ambiguity alphabet '
        '(executable x arguments over concatenations of {a, executable}; ("ab","c")/("a","bc"); executable x file list '
        'with executables that contain "files<md5>:method"; image x arguments with "commandarguments" inside). '
        'thorough adds every pair of variations of two different aspect families per base in which at least one '
        'aspect is not of the irrelevant kind, a fixed third of the pairs of two irrelevant aspects (long files and '
        'stream contents are only varied alone) and a larger ambiguity alphabet; VERIF_SEED rotates a 1/64 stratum of those pairs into the quick tier. Every world is a separate '
        'real instance. A case = one (parent, variant) pair, non-trivial when the two worlds differ; distinct = '
        'distinct (base, variation path); all other pairs of records (every component of every world, producers '
        'included) are judged through the partition comparison (counted in all_pairs_judged). For every component of '
        'every world the consumers of the hash are observed too: the runtime wrapper ComponentState.memoization_hash'
        '[_fuzzy] and Controller.can_memoize() against an in-memory component database holding the components of a '
        'past run of the same world (hash fields "" where there is no hash, the convention of the product) and an '
        'unrelated never-finished component: no lookup / no reuse while an input is missing, a reused component must '
        'have an equal work descriptor. Worlds that the '
        'product\'s loader / validator refuses (e.g. a :ref reference that is not used in the arguments) are counted '
        'and not judged.')

ASSUMPTIONS = [
    'a reference to the working directory of a producer stands for what the producer does; while an input of that '
    'producer is missing the producer cannot be identified, so the missing file is (transitively) an input the consumer '
    'depends on and the consumer must have no hash (the code says the same: "Producer %s does not have a %s hash"); '
    'not enumerated for dircopy (accepted known finding: that reference leaves no trace at all)',
    'after a missing input has appeared the hashes are read from the same ComponentSpecification objects without the '
    'harness calling memoization_reset(): a hash that identifies the work cannot stay the one computed while the input was missing',
    '`<producer>:output` (no file) refers to what the producer printed: out.stdout, and for a repeating producer the '
    'archived output of its most recent repetition = streams/<index>.stdout with the highest NUMERIC index (docstring of '
    'ComponentSpecification.path_to_stdout); such worlds are validated after the outputs were written, because on HEAD '
    'validateExperiment() raises AttributeError for this kind of reference while no stream exists; left-over temp_<n>.stdout '
    'files of an interrupted archive_stream are not in the alphabet',
    '"no hash is produced" is also judged where the hash is consumed: Controller.can_memoize(ComponentState) must not query '
    'the component database nor return a candidate for a component one of whose own inputs is missing (fuzzy: when the '
    'missing file is not produced by a component); documents without a hash carry "" (Experiment.annotate_component_documents)',
    'the work descriptor is written from the statement: executable (after variable interpolation), the argument string '
    'split into literal runs and references, each reference identified by (content, method); the multiset of consumed '
    '(content, method); the image. File names, reference spelling, names and stages are not part of it',
    'resource request / resource manager options other than the image, unused variables, the order of the reference '
    'list and file times are taken to be irrelevant because the statement lists what a hash depends on ("exactly when")',
    'the same image on kubernetes and on lsf (dockerImage) is "the same container image"; lsf without dockerImage and '
    'the local backend are "no image"',
    'a reference to the working DIRECTORY of a producer is identified by (producer descriptor, directory listing, '
    'method); the generator changes the producer and the directory contents together, never only one of them',
    'fuzzy hash: own executable / arguments / image / methods / contents of files no component produces and the fuzzy '
    'identity of producers must matter (fz_lo); the name of the consumed file inside the producer may matter (fz_hi); '
    'when a producer has no fuzzy identity (its input is missing) the consumer\'s fuzzy hash is not judged',
    'a component whose own inputs are all present but whose upstream producer misses an input is expected to keep its '
    'strong hash (the statement only speaks about the contents the component itself refers to)',
    'not in the alphabet (grey): literal arguments that spell a replaced reference ("file:<md5>:ref"), references to '
    'directories that no component produces, environments that differ between the compared components (the one '
    'environment of the bin bases is constant), the content of an executable script, executables written as paths, replicas, custom '
    'embedding functions, blanks inside file names, copy/link of a file under a changed file name',
    '"time" is realised as file modification times (2001 / 2033) and the creation time in the instance name',
    'two different contents with the same hash (md5 collisions) are not in the alphabet',
]

IRRELEVANT_GROUPS = {'name', 'pname', 'stage', 'stagename', 'spelling', 'order', 'unused', 'resources', 'location', 'time',
                     'neighbours', 'filename', 'indirection', 'checkexe', 'history', 'oldstream', 'appeared'}
RELEVANT_GROUPS = {'exe', 'args', 'content', 'bigcontent', 'method', 'usedvar', 'refs', 'latest'}
NO_SECOND_LEVEL = {'bigcontent', 'latest', 'oldstream'}     # only varied alone (cost)

import verif.core.runner as _runner
_runner.Collector.MAX_FAIL = max(_runner.Collector.MAX_FAIL, 5000)


# ------------------------------------------------------------------ enumeration
def world_table(thorough, seed):
    """-> list of entries {'wid', 'parents': [wid], 'base', 'groups': [..], 'label', 'world'} in deterministic order."""
    table = []
    G.THOROUGH = bool(thorough)
    for bn, bw in G.bases().items():
        table.append({'wid': bn, 'parents': [], 'base': bn, 'groups': [], 'label': 'base', 'world': bw})
        singles = []
        for v in G.variations(bn, bw):
            group, label, w = v[:3]
            singles.append((group, label, w))
            table.append({'wid': '%s|%s' % (bn, label), 'parents': ['%s|%s' % (bn, v[3]) if len(v) > 3 else bn], 'base': bn,
                          'groups': [group], 'label': label, 'world': w})
        # second level: a variation applied to a variant (pairs of different aspect families)
        k = 0
        for g1, l1, w1 in singles:
            if g1 in NO_SECOND_LEVEL:
                continue
            for g2, l2, w2 in (v[:3] for v in G.variations(bn, w1)):
                if g2 == g1 or (g2, l2) <= (g1, l1) or g2 in NO_SECOND_LEVEL:
                    continue
                if ('%s|%s' % (bn, l2)) not in _single_ids(bn, singles):
                    continue   # a variation that only exists on the variant (keeps both parents well defined)
                k += 1
                if not thorough and (k + seed) % 64 != 0:
                    continue
                if thorough and g1 in IRRELEVANT_GROUPS and g2 in IRRELEVANT_GROUPS and k % 3 != 0:
                    continue        # cost: a fixed third of the pairs of two irrelevant aspects
                if not thorough and (g1 == 'missing' or g2 == 'missing'):
                    continue
                table.append({'wid': '%s|%s|%s' % (bn, l1, l2), 'parents': ['%s|%s' % (bn, l1), '%s|%s' % (bn, l2)],
                              'base': bn, 'groups': [g1, g2], 'label': '%s + %s' % (l1, l2), 'world': w2,
                              'stratum': not thorough})
    for i, (label, w) in enumerate(G.ambiguity_worlds(thorough)):
        table.append({'wid': 'amb|%d' % i, 'parents': [], 'base': 'amb', 'groups': [label], 'label': label, 'world': w})
    return table


_SID = {}


def _single_ids(bn, singles):
    k = (bn, len(singles))
    if k not in _SID:
        _SID[k] = set('%s|%s' % (bn, l) for _, l, _ in singles)
    return _SID[k]


def observe_world(world):
    """Realises one world, returns {comp: record} with the oracle's descriptors and the observed hashes."""
    import contextlib
    from verif.gen.pkg import scratch_dir
    d = M.Descriptors(world)

    @contextlib.contextmanager
    def world_dir():
        # inside the directory of the run, so that nothing is left behind when the pool is torn down after an error
        if G.EXT_ROOT is None:
            with scratch_dir('c16-') as r:
                yield r
            return
        import shutil
        import tempfile
        r = tempfile.mkdtemp(prefix='w-', dir=G.EXT_ROOT)
        try:
            yield r
        finally:
            shutil.rmtree(r, ignore_errors=True)
    with world_dir() as root:
        try:
            obs = G.realise(world, root)
        except G.Rejected as e:
            return {'_rejected': str(e)}
    out = {}
    for c in world['comps']:
        n = c['name']
        rec = d.record(n)
        rec.update({'h': obs[n]['strong'], 'f': obs[n]['fuzzy'], 'info': obs[n]['info'], 'info_fuzzy': obs[n]['info_fuzzy'],
                    'feat': M.features(world, n), 'exe': d._exe(c), 'wrapper': obs[n]['wrapper'], 'lookup': obs[n]['lookup']})
        out[n] = rec
    for n, rec in out.items():
        rec['chain'] = {u: {'declared_exe': out[u]['exe'], 'strong_hash': out[u]['h'], 'fuzzy_hash': out[u]['f'],
                            'info_exe': (out[u]['info'] or {}).get('command', {}).get('executable') if isinstance(out[u]['info'], dict) else None,
                            'inputs_missing': out[u]['own_missing']}
                        for u in rec['feat']['upstream_and_self']}
    return out


def worker(col, item, tier, seed):
    for wid, world in item:
        col.payload.append((wid, observe_world(world)))
        col.traces += 1


# ------------------------------------------------------------------ judging
def judge_pair(kind, ra, rb):
    """-> None | (shape, why). kind: 'strong' | 'fuzzy'."""
    if kind == 'strong':
        ka, kb, ha, hb = ra['strong'], rb['strong'], ra['h'], rb['h']
        if ka is None or kb is None:
            return None
        if ka == kb:
            if ha != hb:
                if ha is None or hb is None:
                    return ('no-hash-but-same-work', 'same work (equal descriptors, all inputs present) but one component has no strong hash: %r vs %r' % (ha, hb))
                return ('differs-but-same-work', 'same work (equal descriptors) but different strong hashes %s vs %s' % (ha, hb))
            return None
        if ha is not None and ha == hb:
            return ('same-hash-but-different-work', 'different work (descriptors differ) but the same strong hash %s' % ha)
        return None
    fa, fb = ra['f'], rb['f']
    if ra['fz_hi'] is not None and rb['fz_hi'] is not None and ra['fz_hi'] == rb['fz_hi'] and fa != fb:
        if fa is None or fb is None:
            return ('no-hash-but-same-work', 'equal fuzzy descriptors but one component has no fuzzy hash: %r vs %r' % (fa, fb))
        return ('differs-but-same-work', 'equal fuzzy descriptors (differences only in what the fuzzy hash must ignore) but fuzzy hashes %s vs %s' % (fa, fb))
    if ra['fz_lo'] is not None and rb['fz_lo'] is not None and ra['fz_lo'] != rb['fz_lo'] and fa is not None and fa == fb:
        return ('same-hash-but-different-work', 'fuzzy descriptors differ (own definition or a producer\'s fuzzy identity) but the same fuzzy hash %s' % fa)
    return None


def judge_record(r):
    out = []
    if r['strong_missing'] and r['h'] is not None:
        out.append(('strong', 'hash-while-input-missing', 'a referenced input is missing but a strong hash %s was produced' % r['h']))
    if r['fz_missing_direct'] and r['f'] is not None:
        out.append(('fuzzy', 'hash-while-input-missing', 'a referenced file that no component produces is missing but a fuzzy hash %s was produced' % r['f']))
    return out


def judge_runtime(recs, cn):
    """What the consumer of the hashes does (Controller.can_memoize on the runtime wrapper of the component) against a
    database that holds the components of a past run of the same world and one unrelated, never finished component.
    -> [(kind, shape, why)], label"""
    r = recs[cn]
    out, labels = [], []
    for kind, missing, key_eq, key_ne in (('strong', r['strong_missing'], 'strong', 'strong'),
                                          ('fuzzy', r['fz_missing_direct'], 'fz_hi', 'fz_lo')):
        lk = r['lookup'][kind]
        m = lk['matched']
        if missing:
            if m is not None or lk['queries']:
                out.append((kind, 'lookup-while-input-missing',
                            'a referenced input is missing (no %s hash may exist) but the controller looked up the component database '
                            'with %r and %s' % (kind, lk['queries'], 'would reuse the results of %s' % m if m else 'found nothing')))
            else:
                labels.append('%s: no lookup while an input is missing' % kind)
            continue
        if m is None:
            labels.append('%s: no candidate' % kind)
            continue
        other = recs.get(m)
        if other is None:
            out.append((kind, 'reuse-of-unrelated-component', 'the controller would reuse the results of the unrelated, never '
                        'finished component (queries %r)' % (lk['queries'],)))
        elif r[key_ne] is not None and other[key_ne] is not None and r[key_ne] != other[key_ne]:
            out.append((kind, 'reuse-of-different-work', 'the controller would reuse the results of %s whose work descriptor '
                        'differs (queries %r)' % (m, lk['queries'])))
        else:
            labels.append('%s: reuses equivalent work' % kind)
    return out, '; '.join(labels)


def slim(r):
    return {'wrapper': r.get('wrapper'), 'lookup': r.get('lookup'), 'strong_hash': r['h'], 'fuzzy_hash': r['f'], 'info': r['info'], 'info_fuzzy': r['info_fuzzy'], 'features': r['feat'],
            'declared_exe': r['exe'], 'chain': r['chain'],
            'descriptor_keys': {k: r[k] for k in ('strong', 'fz_lo', 'fz_hi', 'strong_missing', 'fz_missing_direct')}}


def side(entry, comp):
    return {'wid': entry['wid'], 'world': entry['world'], 'comp': comp}


def report_pair(col, kind, ea, ca, ra, eb, cb, rb, verdict, aspect, designated):
    shape, why = verdict
    case = {'kind': kind, 'a': side(ea, ca), 'b': side(eb, cb), 'aspect': aspect, 'designated': designated}
    why = '[%s] %s (%s) vs %s (%s): %s' % (aspect, ea['wid'], ca, eb['wid'], cb, why)
    col.fail(case, why, {'a': slim(ra), 'b': slim(rb)}, sig='%s:%s:%s' % (kind, shape, aspect))


def expected_relation(entry, rp, rc):
    """Cross-check of the generator's intent against the oracle (a disagreement is a harness bug)."""
    if len(entry['groups']) != 1 or rp['strong'] is None or rc['strong'] is None:
        return
    g = entry['groups'][0]
    same = rp['strong'] == rc['strong']
    if g in IRRELEVANT_GROUPS and not same:
        raise HarnessError('oracle says the irrelevant variation %s changes the work descriptor' % entry['wid'])
    if g in RELEVANT_GROUPS and same and 'same-content' not in entry['label']:
        raise HarnessError('oracle says the relevant variation %s keeps the work descriptor' % entry['wid'])


def judge_all(col, table, results):
    by_wid = {e['wid']: e for e in table}
    rejected = 0
    for e in table:
        recs = results.get(e['wid'])
        if recs is None:
            raise HarnessError('no result for world %s' % e['wid'])
        if '_rejected' in recs:
            rejected += 1
            col.count('worlds_rejected_by_the_loader')
            col.outcome('world rejected by the loader (not judged)')
            if e['base'] != 'amb' and not e['parents']:
                raise HarnessError('base world %s rejected: %s' % (e['wid'], recs['_rejected']))
            if len(e['parents']) <= 1:
                col.note('not judged, the loader rejects %s: %s' % (e['wid'], ' '.join(recs['_rejected'].split())[:160]))
    reported = set()
    # ---- per record: the consumers of the hash (runtime wrapper + Controller.can_memoize)
    positive = 0
    for e in table:
        recs = results[e['wid']]
        if '_rejected' in recs:
            continue
        for cn in sorted(recs):
            bad, label = judge_runtime(recs, cn)
            col.count('runtime_lookups_judged', 2)
            positive += label.count('reuses equivalent work')
            for kind, shape, why in bad:
                case = {'kind': 'runtime', 'a': side(e, cn), 'aspect': 'runtime'}
                col.fail(case, '%s (%s): %s' % (e['wid'], cn, why), {'a': slim(recs[cn])}, sig='runtime:%s:%s' % (kind, shape))
                col.outcome('FAIL runtime: %s %s' % (kind, shape))
            if recs[cn]['own_missing'] and not bad:
                col.outcome('runtime: ' + label)
    if not positive:
        raise HarnessError('the in-memory component database never produced a match: the runtime observation is vacuous')
    col.count('runtime_lookups_that_reuse_equivalent_work', positive)
    # ---- per record: missing inputs
    for e in table:
        recs = results[e['wid']]
        if '_rejected' in recs:
            continue
        for cn, r in recs.items():
            if r['own_missing']:
                col.evaluated()
                col.nontriv('missing|%s|%s' % (e['wid'], cn))
                bad = judge_record(r)
                for kind, shape, why in bad:
                    case = {'kind': 'missing', 'a': side(e, cn), 'aspect': 'missing'}
                    col.fail(case, '%s (%s): %s' % (e['wid'], cn, why), {'a': slim(r)}, sig='%s:%s:missing' % (kind, shape))
                    col.outcome('FAIL missing: %s %s' % (kind, shape))
                if not bad:
                    col.outcome('missing input: no strong hash' + (', no fuzzy hash' if r['f'] is None else ', fuzzy hash present (input produced by a component)'))
    # ---- designated pairs: (parent, variant), the component the variation is about and every other shared component
    for e in table:
        recs = results[e['wid']]
        if '_rejected' in recs:
            continue
        for pw in e['parents']:
            pe = by_wid[pw]
            precs = results[pw]
            if '_rejected' in precs:
                continue
            tc, tp = e['world']['target'], pe['world']['target']
            rc, rp = recs[tc], precs[tp]
            expected_relation(e, rp, rc)
            aspect = '+'.join(e['groups']) if len(e['parents']) == 1 else '+'.join(g for g in e['groups'] if g not in pe['groups']) or '+'.join(e['groups'])
            col.evaluated()
            col.nontriv('%s<-%s' % (e['wid'], pw))
            labels = []
            for kind in ('strong', 'fuzzy'):
                v = judge_pair(kind, rp, rc)
                if v:
                    report_pair(col, kind, pe, tp, rp, e, tc, rc, v, aspect, True)
                    reported.add((kind, pw, tp, e['wid'], tc))
                    labels.append('%s FAIL %s' % (kind, v[0]))
                else:
                    labels.append(relation_label(kind, rp, rc))
            col.outcome('%s: %s' % (aspect if len(aspect) < 40 else 'two aspects', '; '.join(labels)))
    # ---- all pairs through the partitions
    flat = []
    for e in table:
        recs = results[e['wid']]
        if '_rejected' in recs:
            continue
        for cn in sorted(recs):
            flat.append((e, cn, recs[cn]))
    n = len(flat)
    col.count('records', n)
    col.count('all_pairs_judged', n * (n - 1) // 2)
    for kind, key_eq, key_ne, hk in (('strong', 'strong', 'strong', 'h'), ('fuzzy', 'fz_hi', 'fz_lo', 'f')):
        # equal descriptor -> one hash
        groups = {}
        for x in flat:
            k = x[2][key_eq]
            if k is not None:
                groups.setdefault(k, []).append(x)
        col.count('%s_descriptor_classes' % kind, len(groups))
        for k, members in groups.items():
            firsts = {}
            for x in members:
                firsts.setdefault(x[2][hk], x)
            if len(firsts) > 1:
                reps = list(firsts.values())
                a = reps[0] if reps[0][2][hk] is not None else reps[1]
                for b in reps:
                    if b is a:
                        continue
                    _cross(col, kind, a, b, reported)
        # equal hash -> one descriptor
        hg = {}
        for x in flat:
            if x[2][hk] is not None and x[2][key_ne] is not None:
                hg.setdefault(x[2][hk], []).append(x)
        col.count('%s_hash_classes' % kind, len(hg))
        for h, members in hg.items():
            firsts = {}
            for x in members:
                firsts.setdefault(x[2][key_ne], x)
            if len(firsts) > 1:
                reps = list(firsts.values())
                for b in reps[1:]:
                    _cross(col, kind, reps[0], b, reported)
    return rejected


def _cross(col, kind, a, b, reported):
    ea, ca, ra = a
    eb, cb, rb = b
    if (kind, ea['wid'], ca, eb['wid'], cb) in reported or (kind, eb['wid'], cb, ea['wid'], ca) in reported:
        return
    v = judge_pair(kind, ra, rb)
    if v is None:
        raise HarnessError('partition comparison and pair judgement disagree for %s/%s vs %s/%s' % (ea['wid'], ca, eb['wid'], cb))
    aspect = 'cross'
    reported.add((kind, ea['wid'], ca, eb['wid'], cb))
    col.evaluated()
    report_pair(col, kind, ea, ca, ra, eb, cb, rb, v, aspect, False)
    col.outcome('cross pair: %s FAIL %s' % (kind, v[0]))


def relation_label(kind, rp, rc):
    if kind == 'strong':
        if rp['strong'] is None or rc['strong'] is None:
            return 'strong: no hash while an input is missing' if (rp['strong_missing'] or rc['strong_missing']) else 'strong: not judged'
        return 'strong equal as required' if rp['strong'] == rc['strong'] else 'strong differs as required'
    if rp['fz_hi'] is not None and rc['fz_hi'] is not None and rp['fz_hi'] == rc['fz_hi']:
        return 'fuzzy equal as required'
    if rp['fz_lo'] is not None and rc['fz_lo'] is not None and rp['fz_lo'] != rc['fz_lo']:
        return 'fuzzy differs as required'
    return 'fuzzy: not judged'


# ------------------------------------------------------------------ entry points
def run(ctx):
    from verif.gen.pkg import scratch_dir
    with scratch_dir('c16-ext-') as ext_root:
        G.EXT_ROOT = ext_root
        try:
            _run(ctx)
        finally:
            G.EXT_ROOT = None


def self_check():
    """the reference encoding itself must keep the classic ambiguous pairs apart"""
    k = M.key_of
    pairs = [(('ab', 'c'), ('a', 'bc')), (('a', ('b',)), (('a', 'b'),)), (('a', ''), ('', 'a')), ((None,), ('None',)),
             (('executable', 'x'), ('executablex',)), ((1,), ('1',))]
    for x, y in pairs:
        if k(x) == k(y) or M.encode(x) == M.encode(y):
            raise HarnessError('reference encoding is ambiguous for %r / %r' % (x, y))
    w = G.bases()['chain']
    d = M.Descriptors(w)
    if d.desc('C', 'S') == d.desc('C', 'H') or d.desc('C', 'S')[0] != 'S':
        raise HarnessError('reference descriptors: strong and fuzzy descriptor of a consumer must differ')


def _run(ctx):
    import time
    self_check()
    t0 = time.time()
    table = world_table(ctx.thorough, ctx.seed)
    ctx.count('seconds_generating', int(time.time() - t0))
    n = len(table)
    chunk = max(1, min(40, n // (max(1, ctx.jobs) * 4) + 1))
    ctx.pmap('verif.props.c16', 'worker', [[(e['wid'], e['world']) for e in table[i:i + chunk]] for i in range(0, n, chunk)])
    results = dict(ctx.payload)
    ctx.payload = []
    ctx.count('worlds', n)
    ctx.count('worlds_second_level', sum(1 for e in table if len(e['parents']) == 2))
    ctx.count('worlds_fixed_core', sum(1 for e in table if not e.get('stratum')))
    ctx.count('ambiguity_worlds', sum(1 for e in table if e['base'] == 'amb'))
    judge_all(ctx, table, results)
    amb = [e for e in table if e['base'] == 'amb' and '_rejected' not in results[e['wid']]]
    ctx.evaluated(len(amb) * (len(amb) - 1) // 2)     # every pair of the ambiguity alphabet (judged through the partitions)
    for e in amb:
        c = e['world']['comps'][0]
        ctx.nontriv('amb|%s' % canon([c['exe'], c['args'], c['refs'], c['backend']]))
    ctx.outcome('ambiguity alphabet: pair judged through the partitions', len(amb) * (len(amb) - 1) // 2)
    for e in table:
        if e['wid'] in ('one|produced[P/out.txt]:content', 'chain|producer[P]:exe (produced files unchanged)', 'direct|name[target]=A-B',
                        'k8s|backend=kubernetes:reg/img:2', 'one|missing[ref0]'):
            r = results[e['wid']]
            t = e['world']['target']
            if '_rejected' not in r:
                ctx.sample({'world': e['wid'], 'component': t, 'strong': r[t]['h'], 'fuzzy': r[t]['f'], 'memoization_info': r[t]['info']})


def replay(ctx, case):
    from verif.gen.pkg import scratch_dir
    with scratch_dir('c16-ext-') as ext_root:
        G.EXT_ROOT = ext_root
        try:
            _replay(ctx, case)
        finally:
            G.EXT_ROOT = None


def _replay(ctx, case):
    ea = {'wid': case['a']['wid'], 'world': case['a']['world'], 'groups': [], 'parents': []}
    ra = observe_world(ea['world'])
    if '_rejected' in ra:
        raise HarnessError('replay: world a rejected: %s' % ra['_rejected'])
    if case['kind'] == 'runtime':
        ctx.evaluated()
        for kind, shape, why in judge_runtime(ra, case['a']['comp'])[0]:
            ctx.fail(case, '%s (%s): %s' % (ea['wid'], case['a']['comp'], why), {'a': slim(ra[case['a']['comp']])},
                     sig='runtime:%s:%s' % (kind, shape))
        ctx.outcome('replayed')
        return
    ra = ra[case['a']['comp']]
    ctx.evaluated()
    if case['kind'] == 'missing':
        for kind, shape, why in judge_record(ra):
            ctx.fail(case, '%s (%s): %s' % (ea['wid'], case['a']['comp'], why), {'a': slim(ra)}, sig='%s:%s:missing' % (kind, shape))
        ctx.outcome('replayed')
        return
    eb = {'wid': case['b']['wid'], 'world': case['b']['world'], 'groups': [], 'parents': []}
    rb = observe_world(eb['world'])
    if '_rejected' in rb:
        raise HarnessError('replay: world b rejected: %s' % rb['_rejected'])
    rb = rb[case['b']['comp']]
    v = judge_pair(case['kind'], ra, rb)
    if v:
        report_pair(ctx, case['kind'], ea, case['a']['comp'], ra, eb, case['b']['comp'], rb, v, case.get('aspect', 'replay'),
                    case.get('designated', False))
    ctx.outcome('replayed')


# ------------------------------------------------------------------ known-finding selectors
# A selector looks at the *case* (the two worlds) and at the *shape of the wrong observation* (the memoization_info the
# product built, which hashes are missing / equal). Any failure with another shape stays a VIOLATION.
import re as _re

_METHODS = 'copy|link|ref|copyout|extract|output|loopref|loopoutput'


def _parts(f):
    s = f['sig'].split(':')
    return s[0], s[1]


def _sides(f):
    obs = f.get('observed') or {}
    return [obs[k] for k in ('a', 'b') if k in obs]


def _info(side, kind):
    i = side['info'] if kind == 'strong' else side['info_fuzzy']
    return i if isinstance(i, dict) else None


def _hash(side, kind):
    return side['strong_hash'] if kind == 'strong' else side['fuzzy_hash']


def _keys_after(f, transform, kind):
    """descriptor keys of the two components of the case after `transform(world)` was applied to copies of both worlds"""
    out = []
    for k in ('a', 'b'):
        w = copy.deepcopy(f['case'][k]['world'])
        comp = f['case'][k]['comp']
        transform(w)
        r = M.Descriptors(w).record(comp)
        out.append((r['strong'],) if kind == 'strong' else (r['fz_lo'], r['fz_hi']))
    return out


def _sel_trailing_digit(f):
    """blueprint_name = componentName.rstrip('0123456789'): a component whose name ends in a digit gets no hash
    (no component of the stripped name) or is hashed with the executable of the component that has the stripped name."""
    if f['case']['kind'] == 'missing' or len(_sides(f)) != 2:
        return False
    kind, shape = _parts(f)
    hk = 'strong_hash' if kind == 'strong' else 'fuzzy_hash'
    a, b = _sides(f)

    def wrong(side):
        # a digit-named component (the component itself or one upstream of it) shows the predicted wrong observation
        for n, u in side['chain'].items():
            if not n[-1:].isdigit() or u['inputs_missing']:
                continue
            if u[hk] is None or (u['info_exe'] is not None and u['info_exe'] != u['declared_exe']):
                return True
        return False

    def clean(side):
        return not any(n[-1:].isdigit() for n in side['chain'])
    if shape == 'no-hash-but-same-work':
        none_side, other = (a, b) if _hash(a, kind) is None else (b, a)
        return wrong(none_side) and _hash(other, kind) is not None
    if shape in ('differs-but-same-work', 'same-hash-but-different-work'):
        # exactly the digit-named side is off; the other side must be free of digit names or also wrong
        return (wrong(a) and (clean(b) or wrong(b))) or (wrong(b) and (clean(a) or wrong(a)))
    return False


_ABS_REF = _re.compile(r'(?:(?<=\s)|^)/[^\s:]+:(?:%s)\b' % _METHODS)


def _sel_abs_path(f):
    """a reference that is an absolute path is not replaced in the argument string (word-boundary pattern in front of
    '/'), so the hash contains the location of the file: same work, different hashes"""
    if f['case']['kind'] == 'missing' or len(_sides(f)) != 2:
        return False
    kind, shape = _parts(f)
    if shape != 'differs-but-same-work':
        return False
    a, b = _sides(f)
    ia, ib = _info(a, kind), _info(b, kind)
    if ia is None or ib is None:
        return False
    if not (a['features']['abs_refs_in_args'] or b['features']['abs_refs_in_args']):
        return False
    aa, ab = ia['command']['arguments'], ib['command']['arguments']
    if not (_ABS_REF.search(aa) or _ABS_REF.search(ab)):
        return False
    # the two descriptions differ ONLY in such left-over paths (a replaced reference reads file:<md5>:<method>)
    norm = lambda s: _re.sub(r'file:[0-9a-f]{32}:(%s)' % _METHODS, 'REF', _ABS_REF.sub('REF', s))
    ia2 = copy.deepcopy(ia); ib2 = copy.deepcopy(ib)
    ia2['command']['arguments'] = norm(aa); ib2['command']['arguments'] = norm(ab)
    ia2['files'] = sorted(ia2['files']); ib2['files'] = sorted(ib2['files'])
    return ia2 == ib2


def _drop_dir_refs_outside_args(w):
    for c in w['comps']:
        used = set(p['r'] for p in c['args'] if isinstance(p, dict) and 'r' in p)
        keep = [i for i, r in enumerate(c['refs'])
                if not (r['prod'] is not None and r['path'] is None and not r.get('stdout') and i not in used)]
        remap = {old: new for new, old in enumerate(keep)}
        c['refs'] = [c['refs'][i] for i in keep]
        c['args'] = [{'r': remap[p['r']]} if isinstance(p, dict) and 'r' in p else p for p in c['args']]


def _sel_dir_ref_outside_arguments(f):
    """a :copy/:link reference to the working directory of a producer that is not mentioned in the arguments leaves
    no trace in the hash: different producers / methods, same hash"""
    if f['case']['kind'] == 'missing' or len(_sides(f)) != 2:
        return False
    kind, shape = _parts(f)
    if shape != 'same-hash-but-different-work':
        return False
    a, b = _sides(f)
    if not (a['features']['dir_refs_not_in_args'] or b['features']['dir_refs_not_in_args']):
        return False
    if _info(a, kind) is None or _info(a, kind) != _info(b, kind):
        return False
    ka, kb = _keys_after(f, _drop_dir_refs_outside_args, kind)
    return ka == kb


def _docker_image_dropped(w):
    for c in w['comps']:
        if (c.get('backend') or {}).get('kind') == 'docker':
            c['backend'] = None


def _sel_docker_image(f):
    """postprocess_backend() only knows kubernetes and lsf: the image of the docker backend is not part of the hash"""
    if f['case']['kind'] == 'missing' or len(_sides(f)) != 2:
        return False
    kind, shape = _parts(f)
    a, b = _sides(f)
    dock = [s for s in (a, b) if s['features']['backend'] == 'docker' or
            any(True for _ in ())]
    worlds_have_docker = any((c.get('backend') or {}).get('kind') == 'docker' for k in ('a', 'b') for c in f['case'][k]['world']['comps'])
    if not worlds_have_docker:
        return False
    for s in dock:
        i = _info(s, kind)
        if i is None or i.get('backend') != {}:
            return False
    ka, kb = _keys_after(f, _docker_image_dropped, kind)
    if shape == 'same-hash-but-different-work':
        return ka == kb
    if shape == 'differs-but-same-work':
        return ka != kb and None not in ka and None not in kb
    return False


def _concat(obj):
    if isinstance(obj, dict):
        return ''.join(str(k) + _concat(obj[k]) for k in sorted(obj))
    if isinstance(obj, list):
        return ''.join(_concat(x) for x in sorted(obj))
    return str(obj)


def _sel_serialisation(f):
    """_memoization_info_to_hash concatenates keys and values without separators: two DIFFERENT descriptions whose
    concatenations coincide get the same hash"""
    if f['case']['kind'] == 'missing' or len(_sides(f)) != 2:
        return False
    kind, shape = _parts(f)
    if shape != 'same-hash-but-different-work':
        return False
    a, b = _sides(f)
    ia, ib = _info(a, kind), _info(b, kind)
    if ia is None or ib is None:
        return False
    na = dict(ia, files=sorted(ia['files'])); nb = dict(ib, files=sorted(ib['files']))
    return na != nb and _concat(na) == _concat(nb)


KNOWN_SELECTORS = {
    'component_name_ends_in_digit': _sel_trailing_digit,
    'absolute_path_reference_not_replaced': _sel_abs_path,
    'directory_reference_outside_arguments_ignored': _sel_dir_ref_outside_arguments,
    'docker_image_not_hashed': _sel_docker_image,
    'serialisation_without_separators': _sel_serialisation,
}
