"""C17 — Component environments are built only from their declared sources.

Every document-level configuration (platform x layout of the package default environment x launch environment x
system variables) hosts one component per (selection spelling x interpreter) for every pair of
(default-platform layer template, P-platform layer template) of a named environment, plus the special selections.
WorkflowGraph.environmentForNode is called for every component with os.environ replaced by the launch environment
of the configuration, and the result is compared with the reference model verif/oracles/c17_env.py.

Part A builds the WorkflowGraph in memory (FlowIRConcrete -> FlowIRExperimentConfiguration(system_vars=...) ->
WorkflowGraph), Part B goes through the product's package path (package on disk -> Experiment.experimentFromPackage
-> experiment.experimentGraph), where the system variables are the ones the runtime itself sets.
"""
import os

from verif.core.runner import HarnessError
from verif.gen import c17_docs as G
from verif.oracles import c17_env as O

PROPERTY = 'C17'
LEVEL = 'exploration'
EXHAUSTIVE = True
RULE = ('Exhaustive product of: platform {default,P} x package default environment {undefined, on default, on P, on '
        'both; with/without DEFAULTS; defined but EMPTY on the default layer, on the P layer, on either layer of both} x launch environment {rich, sparse, bare} x system variables {none, two} x '
        'named-environment definition {9 default-platform layer templates (absent, defined-but-empty, literals, own/cross-layer/launch/'
        'undefined references, DEFAULTS naming present / absent / mixed launch variables, self-reference idiom, '
        'declared+imported variables whose values reference other declared+imported variables that the launch '
        'environment also defines (listed earlier and later in DEFAULTS; also in the package default environment), '
        '%(global)s and system-variable references)} x {7 P-platform layer templates (absent, defined-but-empty, overlapping+disjoint '
        'keys, '
        'override of a referenced key, DEFAULTS on the P layer, self references, PATH idiom)} x selection spelling '
        '{unset, "", none/NONE/None, environment/Environment/ENVIRONMENT, name lower/Mixed/UPPER, via %(variable)s; plus named '
        'environments whose names have no cased character, on which case normalisation is the identity ("2024", '
        '"3.11", "_", "7-1.0_2": d-only, p-only, both, both with DEFAULTS on each layer; selected directly and via a '
        'variable)} x '
        'interpreter {no, yes} (the via-variable spelling, and in quick the UPPER spelling of named environments, only '
        'without interpreter); definitions are spelled in rotating case. Two drivers (in-memory graph, on-disk '
        'package). Thorough adds 3+2 layer templates (empty DEFAULTS segments, reference chains, library-path idiom), '
        'a fourth launch environment, the flipped definition spellings and replicated (non-primitive) graphs for every '
        'configuration (quick: replicated graphs for the configurations with system variables only; the package driver is '
        'run once per configuration because its system variables are chosen by the runtime). '
        'The special selections (unset/none/environment) are crossed with every layout of the default environment in both '
        'tiers; the named-environment components with the layouts {undefined, on both with DEFAULTS} in quick and with '
        'six of the ten layouts in thorough. In addition, within one document configuration all spellings of the same selection '
        '(case variants, "" vs unset, via a variable) must give the same outcome - this also binds the cases where the '
        'oracle accepts either of two outcomes. '
        'A case = (driver, document configuration, component); every case is non-trivial (its expected environment '
        'depends on at least the selection rule); distinct = distinct (driver, configuration, environment pair, '
        'selection spelling, interpreter). Excluded as grey: empty values, "$$", variable names that are not plain '
        'identifiers, a system variable that is also declared / in the launch environment, two definitions of one '
        'environment on one platform that differ only in case, an environment literally called "none"; values that '
        'reference their own key without importing it and values reached through a chain of >=2 references inside the '
        'environment are only leak-checked; selecting "environment" by name when no platform defines it may either '
        'fail or give the launch environment. Failing cases that have exactly the shape of a described defect (a '
        'selector matches) are recorded at most twice per document configuration (distinct failure kinds) and otherwise '
        'only counted.')
ASSUMPTIONS = [
    'system variables are an input: Part A passes them as system_vars, Part B reads what the runtime chose from '
    'experimentGraph.configuration.system_vars (INSTANCE_DIR, FLOW_EXPERIMENT_NAME, FLOW_RUN_ID)',
    'environment names are case-insensitive (docstring of environmentWithName, FlowIR.from_dict); therefore two '
    'components of one package that differ only in the case of the selected name (or "" vs no selection, or a name '
    'given through a variable) must get the same environment or both fail',
    'an environment defined with an empty variable dictionary is defined (it contributes no variables); an '
    'environment whose value is null is not in the alphabet',
    'the package default environment is the environment called "environment" that is visible on the selected platform '
    '(selected platform layered over default platform); one defined only for another platform does not count',
    'DEFAULTS semantics from the docstring of environmentWithName: NAME1:NAME2 imports the launch variables that '
    'exist; a name the environment declares itself keeps the declared value with $NAME resolved from the launch '
    'environment; the DEFAULTS key itself is not compared',
    'a reference that neither the environment nor the launch environment defines is left as spelled (docstring)',
    'interpreter components receive PATH, PYTHONPATH, PYTHONHOME, LD_LIBRARY_PATH from the launch environment when '
    'the launch environment has them and the built environment does not (docstring of environmentForNode)',
    '%(name)s in a value resolves to the workflow global variable of that name (defined only on the default platform)',
    '"an error" is any exception, raised when the graph/experiment is built or when the environment is requested',
    'os.environ is replaced for the duration of one document (construction and queries) and restored afterwards',
]


# ------------------------------------------------------------------------------------------------ environment control
class controlled_environ(object):
    def __init__(self, launch):
        self.launch = launch

    def __enter__(self):
        self.saved = dict(os.environ)
        os.environ.clear()
        os.environ.update(self.launch)

    def __exit__(self, *a):
        os.environ.clear()
        os.environ.update(self.saved)
        if dict(os.environ) != self.saved:
            raise HarnessError('could not restore os.environ')
        return False


# ------------------------------------------------------------------------------------------------ drivers
def build_graph_memory(doc, cfg, primitive=True):
    import experiment.model.conf
    import experiment.model.graph
    import experiment.model.frontends.flowir
    plat = cfg['platform']
    concrete = experiment.model.frontends.flowir.FlowIRConcrete(doc, plat, {})
    conf = experiment.model.conf.FlowIRExperimentConfiguration(
        concrete=concrete, path=None, is_instance=False, primitive=primitive, manifest={}, createInstanceFiles=False,
        updateInstanceFiles=False, variable_substitute=True, platform=plat, variable_files=None,
        system_vars=dict(G.SYSTEM[cfg['system']]), config_patches=None)
    return experiment.model.graph.WorkflowGraph(configuration=conf, platform=plat, primitive=primitive)


def build_graph_package(doc, cfg, location):
    from verif.gen.pkg import experiment_from_doc
    exp = experiment_from_doc(doc, location, platform=cfg['platform'])
    return exp.experimentGraph


def _driver(part, primitive):
    return 'package' if part == 'B' else ('in-memory' if primitive else 'in-memory replicated-graph')


def _clean(e):
    """Exception text without scratch paths (they differ between runs)."""
    import re
    return re.sub(r'/\S*c17-\S*', '<scratch>', str(e))[:300]


class Host(object):
    """One built document; build() returns ('ok', graph, system) or ('error', type, msg)."""

    def __init__(self, part, cfg, comps, thorough, only, scratch, primitive=True):
        self.part, self.cfg = part, cfg
        doc = G.flowir_doc(cfg, comps, thorough, only=only)
        try:
            if part == 'A':
                self.graph = build_graph_memory(doc, cfg, primitive=primitive)
                self.system = dict(G.SYSTEM[cfg['system']])
                got = dict(self.graph.configuration.system_vars or {})
                if got != self.system:
                    raise HarnessError('system variables were not taken over: %r' % (got,))
            else:
                import tempfile
                loc = tempfile.mkdtemp(dir=scratch)
                self.graph = build_graph_package(doc, cfg, loc)
                self.system = dict(self.graph.configuration.system_vars or {})
                if 'INSTANCE_DIR' not in self.system:
                    raise HarnessError('runtime system variables lack INSTANCE_DIR: %r' % (self.system,))
                if any(k in G.launch_of(cfg) for k in self.system):
                    raise HarnessError('system variable collides with the launch alphabet: %r' % (self.system,))
            self.error = None
        except HarnessError:
            raise
        except Exception as e:
            self.graph = None
            self.system = dict(G.SYSTEM[cfg['system']]) if part == 'A' else {}
            self.error = ('error', type(e).__name__, _clean(e))

    def observe(self, comp):
        if self.error:
            return self.error
        try:
            env = self.graph.environmentForNode('stage0.%s' % comp['name'])
        except Exception as e:
            return ('error', type(e).__name__, _clean(e))
        if not isinstance(env, dict):
            return ('error', 'NotADict', repr(env)[:300])
        return ('env', dict(env))


_ENVS = {}


def all_environments(cfg, thorough):
    key = (repr(sorted(cfg.items())), thorough)
    if key not in _ENVS:
        _ENVS.clear()
        _ENVS[key] = G.environments_of(cfg, thorough)
    return _ENVS[key]


def where_defined(cfg, comp, thorough):
    envs = all_environments(cfg, thorough)
    name = 'environment' if comp['kind'] in ('unset', 'default-by-name') else comp['selection']
    if comp['kind'] == 'none':
        return 'na'
    d = O.lookup(envs, 'default', name) is not None
    p = O.lookup(envs, G.P, name) is not None
    return {(True, True): 'both', (True, False): 'd-only', (False, True): 'p-only', (False, False): 'neither'}[(d, p)]


def model_expected(cfg, comp, thorough, system):
    envs = all_environments(cfg, thorough)
    return O.expected(G.launch_of(cfg), system, cfg['platform'], envs, comp['selection'], comp['interpreter'],
                      gvars=G.GVARS)


def judge_one(col, part, cfg, comp, thorough, host, hosting, primitive=True):
    launch = G.launch_of(cfg)
    exp = model_expected(cfg, comp, thorough, host.system)
    obs = host.observe(comp)
    where = where_defined(cfg, comp, thorough)
    case = {'part': part, 'cfg': cfg, 'component': comp, 'thorough': thorough, 'hosting': hosting,
            'primitive': primitive}
    col.evaluated()
    col.traces += 1
    col.nontriv([part, cfg, comp['kind'], comp['selection'], comp['via_var'], comp['interpreter'], primitive])
    r = O.judge(exp, obs, launch, hide=set(host.system) if part == 'B' else ())
    label = '%s:%s:%s:%s:%s%s' % (part, comp['kind'], where, cfg['platform'],
                                 'error' if obs[0] == 'error' else ('launch-env' if exp.source == 'launch' else 'env'),
                                 ':interp' if comp['interpreter'] else '')
    if r is None:
        col.outcome(label)
        if exp.kind != 'error' and exp.grey:
            col.count('cases_with_leak_only_keys')
        return True, obs
    kinds, why = r
    sig = '%s:%s:%s:%s:%s' % (part, kinds, comp['kind'], where, cfg['platform'])
    col.outcome('FAIL:' + sig)
    name = 'environment' if comp['kind'] != 'named' else comp['selection']
    envs = all_environments(cfg, thorough)
    why_full = ('%s driver, platform %s, component selects %r%s (environment defined on: %s): %s'
                % (_driver(part, primitive), cfg['platform'], comp['selection'],
                   ' +interpreter' if comp['interpreter'] else '', where, why))
    observed = {'result': list(obs), 'expected_kind': exp.kind, 'expected': exp.env, 'system': host.system,
                'launch': launch, 'default_layer': O.lookup(envs, 'default', name) if comp['kind'] != 'none' else None,
                'P_layer': O.lookup(envs, G.P, name) if comp['kind'] != 'none' else None}
    # The runner keeps at most Collector.MAX_FAIL failures. Failures that have exactly the shape of an already
    # described defect (a selector below matches) are recorded once per (selector, failure kinds, document), at most two per document; the others of
    # the same document are only counted. Failures no selector matches are always recorded.
    f = {'case': case, 'why': why_full, 'observed': observed, 'sig': sig}
    for sel_name, sel in sorted(KNOWN_SELECTORS.items()):
        if sel(f):
            seen = col.__dict__.setdefault('_c17_seen', set())
            key = (sel_name, kinds, part, repr(sorted(cfg.items())), primitive)
            if key in seen or len(seen) >= 2:
                col.count('failures_of_described_shape_not_recorded_individually')
                return False, obs
            seen.add(key)
            break
    col.fail(case, why_full, observed, sig=sig)
    return False, obs


def expects_error(cfg, comp, thorough):
    return model_expected(cfg, comp, thorough, {}).kind == 'error'


def run_config(col, part, cfg, thorough, scratch, primitive=True, only=None, named=True):
    """only: None, or {component name: hosting} to re-execute exactly those components (replay).
    named: host the named-environment groups too (the quick tier does that for G.NAMED_LAYOUTS_QUICK only)."""
    launch = G.launch_of(cfg)
    results = []

    def judged(c, host, hosting):
        ok, obs = judge_one(col, part, cfg, c, thorough, host, hosting, primitive)
        results.append((c, hosting, ok, obs, dict(host.system)))

    with controlled_environ(launch):
        for gkind, names, members in G.groups(thorough):
            shared = [c for c in members if not expects_error(cfg, c, thorough)]
            alone = [c for c in members if expects_error(cfg, c, thorough)]
            if only is not None:
                # replay: every requested component is hosted the way it was hosted when the case failed
                wanted = [c for c in members if c['name'] in only]
                if any(only[c['name']] == 'shared' for c in wanted):
                    host = Host(part, cfg, shared, thorough, names, scratch, primitive)
                    for c in wanted:
                        if only[c['name']] == 'shared':
                            judged(c, host, 'shared')
                for c in wanted:
                    if only[c['name']] != 'shared':
                        judged(c, Host(part, cfg, [c], thorough, alone_only(c), scratch, primitive), 'alone')
                continue
            if gkind == 'named' and not named:
                continue
            if shared:
                host = Host(part, cfg, shared, thorough, names, scratch, primitive)
                if host.error:
                    # the shared document was rejected although no hosted component should fail: find out which
                    # component(s) cause it by hosting each one alone
                    col.count('shared_documents_rejected')
                    alone = members
                else:
                    for c in shared:
                        judged(c, host, 'shared')
            for c in alone:
                judged(c, Host(part, cfg, [c], thorough, alone_only(c), scratch, primitive), 'alone')
    spelling_consistency(col, part, cfg, thorough, primitive, results)


def _normalised(part, obs, system):
    """Observation with the run-specific values of the runtime's system variables replaced by their names."""
    if obs[0] == 'error':
        return ('error',)
    env = dict(obs[1])
    env.pop(O.DEFAULTS_KEY, None)
    if part == 'B':
        vals = sorted(((v, k) for k, v in system.items() if v), key=lambda x: -len(x[0]))
        out = {}
        for k, v in env.items():
            if isinstance(v, str):
                for val, name in vals:
                    v = v.replace(val, '<%s>' % name)
            out[k] = v
        env = out
    return ('env', env)


def spelling_consistency(col, part, cfg, thorough, primitive, results):
    """Environment names are case-insensitive, '' selects nothing just like an absent selection, and a name given
    through a component variable is the name: components of one document configuration that select the same thing
    in different spellings must get the same outcome (same environment, or all fail). This also binds the cases in
    which the oracle accepts either of two outcomes. Only components that passed their own judgement are compared
    (a wrong environment is reported once, by the oracle)."""
    by_key = {}
    for c, hosting, ok, obs, system in results:
        by_key.setdefault((c['kind'], (c['selection'] or '').lower(), c['interpreter']), []).append(
            (c, hosting, ok, obs, system))
    for key, rs in sorted(by_key.items(), key=lambda kv: kv[0]):
        if len(rs) < 2 or not all(r[2] for r in rs):
            continue
        ref = rs[0]
        ref_n = _normalised(part, ref[3], ref[4])
        for c, hosting, ok, obs, system in rs[1:]:
            n = _normalised(part, obs, system)
            col.evaluated()
            col.nontriv([part, cfg, 'same-selection', ref[0]['name'], c['name'], primitive])
            col.count('spelling_pairs_compared')
            if n == ref_n:
                continue
            where = where_defined(cfg, c, thorough)
            sig = '%s:spelling-dependent:%s:%s:%s' % (part, c['kind'], where, cfg['platform'])
            col.outcome('FAIL:' + sig)
            show = lambda x: 'fails' if x[0] == 'error' else 'gives %r' % (x[1],)
            col.fail({'part': part, 'cfg': cfg, 'component': c, 'hosting': hosting, 'peer': ref[0],
                      'peer_hosting': ref[1], 'thorough': thorough, 'primitive': primitive},
                     '%s driver, platform %s (environment defined on: %s): selecting %r%s %s but selecting %r %s'
                     % (_driver(part, primitive), cfg['platform'], where, ref[0]['selection'],
                        ' (via a variable)' if ref[0]['via_var'] else '', show(ref_n), c['selection'], show(n)),
                     {'result': list(n), 'peer_result': list(ref_n), 'launch': G.launch_of(cfg)}, sig=sig)


def alone_only(c):
    """A component hosted alone keeps the package default environment and (if it selects one) its named one."""
    return set([c['selection'].lower()]) if c['kind'] == 'named' else set()


def worker(col, item, tier, seed):
    from verif.gen.pkg import scratch_dir
    part, cfg, primitive = item
    thorough = tier == 'thorough'
    with scratch_dir('c17-') as d:
        run_config(col, part, cfg, thorough, d, primitive,
                   named=cfg['default_env'] in (G.NAMED_LAYOUTS_THOROUGH if thorough else G.NAMED_LAYOUTS_QUICK))
    if cfg['launch'] == 'rich' and cfg['default_env'] == 'def-both-imports' and cfg['system'] == 'sys':
        comps = G.components(thorough)
        c = comps[len(comps) // 2]
        col.sample({'part': part, 'cfg': cfg, 'component': c,
                    'expected': repr(model_expected(cfg, c, thorough, G.SYSTEM[cfg['system']]))})


def run(ctx):
    items = []
    for cfg in G.doc_configs(ctx.thorough):
        items.append(('A', cfg, True))
        if cfg['system'] == 'sys':
            # the package driver gets its system variables from the runtime: cfg['system'] is only a label there
            items.append(('B', cfg, True))
        if (ctx.thorough and cfg['flip'] == 0) or cfg['system'] == 'sys':
            # replicated (non-primitive) graph, the one the runtime executes
            items.append(('A', cfg, False))
    ctx.count('documents_configurations', len(items))
    ctx.count('components_per_document', len(G.components(ctx.thorough)))
    ctx.pmap('verif.props.c17', 'worker', items, maxtasksperchild=8)


def replay(ctx, case):
    from verif.gen.pkg import scratch_dir
    only = {case['component']['name']: case['hosting']}
    if case.get('peer'):
        only[case['peer']['name']] = case['peer_hosting']
    with scratch_dir('c17-') as d:
        run_config(ctx, case['part'], case['cfg'], bool(case['thorough']), d, case.get('primitive', True), only=only)


# ------------------------------------------------------------------------------------------------ known findings
def _expected_without_default_layer(f):
    """What the oracle predicts when the default-platform layer of the selected environment is ignored."""
    case = f['case']
    cfg, comp = case['cfg'], case['component']
    envs = G.environments_of(cfg, bool(case['thorough']))
    name = 'environment' if comp['kind'] in ('unset', 'default-by-name') else comp['selection']
    for k in list(envs['default']):
        if k.lower() == name.lower():
            del envs['default'][k]
    return O.expected(G.launch_of(cfg), f['observed']['system'], cfg['platform'], envs, comp['selection'],
                      comp['interpreter'], gvars=G.GVARS)


def _sel_instance_drops_default_layer(f):
    """A graph that was produced by FlowIRConcrete.instance() (package driver, or replicated in-memory graph),
    platform P, the selected (named or default) environment is defined on BOTH platforms, and the result is exactly
    the environment built from the P layer alone."""
    case = f['case']
    if not (case['part'] == 'B' or case.get('primitive') is False):
        return False
    if case['cfg']['platform'] != G.P or case['component']['kind'] == 'none':
        return False
    ob = f['observed']
    if ob.get('default_layer') is None or ob.get('P_layer') is None or ob['result'][0] != 'env':
        return False
    alt = _expected_without_default_layer(f)
    if alt.kind == 'error':
        return False
    return O.judge(alt, ('env', ob['result'][1]), ob['launch']) is None


KNOWN_SELECTORS = {'instance_drops_default_layer': _sel_instance_drops_default_layer}
