"""C13 — A repeating observer sees its producers' final output and then stops.

The REAL RepeatingEngine.run + monitor.CreateMonitor poll loop is executed under the controlled runtime for one observer
with one (virtual) producer.  The environment is enumerated: observer task outcomes and durations, repeatRetries,
kill-after-producers-done-delay, check-producer-output, producer output pattern, and the POSITION of the
"all producers finished" notification: every scheduling point and every source line of EngineTaskController /
schedule_next_instance (line-level preemption via sys.settrace), optionally an external kill() at each of those positions.
"""
import itertools
import os

from verif.core.runner import HarnessError, canon

PROPERTY = 'C13'
LEVEL = 'model_checking'
EXHAUSTIVE = True
RULE = ('case = (repeatRetries, kill-after-producers-done-delay, check-producer-output, observer task script (reason,duration)*, '
        'producer output pattern, kind of environment event [producers-finished notification | external kill then notification]) '
        'x position k of the environment event, k ranging over EVERY choice point of the run up to the time window (scheduling '
        'points of the monitor thread, rx activities, task exits, timer ticks, and every source line of EngineTaskController and '
        'schedule_next_instance). The rest of each execution follows the canonical fair schedule to completion. '
        'Part B: observers inside the real controller stage loop (same-stage / cross-stage / two subjects in both listing orders / '
        'mixed; producers that write output at launch+exit or only at exit; long and short producers), canonical schedule and all '
        '1-deviation schedules for the two-subject observer, judged from the event log (no launch before every same-stage producer '
        'has output, final output observed). Part C (model conformance): parts A and B replace WorkingDirectory.output / outputSinceDate by a '
        'virtual log; every history of <=4 (thorough 6) file operations {new, rewrite in place, delete} x 2 files + in-place updates of '
        'an input, with explicit modification times, is executed in a real directory and the REAL listing functions are compared with '
        'the model at every time boundary. distinct = distinct (case, k); non-trivial = the event landed while the engine was alive.')
ASSUMPTIONS = [
    'controlled-runtime assumptions of C01; producer output is a virtual log consulted through WorkingDirectory.output*',
    'the notification is delivered by calling RepeatingEngine.notify_all_producers_finished() (what ComponentState._notifyProducersFinished '
    'does); the rx subscription that triggers it is exercised by the observer scenarios of C01/C02',
    'when the first producer output ever appears together with the notification, "was never able to consume" is ambiguous: only '
    'launch-before-output and bounded termination are judged for that pattern',
    'horizon 400 virtual seconds after the notification',
]
MC_EXPLANATION = ('states = distinct (monitor-loop program point, engine flags) fingerprints at which the environment event was injected; '
                  'transitions = scheduling steps executed; traces_validated_against_impl = complete executions of the real engine')

WHITELIST = ('EngineTaskController', 'schedule_next_instance')


def combos(thorough):
    if thorough:
        retries, delays, checks = [0, 1, 3], [None, 8.0], ['true', 'false']
        scripts = [[['Success', 0.0]], [['Success', 3.0]], [['KnownIssue', 0.0], ['Success', 0.0]],
                   [['KnownIssue', 0.0], ['KnownIssue', 0.0], ['Success', 0.0]],
                   [['ResourceExhausted', 0.0], ['Success', 0.0]], [['KnownIssue', 3.0], ['Success', 3.0]],
                   [['KnownIssue', 0.0]] * 4 + [['Success', 0.0]], [['Success', 0.0], ['KnownIssue', 0.0], ['Success', 0.0]],
                   [['Success', 0.0], ['LaunchOSError', 0.0], ['Success', 0.0]], [['LaunchOSError', 0.0], ['Success', 0.0]],
                   [['Success', 0.0], ['LaunchOSError', 0.0], ['LaunchOSError', 0.0], ['Success', 0.0]]]
    else:
        retries, delays, checks = [0, 1], [None, 8.0], ['true', 'false']
        scripts = [[['Success', 0.0]], [['Success', 3.0]], [['KnownIssue', 0.0], ['Success', 0.0]],
                   [['Success', 0.0], ['LaunchOSError', 0.0], ['Success', 0.0]], [['KnownIssue', 0.0], ['KnownIssue', 0.0], ['Success', 0.0]]]
    patterns = ['out0', 'out0+last', 'periodic+last', 'last-only', 'none'] + (['periodic'] if thorough else [])
    events = ['notify', 'kill+notify']
    for r in retries:
        for d in delays:
            for c in checks:
                for s in scripts:
                    for p in patterns:
                        for e in events:
                            if e == 'kill+notify' and (p not in ('out0+last', 'periodic+last') or len(s) > 1):
                                continue
                            if not thorough and d is not None and (len(s) > 1 or r != 0 or p in ('none', 'last-only')
                                                                   or (s[0][1] > 0 and p != 'out0+last')):
                                # (a task that outlives the notification + a delay that expires between two executions
                                # is kept for one output pattern: the engine once never stopped there, fixed 1798c57)
                                continue
                            if not thorough and c == 'false' and p in ('out0', 'periodic+last'):
                                # with check-producer-output off the engine never looks at output times: out0+last covers these
                                continue
                            if not thorough and len(s) > 2 and (d is not None or p not in ('out0+last', 'periodic+last')):
                                continue
                            yield {'retries': r, 'delay': d, 'check': c, 'script': s, 'pattern': p, 'event': e}


class _Env:
    cache = {}


def get_env(combo):
    from verif.vsched import harness as h, runtime as vrt
    from verif.gen.pkg import experiment_from_doc
    import tempfile
    key = canon([combo['retries'], combo['delay'], combo['check']])
    if key in _Env.cache:
        return _Env.cache[key]
    if len(_Env.cache) > 30:
        drop_envs()
    h.install()
    rt = vrt.Runtime()
    vrt.set_runtime(rt)
    h.reset_class_state()
    location = tempfile.mkdtemp(prefix='c13-', dir='/dev/shm')
    variables = {'check-producer-output': combo['check']}
    if combo['delay'] is not None:
        variables['kill-after-producers-done-delay'] = str(combo['delay'])
    doc = {'components': [
        {'name': 'P', 'stage': 0, 'command': {'executable': 'ls', 'arguments': '/tmp'},
         'resourceManager': {'config': {'backend': 'simulator'}}, 'workflowAttributes': {'repeatInterval': 11.0}},
        {'name': 'Obs', 'stage': 0, 'command': {'executable': 'ls', 'arguments': 'P:ref'}, 'references': ['P:ref'],
         'resourceManager': {'config': {'backend': 'simulator'}},
         'workflowAttributes': {'repeatInterval': 7.0, 'repeatRetries': combo['retries']}, 'variables': variables}]}
    exp = experiment_from_doc(doc, location, check_executables=False)
    jobs = {n: exp._stages[0].jobWithName(n) for n in ('P', 'Obs')}
    rt.teardown()
    env = {'exp': exp, 'jobs': jobs, 'location': location}
    _Env.cache[key] = env
    return env


def drop_envs():
    import shutil
    for env in _Env.cache.values():
        shutil.rmtree(env['location'], ignore_errors=True)
    _Env.cache.clear()


def execute(combo, k, window=26.0, horizon_after=400.0, line_level=True):
    """Runs the observer engine; the environment event fires at choice point number k (None: never).
    Returns a dict of observations."""
    from verif.vsched import harness as h, runtime as vrt
    env = get_env(combo)
    rt = vrt.Runtime()
    vrt.set_runtime(rt)
    h.reset_class_state()
    h.H.on_launch = None
    h.H.script = {'stage0.Obs': [list(x) for x in combo['script']]}
    h.H.outmode = {'stage0.Obs': 'never', 'stage0.P': 'never'}
    pdir = env['jobs']['P'].workingDirectory.directory
    pcomp = h.M.workflow.ComponentState(env['jobs']['P'], env['exp'].experimentGraph, create_engine=True)
    comp = h.M.workflow.ComponentState(env['jobs']['Obs'], env['exp'].experimentGraph, create_engine=True)
    engine = comp.engine
    obs = {'t_out': [], 't_notify': None, 't_kill': None, 'fired_at': None, 'where': None}
    if combo['pattern'] in ('out0', 'out0+last', 'periodic', 'periodic+last'):
        h.VFS.write(pdir)
        obs['t_out'].append(h.VFS.times(pdir)[-1])
    pending_writes = [6.0, 13.0, 21.0] if combo['pattern'].startswith('periodic') else []

    if line_level:
        def local(frame, event, arg):
            if event == 'line' and not rt.poison and obs['t_notify'] is None:
                rt.yield_blocked(('preempt', '%s:%d' % (frame.f_code.co_name, frame.f_lineno)))
            return local

        def glob(frame, event, arg):
            if frame.f_code.co_name in WHITELIST and frame.f_code.co_filename.endswith('engine.py'):
                return local
            return None

        rt.trace_fn = glob

    def fire():
        cur = rt.last_run
        where = None
        if cur is not None and cur.state == 'blocked' and cur.block and cur.block[0] == 'preempt':
            where = cur.block[1]
        obs['where'] = where or ('after:%s' % (cur.label if cur is not None else 'start'))
        obs['alive_at_event'] = engine.isAlive()
        obs['fp'] = (obs['where'], engine._producers_are_finished, engine._consume, engine.cancelMonitorEvent.is_set(),
                     engine.process is not None and not engine.process._done, engine._stateDict['repeatRetries'])
        if combo['event'] == 'kill+notify':
            obs['t_kill'] = rt.clock_read()
            engine.kill()
        if combo['pattern'] in ('out0+last', 'last-only', 'periodic+last'):
            h.VFS.write(pdir)
            obs['t_out'].append(h.VFS.times(pdir)[-1])
        obs['t_notify'] = rt.clock_read()
        engine.notify_all_producers_finished()

    steps = 0
    started = []
    rt.spawn(lambda: (comp.engine.run(), started.append(1)), 'drv:run')
    try:
        while True:
            while pending_writes and obs['t_notify'] is None and rt.now >= pending_writes[0]:
                pending_writes.pop(0)
                h.VFS.write(pdir)
                obs['t_out'].append(h.VFS.times(pdir)[-1])
            if obs['t_notify'] is None and k is not None and steps == k:
                fire()
                obs['fired_at'] = steps
            if started and obs.get('t_primed') is None and engine._lastLaunched is not None:
                obs['t_primed'] = (engine._lastLaunched - rt.base).total_seconds()
            alts = h.alternatives(rt)
            dead = started and not engine.isAlive() and not any(t.label.startswith('thread:') for t in rt.threads if t.state != 'done')
            if dead:
                break
            if not alts:
                break
            if obs['t_notify'] is None:
                if rt.now > window:
                    break
            elif rt.now > obs['t_notify'] + horizon_after:
                break
            if steps > 60000:
                raise HarnessError('C13 driver: step cap')
            kind, o = alts[0]
            if kind == 't':
                rt.run_thread(o)
            elif kind == 'tick':
                rt.advance_to(o)
            else:
                o.finish()
            steps += 1
        obs['steps'] = steps
        obs['alive'] = engine.isAlive()
        obs['exitReason'] = engine.exitReason()
        obs['end_time'] = rt.now
        obs['launches'] = [[e['t'], e['n']] for e in h.H.events if e['kind'] == 'launch' and e['ref'] == 'stage0.Obs']
        obs['exits'] = [[e['t'], e['n'], e['reason']] for e in h.H.events if e['kind'] == 'exit' and e['ref'] == 'stage0.Obs']
        obs['launch_failed'] = [[e['t'], e['n']] for e in h.H.events if e['kind'] == 'launch-failed' and e['ref'] == 'stage0.Obs']
        obs['errors'] = [e[1] for e in rt.errors]
        obs['retries_left'] = engine._stateDict['repeatRetries']
        obs['t_primed'] = obs.get('t_primed')
        return obs
    finally:
        rt.trace_fn = None
        rt.teardown()
        del pcomp


def judge(combo, o):
    bad = []
    outs = o['t_out']
    # (i) never executes before there is producer output it can consume
    for t, n in o['launches']:
        if not outs or min(outs) > t:
            bad.append(('observer task #%d launched at t=%.6f but the first producer output appears at %s' % (
                n, t, min(outs) if outs else 'never'), 'C13:launch-before-output'))
            break
    if o['t_notify'] is None:
        return bad
    tn = o['t_notify']
    # (iii) bounded termination
    if o['alive']:
        bad.append(('observer still alive %.0f virtual seconds after its producers finished (launches after: %d, retries=%d, delay=%r)' % (
            o['end_time'] - tn, len([1 for t, n in o['launches'] if t > tn]), combo['retries'], combo['delay']), 'C13:runs-forever'))
        return bad
    after = [(t, n) for t, n in o['launches'] if t > tn]
    reasons = {n: r for t, n, r in o['exits']}
    # a round of the task controller that was already in flight when the notification landed has taken its
    # "producers were done when I started" decision before the notification: it may run once more after a success
    in_flight = str(o.get('where', '')).startswith('EngineTaskController')
    allowed_successes = 2 if in_flight else 1
    successes = 0
    failures = 0
    for t, n in after:
        if successes >= allowed_successes:
            bad.append(('observer launched task #%d at t=%.3f although %d execution(s) started after the notification had already succeeded' % (
                n, t, successes), 'C13:launch-after-final-success'))
            break
        if reasons.get(n) == 'Success':
            successes += 1
        else:
            failures += 1
    # lower bound: without a success, a kill delay or an external kill the observer must not stop before its retries are
    # used up. Judged only when every round executes (check-producer-output off and output present from the start), so
    # that the launches after the notification are exactly the attempts.
    launch_failed_after = len([1 for t, n in o.get('launch_failed', []) if t > tn])
    if (not successes and combo['delay'] is None and o['t_kill'] is None and combo['check'] == 'false'
            and combo['pattern'] in ('out0', 'out0+last', 'periodic', 'periodic+last')
            and len(after) + launch_failed_after < combo['retries'] + 1):
        bad.append(('observer stopped after %d unsuccessful attempt(s) following the notification although repeatRetries=%d '
                    '(%d attempts allowed)' % (len(after) + launch_failed_after, combo['retries'], combo['retries'] + 1),
                    'C13:stopped-before-retries-used-up'))
    if failures > combo['retries'] + 1 + (1 if in_flight else 0):
        bad.append(('%d failed executions after the notification but repeatRetries=%d' % (failures, combo['retries']), 'C13:too-many-retries'))
    # (ii) final output observed
    externally_killed = o['t_kill'] is not None
    # the configured kill delay is a deadline counted from the notification ("... or the configured kill delay expires";
    # tests/test_engines.py: "the engine kills itself after the delay"): an observer that is stopped BY the deadline need not
    # have executed again; stopping earlier than the deadline without such an execution is still judged
    stopped_by_deadline = combo['delay'] is not None and o['end_time'] >= tn + combo['delay']
    if combo['pattern'] in ('out0', 'out0+last', 'periodic', 'periodic+last') and not externally_killed and not stopped_by_deadline:
        t_o = max(outs)
        # an attempt whose submission failed (the task could not be created) counts as an attempt made after the output
        attempts = [t for t, n in o['launches']] + [t for t, n in (o.get('launch_failed') or [])]
        if not any(t > t_o for t in attempts):
            bad.append(('producers finished at t=%.6f with last output at t=%.6f; the observer stopped (exit reason %s) without '
                        'starting an execution after that output (launches at %s, event landed at %s)' % (
                            tn, t_o, o['exitReason'], [round(t, 3) for t, n in o['launches']], o['where']),
                        'C13:final-output-missed:%s:%s' % (
                            'executed-before' if any(t < tn for t, n in o['launches']) else 'never-executed-before',
                            str(o['where']).split(':')[0])))
    return bad


def run_combo(col, combo, ks=None):
    base = execute(combo, None)
    n = base['steps']
    col.evaluated()
    col.traces += 1
    col.transitions += n
    for why, sig in judge(combo, base):
        col.fail({'combo': combo, 'k': None}, why, base, sig=sig)
    col.payload.append((canon(combo), n))
    positions = range(0, n + 1) if ks is None else ks
    for k in positions:
        try:
            o = execute(combo, k)
        except HarnessError as e:
            raise HarnessError('%s [C13 part A, combo %s, k=%r]' % (e, canon(combo), k))
        col.evaluated()
        col.traces += 1
        col.transitions += o['steps']
        if o.get('fired_at') is None:
            col.outcome('event-not-reached')
            continue
        if o.get('alive_at_event'):
            col.nontriv({'c': combo, 'k': k})
        col.state(canon(o['fp']))
        bad = judge(combo, o)
        col.outcome('launches=%d after=%d reason=%s alive=%s' % (
            len(o['launches']), len([1 for t, _ in o['launches'] if t > o['t_notify']]), o['exitReason'], o['alive']))
        for why, sig in bad:
            col.fail({'combo': combo, 'k': k}, why, {x: o[x] for x in ('where', 'launches', 'exits', 't_out', 't_notify', 't_kill', 'exitReason', 'retries_left', 'errors', 't_primed', 'launch_failed')}, sig=sig)


# ------------------------------------------------------------------ part B: observers inside the real controller
def b_scenarios(thorough):
    """(workflow, exit labels, durations): observers whose producers live for a while and finish at different times."""
    out = [('observer-2subj-rev', {}, {'stage0.S1': 20.0, 'stage0.S2': 14.0}, {'stage0.S2': 'exit'}),
           ('observer-2subj', {}, {'stage0.S1': 14.0, 'stage0.S2': 20.0}, {'stage0.S1': 'exit'}),
           ('observer', {}, {'stage0.B': 12.0}), ('observer', {}, {'stage0.A': 6.0, 'stage0.B': 12.0}),
           ('observer2', {}, {'stage0.P': 12.0}), ('observer2', {}, {'stage0.P': 12.0, 'stage0.Q': 30.0}),
           ('observer-2subj', {}, {'stage0.S1': 8.0, 'stage0.S2': 14.0}), ('observer-2subj', {}, {'stage0.S1': 14.0, 'stage0.S2': 8.0}),
           ('observer-2subj', {}, {'stage0.S1': 3.0, 'stage0.S2': 12.0}),
           ('observer-2subj-rev', {}, {'stage0.A': 9.0, 'stage0.S1': 30.0, 'stage0.S2': 12.0}),
           ('observer-2subj-rev', {}, {'stage0.S1': 8.0, 'stage0.S2': 14.0}),
           ('observer-2subj', {}, {'stage0.A': 9.0, 'stage0.S1': 17.0, 'stage0.S2': 20.0}),
           ('xobserver', {}, {'stage0.A': 12.0}), ('xobs-mixed', {}, {'stage0.P': 5.0, 'stage1.S': 12.0}),
           ('xobs-mixed', {}, {'stage0.P': 5.0, 'stage1.S': 12.0}, {'stage1.S': 'exit'}),
           ('xobs-samename', {}, {'stage1.G': 20.0}), ('xobs-samename-rev', {}, {'stage1.G': 20.0}),
           ('xobs-samename', {}, {'stage0.G': 6.0, 'stage1.G': 20.0}, {'stage1.G': 'exit'}),
           ('xobs-samename-rev', {}, {'stage0.G': 6.0, 'stage1.G': 20.0}, {'stage1.G': 'exit'}),
           ('observer', {'stage0.B': 'RS'}, {'stage0.B': 8.0}), ('observer-2subj', {'stage0.S2': 'RS'}, {'stage0.S1': 7.0, 'stage0.S2': 8.0})]
    if thorough:
        out += [('observer-2subj', {}, {'stage0.S1': a, 'stage0.S2': b}) for a in (0.0, 4.0, 9.0, 16.0) for b in (0.0, 4.0, 9.0, 16.0)]
    return out


def judge_b(x, meta):
    """C13 on a controller-level execution, from the event log."""
    bad = []
    outs, launches, finals = {}, {}, {}
    for e in x.events:
        if e['kind'] == 'output':
            outs.setdefault(e['ref'], []).append(e['t'])
        elif e['kind'] == 'launch':
            launches.setdefault(e['ref'], []).append(e['t'])
        elif e['kind'] == 'comp-finish':
            finals.setdefault(e['ref'], e['t'])
    for n, mm in meta.items():
        if not mm['repeat']:
            continue
        same = [p for p in mm['producers'] if meta[p]['stage'] == mm['stage']]
        ls = launches.get(n, [])
        # (i) never executes before there is output of every same-stage producer it consumes from
        for t in ls:
            for p in same:
                if not outs.get(p) or min(outs[p]) > t:
                    bad.append(('observer %s launched at t=%.6f before its producer %s had produced any output' % (n, t, p), 'C13:B:launch-before-output'))
                    break
            else:
                continue
            break
        st = x.final.get(n, {}).get('state')
        prods_ok = all(x.final.get(p, {}).get('state') == 'finished' for p in mm['producers'])
        if st == 'finished' and prods_ok and same:
            t_o = max(max(outs[p]) for p in same if outs.get(p)) if any(outs.get(p) for p in same) else None
            if t_o is not None and all(outs.get(p) for p in same) and not any(t > t_o for t in ls):
                bad.append(('observer %s finished although it never started an execution after the last output (t=%.6f) of its producers %s; launches at %s' % (
                    n, t_o, same, [round(t, 3) for t in ls]), 'C13:B:final-output-missed'))
    return bad


def run_b_one(col, scn, prefix):
    from verif.vsched import ctl, harness as h
    hs, meta, ms, at, st = ctl.build(scn)
    h.install()
    h.H.on_launch = None
    x = h.execute(hs, prefix, want_fps=False)
    col.evaluated()
    col.traces += 1
    col.transitions += x.steps
    col.nontriv({'b': scn['id'], 'prefix': prefix})
    col.outcome('B:%s:%s' % (scn['wf'], x.result.get('ret')))
    if x.result.get('ret') != 'done':
        return x   # non-termination is C02's business
    seen = set()
    for why, sig in judge_b(x, meta):
        if sig not in seen:
            seen.add(sig)
            col.fail({'part': 'B', 'scenario': scn, 'choices': prefix}, why,
                     {'final': {n: f.get('state') for n, f in x.final.items()}}, sig=sig)
    return x


def worker_b(col, item, tier, seed):
    scn, positions = item
    x = run_b_one(col, scn, [])
    if positions is None:
        col.payload.append(('B', scn['id'], x.points))
        return
    for i in positions:
        if i >= len(x.points):
            break
        for alt in range(1, x.points[i]):
            run_b_one(col, scn, [0] * i + [alt])


# ------------------------------------------------------------------ part C: the virtual output listing vs the real code
# Parts A and B replace WorkingDirectory.output / outputSinceDate by a virtual log (a file counts as output since `date` iff its
# last modification is later than `date`). Part C binds that model to the implementation: every history of file operations in a
# real working directory, with modification times set explicitly, queried at every time boundary.
def c_histories(thorough):
    files = ['a.out', 'b.out']
    ops = [('new', f) for f in files] + [('rewrite', f) for f in files] + [('del', f) for f in files] + [('touch-input', 'in.dat')]
    depth = 6 if thorough else 4

    def rec(hist, present):
        if hist:
            yield list(hist)
        if len(hist) == depth:
            return
        for op, f in ops:
            if op == 'new' and f in present:
                continue
            if op in ('rewrite', 'del') and f not in present:
                continue
            np_ = set(present)
            if op == 'new':
                np_.add(f)
            elif op == 'del':
                np_.discard(f)
            hist.append([op, f])
            yield from rec(hist, np_)
            hist.pop()

    yield from rec([], set())


def run_c_case(col, hist):
    """Executes the history on a real directory (times T0+10k), then queries the REAL listing functions at every boundary."""
    import datetime, shutil, tempfile
    from verif.vsched import harness as h
    h.install()
    import experiment.model.storage as storage
    T0 = 1.7e9
    d = tempfile.mkdtemp(prefix='c13c-', dir='/dev/shm')
    WD = storage.WorkingDirectory
    patched = (WD.output, WD.outputSinceDate, WD.isUpdatedSinceDate)
    # the real functions call each other through the class: put all of them back while this case runs
    WD.output, WD.outputSinceDate, WD.isUpdatedSinceDate = (h.ORIG_WD['output'], h.ORIG_WD['outputSinceDate'],
                                                            h.ORIG_WD['isUpdatedSinceDate'])
    try:
        inp = os.path.join(d, 'in.dat')
        open(inp, 'w').write('input')
        os.utime(inp, (T0 - 100, T0 - 100))
        os.utime(d, (T0 - 100, T0 - 100))
        wd = storage.WorkingDirectory(d)   # existing files are inputs
        mt = {}
        for k, (op, f) in enumerate(hist):
            t = T0 + 10 * (k + 1)
            path = os.path.join(d, f)
            dir_m = os.path.getmtime(d)
            if op == 'new':
                open(path, 'w').write('v%d' % k)
                os.utime(path, (t, t))
                os.utime(d, (t, t))          # a new directory entry changes the directory
                mt[f] = t
            elif op in ('rewrite', 'touch-input'):
                with open(path, 'r+') as fh:  # in place: no directory entry changes
                    fh.write('w%d' % k)
                os.utime(path, (t, t))
                os.utime(d, (dir_m, dir_m))
                if op == 'rewrite':
                    mt[f] = t
            else:
                os.remove(path)
                os.utime(d, (t, t))
                mt.pop(f, None)
        got_out = sorted(os.path.basename(x) for x in wd.output)
        bad = []
        if got_out != sorted(mt):
            bad.append(('WorkingDirectory.output lists %r, the directory holds the outputs %r (inputs: in.dat)' % (got_out, sorted(mt)),
                        'C13:C:output-listing'))
        for q in range(0, len(hist) + 1):
            date = datetime.datetime.fromtimestamp(T0 + 10 * q + 5)
            want = sorted(f for f, t in mt.items() if datetime.datetime.fromtimestamp(t) > date)
            got = sorted(os.path.basename(x) for x in wd.outputSinceDate(date))
            col.evaluated()
            col.transitions += 1
            col.outcome('C:since=%d' % len(got))
            col.nontriv({'C': hist, 'q': q})
            if got != want:
                bad.append(('outputSinceDate(after operation %d of %r) = %r but the files modified later are %r' % (q, hist, got, want),
                            'C13:C:output-since-date:%s' % ('missed' if set(want) - set(got) else 'extra')))
            for f in ('a.out', 'b.out', 'in.dat'):
                g = bool(wd.isUpdatedSinceDate(date, os.path.join(d, f)))
                w = f in want
                if g != w:
                    bad.append(('isUpdatedSinceDate(%s, after operation %d of %r) = %r, expected %r' % (f, q, hist, g, w),
                                'C13:C:is-updated-since-date'))
        seen = set()
        for why, sig in bad:
            if sig not in seen:
                seen.add(sig)
                col.fail({'part': 'C', 'history': hist}, why, {'mtimes': {f: t - T0 for f, t in mt.items()}}, sig=sig)
    finally:
        WD.output, WD.outputSinceDate, WD.isUpdatedSinceDate = patched
        shutil.rmtree(d, ignore_errors=True)


def worker_c(col, item, tier, seed):
    for hist in item:
        run_c_case(col, hist)


def worker(col, item, tier, seed):
    try:
        for combo in item:
            run_combo(col, combo)
            if not col.samples:
                col.sample({'combo': combo, 'k': 'every choice point 0..n'})
    finally:
        drop_envs()


def run(ctx):
    from verif.core.runner import case_id
    bs = []
    for item in b_scenarios(ctx.thorough):
        wf, labels, dur = item[:3]
        sc = {'wf': wf, 'labels': labels, 'dur': dur}
        if len(item) > 3:
            sc['outmode'] = item[3]   # which producers write output only when their task exits
        sc['id'] = case_id(sc)
        bs.append(sc)
    ctx.count('controller_level_observer_scenarios', len(bs))
    ctx.pmap('verif.props.c13', 'worker_b', [(sc, None) for sc in bs], maxtasksperchild=8)
    pts = {sid: p for tag, sid, p in ctx.payload if tag == 'B'}
    ctx.payload = []
    deep = [sc for sc in bs if sc['wf'] == 'observer-2subj'][:(len(bs) if ctx.thorough else 1)]
    items = []
    for sc in deep:
        n = len(pts[sc['id']])
        step = max(1, n // 16)
        items += [(sc, list(range(lo, min(n, lo + step)))) for lo in range(0, n, step)]
    ctx.count('controller_level_scenarios_with_all_1_deviation_schedules', len(deep))
    ctx.pmap('verif.props.c13', 'worker_b', items, maxtasksperchild=4)
    ctx.payload = []
    hs = list(c_histories(ctx.thorough))
    ctx.count('output_listing_conformance_histories', len(hs))
    ctx.pmap('verif.props.c13', 'worker_c', [hs[i:i + 40] for i in range(0, len(hs), 40)], maxtasksperchild=8)
    cs = list(combos(ctx.thorough))
    ctx.count('combos', len(cs))
    items = [[c] for c in cs]
    ctx.pmap('verif.props.c13', 'worker', items, maxtasksperchild=4)
    ctx.count('positions_total', sum(n + 1 for _, n in ctx.payload))
    ctx.payload = []


def replay(ctx, case):
    if case.get('part') == 'C':
        run_c_case(ctx, case['history'])
        return
    if case.get('part') == 'B':
        run_b_one(ctx, case['scenario'], case['choices'])
        return
    try:
        o = execute(case['combo'], case['k'])
        ctx.evaluated()
        for why, sig in judge(case['combo'], o):
            ctx.fail(case, why, {x: o.get(x) for x in ('where', 'launches', 'exits', 't_out', 't_notify', 't_kill', 'exitReason', 't_primed')}, sig=sig)
    finally:
        drop_envs()


def _sel_read_window(f):
    """Fixed defect: the notification lands between the read of isNewOutput and the read of _producers_are_finished
    inside EngineTaskController (retries exhausted immediately)."""
    o = f.get('observed') or {}
    return f['sig'].startswith('C13:final-output-missed') and str(o.get('where', '')).startswith('EngineTaskController:')


def _sel_stale_output(f):
    """Known defect: with check-producer-output=true, producer output that is older than the observer's own start is never
    considered new; if the producers finish without writing again the observer stops without a single execution."""
    o = f.get('observed') or {}
    c = (f.get('case') or {}).get('combo') or {}
    if not f['sig'].startswith('C13:final-output-missed:never-executed-before'):
        return False
    if c.get('check') != 'true' or o.get('launches'):
        return False
    tp = o.get('t_primed')
    outs = o.get('t_out') or []
    # every producer output predates the moment the observer engine was started (or it was never started before the event)
    return bool(outs) and (tp is None or max(outs) <= tp)


def _sel_delay_expires_between_executions(f):
    """Fixed defect: kill-after-producers-done-delay expires while no task is running but an earlier task object still
    exists: suicide() only signalled that finished task and the monitor was never cancelled."""
    c = (f.get('case') or {}).get('combo') or {}
    return f['sig'].startswith('C13:runs-forever') and c.get('delay') is not None


KNOWN_SELECTORS = {'notification_between_output_check_and_flag_read': _sel_read_window,
                   'delay_expires_between_executions': _sel_delay_expires_between_executions,
                   'output_older_than_observer_start_never_consumed': _sel_stale_output}
