"""C07 — An instance reloaded from its own files is the same experiment.

package on disk --Experiment.experimentFromPackage--> live experiment E (writes conf/flowir_instance.yaml, manifest.yaml)
   --history over the real mutators (<=3 operations)-->  E'   (every mutator stores the description again)
   at every state of the history (= every prefix of every word over the mutator alphabet):
        R  = Experiment.experimentFromInstance(dir, updateInstanceConfiguration=False)   must equal E'  (and write nothing)
        R1..Rn = experimentFromInstance(dir, updateInstanceConfiguration=True)  (load + store; n=3 near the root of the
                 history tree, n=1 deeper): every Ri must equal E' and every store must leave the stored description
                 unchanged (fixed point)
        Rn = experimentFromInstance(dir, platform=None)  for instances created for platform P (what etest/ememo do)
        continuation (DoWhile packages): the next iteration instantiated on R must give what it gives on E'
The oracle (verif.oracles.c07_same) is differential: node set, edges, configurationForNode(raw=False) of every node,
parsed data references (producer, file, method, resolved targets and paths), environments, globals / user variables /
key outputs / status report, loop documents and loop state.  Packages and histories: verif.gen.c07_pkgs.
"""
import contextlib
import hashlib
import os
import re
import sys

import yaml

from verif.core.runner import HarnessError, canon
from verif.gen import c07_pkgs as G
from verif.oracles import c07_same as O

PROPERTY = 'C07'
LEVEL = 'model_checking'
EXHAUSTIVE = True
CONTINUATION = False    # also judge sameness operationally (next loop iteration on the re-loaded experiment)
CYCLES = 3

# While the setOptionForNode defect is in the tree every state behind a patch operation fails in every kind of reload;
# that exceeds the runner's default of 400 kept failures, and failures that are not kept cannot be shown. Keep all.
import verif.core.runner as _runner
_runner.Collector.MAX_FAIL = max(_runner.Collector.MAX_FAIL, 50000)

RULE = ('Packages: {platform default | P; the document defines both, P overrides default in variables (global+stage), '
        'environments, blueprint (global+stage) and a component override section} x {no | one | two layered user '
        'variable files with global and stage scoped variables (one of them changes the replica count) [thorough: + the '
        'two files in reverse order, + a legacy .conf file]} x {plain | replicated + aggregated} x {no loop | DoWhile '
        'document imported at stage 1 [thorough: + a two-stage DoWhile]} (+ for P x DoWhile x {no, two} user files a '
        'variant where the P-global and the default-stage blueprint define the same option) as package DIRECTORIES with '
        'real top level folders data/ extra/ special/; plus (no loop) x platform x {no, two [thorough: + one, .conf]} user '
        'files x {plain, replicated} as a SINGLE FlowIR FILE with a manifest {data: relative source (copied), extra: '
        '<abs>:copy, special: <abs>:link} - components refer to files under every such folder, on reload the folders '
        'must be recognised from the instance directory alone: 36 packages quick, 84 thorough. Every package also carries YAML-fragile literal values (010, yes, 1e3, 0x1F, 12:30:00, null, ~, '
        '"a: b", leading blank, unicode, typed int/float/bool/big int), direct references (data/, input/), a key output '
        'and status-report entries. Histories: ALL words of length <=3 over the mutators I = '
        'instantiate_dowhile_next_iteration(store=True), Pa = setOptionForNode(plain node, #command.arguments) + '
        'store_unreplicated_flowir_to_disk, Pv = setOptionForNode(replica / aggregate / latest loop instance, variable '
        's) + store, Pe = setOptionForNode(sink, #command.executable) + store; alphabet quick: DoWhile packages {I,Pv}, '
        'others {Pa,Pv}; thorough: DoWhile packages {I,Pa,Pv}, others {Pa,Pv,Pe}. Every prefix of every word is a state '
        'and is judged exactly once (in the run of its lexicographically first extension): 1 load without update, 1 '
        'load+store cycle (3 cycles for prefixes of length <=1 quick / <=2 thorough), for P instances 1 load under '
        'platform=None and (prefixes of length <=1 quick / <=2 thorough) the default call experimentFromInstance(dir) = '
        'load+store under platform=None followed by a load with the platform of the instance; for DoWhile packages the '
        'continuation step (only if CONTINUATION); after every load/store the stored files are compared. '
        'A case = (package, history prefix, kind of reload); all cases are non-trivial (>=5 components, two platforms, '
        'layered values); distinct = distinct case.')
ASSUMPTIONS = [
    'the writing experiment is observed in memory at the moment of the comparison; the reloaded one through the same '
    'public queries (graph nodes/edges, configurationForNode(raw=False), ComponentSpecification data references, '
    'environmentForNode, get_global_variables, get_user_variables, get_key_outputs, get_status, DoWhile document state)',
    'an instance is reloaded with the platform it was created for (elaunch --restart does that); instances created for '
    'P are additionally reloaded with platform=None (etest/ememo refuse a platform for an instance directory): then the '
    'platform-keyed `override` section and the platform name are not compared (rule R2 of the oracle)',
    'the fixed point clause ("loading and storing again does not change the stored description") also covers the '
    'default call experimentFromInstance(dir) (platform=None, updateInstanceConfiguration=True; scripts/ewrap.py) on an '
    'instance created for P: the stored description must not change and a following load with platform P must still '
    'give the experiment that wrote the instance; the harness then writes the original files back',
    'FLOW_RUN_ID (a fresh uuid per Experiment object) is removed from environments (R1)',
    'graph edges from a non-latest instance of the loop-condition producer to a consumer that has no data reference to '
    'it are ignored on both sides (R3: the live graph never removes them, they carry no data); every edge implied by a '
    'data reference must exist on both sides',
    'the stored description is conf/flowir_instance.yaml + conf/manifest.yaml; "does not change" is judged on bytes '
    'first; if the bytes differ, the parsed documents are compared with the order of mapping keys and of the component '
    'list ignored (the writer enumerates a set of component ids) - equal documents are outcome "reordered", not a failure',
    'values are compared type-sensitively through canonical JSON (True != "true", 2 != "2", 60 != 60.0)',
    'a load with updateInstanceConfiguration=False must not modify the two files at all',
    'CONTINUATION: "the same experiment" is also judged operationally for DoWhile packages: instantiating the next '
    'iteration (without storing) on the re-loaded experiment must produce the experiment that the same step produces '
    'on the writing experiment (reported under sig continuation:*; set CONTINUATION=False to restrict the check to '
    'the literal clauses of the statement)',
    'ExperimentShadowDirectory.temporaryShadow (hard-wired to /tmp/chpc-<user>-shadow) is relocated into the scratch '
    'directory by the harness; application/virtualenv links are not created (createApplicationLinks=False)',
    'an exception raised by experimentFromPackage or by a mutator on the writing experiment is a harness error, an '
    'exception raised while re-loading an instance that a live experiment wrote is a violation',
]
MC_EXPLANATION = ('state = (package, history prefix) i.e. the live experiment plus its instance directory after the '
                  'prefix (fingerprint: hash of the package spec and the canonical observation of the live experiment); '
                  'transition = one real mutator call on the live experiment (I, Pa, Pv, Pe) or one load / load+store '
                  'of the instance directory; a trace = one maximal history executed on the implementation. The search '
                  'is exhaustive over all words of length <=3 (no pruning: mutators have side effects on disk, so '
                  'states reached by different words are all judged).')


# ------------------------------------------------------------------------------------------------- environment
@contextlib.contextmanager
def sandbox():
    """scratch dir + relocated shadow dir + sys.path restored (Experiment.__init__ appends the instance dir)."""
    from verif.gen.pkg import scratch_dir
    import experiment.model.storage as st
    saved_path = list(sys.path)
    orig = st.ExperimentShadowDirectory.__dict__['temporaryShadow']
    with scratch_dir('c07-') as d:
        shadow = os.path.join(d, 'shadow')
        os.mkdir(shadow)

        def temporary_shadow(name):
            return st.ExperimentShadowDirectory(name, shadow)

        st.ExperimentShadowDirectory.temporaryShadow = staticmethod(temporary_shadow)
        try:
            yield d
        finally:
            st.ExperimentShadowDirectory.temporaryShadow = orig
            sys.path[:] = saved_path


def create(spec, d):
    import experiment.model.data
    import experiment.model.storage
    from verif.gen.pkg import write_package
    # the folder that `special` links to lives outside the package (absolute link target)
    outside = os.path.join(d, 'outside')
    for folder, files in G.FOLDER_FILES.items():
        os.makedirs(os.path.join(outside, folder))
        for name, text in files.items():
            with open(os.path.join(outside, folder, name), 'w') as f:
                f.write(text)
    manifest = None
    if G.layout(spec) == 'file':
        if G.dowhile_document(spec) is not None:
            raise HarnessError('single-file packages cannot $import a DoWhile document: %r' % (spec,))
        src = os.path.join(d, 'source')
        os.makedirs(os.path.join(src, 'data'))
        for name, text in G.FOLDER_FILES['data'].items():
            with open(os.path.join(src, 'data', name), 'w') as f:
                f.write(text)
        pp = os.path.join(src, 'pk.yaml')
        with open(pp, 'w') as f:
            f.write(yaml.safe_dump(G.document(spec), sort_keys=False))
        manifest = {'data': 'data', 'extra': os.path.join(outside, 'extra') + ':copy',
                    'special': os.path.join(outside, 'special') + ':link'}
    else:
        extra = dict(G.extra_files(spec))
        dw = G.dowhile_document(spec)
        if dw is not None:
            extra['conf/dowhile.yaml'] = yaml.safe_dump(dw, sort_keys=False)
        pp = write_package(G.document(spec), d, extra_files=extra, name='pk')
    vfs = []
    for name, content in G.user_variable_files(spec):
        p = os.path.join(d, name)
        with open(p, 'w') as f:
            f.write(content if isinstance(content, str) else yaml.safe_dump(content))
        vfs.append(p)
    inputs = []
    for name, content in G.INPUT_FILES.items():
        p = os.path.join(d, name)
        with open(p, 'w') as f:
            f.write(content)
        inputs.append(p)
    platform = spec['platform']
    try:
        pkg = experiment.model.storage.ExperimentPackage.packageFromLocation(pp, platform=platform, manifest=manifest)
        exp = experiment.model.data.Experiment.experimentFromPackage(
            pkg, location=d, platform=platform, variable_files=vfs or None, inputs=inputs, timestamp=False,
            createApplicationLinks=False, createVirtualEnvLinks=False)
        exp.validateExperiment(checkExecutables=False)
    except Exception as e:
        import traceback
        raise HarnessError('C07 package %r cannot be instantiated: %s\n%s' % (spec, e, traceback.format_exc()))
    return exp, exp.instanceDirectory.location


def reload(inst, platform, update):
    import experiment.model.data
    return experiment.model.data.Experiment.experimentFromInstance(
        inst, platform=platform, updateInstanceConfiguration=update)


STORED = ('conf/flowir_instance.yaml', 'conf/manifest.yaml')


def read_stored(inst):
    out = {}
    for rel in STORED:
        p = os.path.join(inst, rel)
        if os.path.exists(p):
            with open(p, 'rb') as f:
                out[rel] = f.read()
    return out


# ------------------------------------------------------------------------------------------------- observation
def observe_node(g, n):
    spec = g.graph.nodes[n]['componentSpecification']
    d = {'conf': g.configurationForNode(n, raw=False)}
    try:
        d['env'] = dict(g.environmentForNode(n))
    except Exception as e:
        d['env'] = {'!': type(e).__name__}
    refs = {'raw': list(spec.rawDataReferences), 'input': [], 'component': []}
    for r in spec.inputDataReferences:
        item = {'ref': r.relativeReference, 'file': r.path, 'method': r.method}
        try:
            item['resolved'] = r.resolve(g)
        except Exception as e:
            item['resolved'] = '!' + type(e).__name__
        refs['input'].append(item)
    for r in spec.componentDataReferences:
        item = {'stage': r.stageIndex, 'producer': r.producerName, 'file': r.path, 'method': r.method}
        targets = r.true_reference_to_component_id(g)
        item['targets'] = sorted('stage%d.%s' % tuple(t) for t in (targets or []))
        if r.method not in ('output', 'loopoutput'):
            try:
                item['resolved'] = r.resolve(g)
            except Exception as e:
                item['resolved'] = '!' + type(e).__name__
        refs['component'].append(item)
    d['refs'] = refs
    return d


def observe(exp):
    import experiment.model.frontends.flowir as F
    g = exp.experimentGraph
    conf = g.configuration
    concrete = conf.get_flowir_concrete(return_copy=False)
    obs = {
        'platform': conf.get_platform_name(),
        'nstages': g.numberStageConfigurations,
        'globals': conf.get_global_variables(),
        'user_variables': conf.get_user_variables(),
        'key_outputs': conf.get_key_outputs(),
        'status': concrete.get_status(),
        'top_level_folders': list(conf.top_level_folders),
        'nodes': {n: observe_node(g, n) for n in sorted(g.graph.nodes)},
        'edges': [list(e) for e in g.graph.edges()],
        'loops': {},
    }
    for dw_id, entry in sorted(g._documents.get(F.FlowIR.LabelDoWhile, {}).items()):
        doc = entry['document']
        state = entry.get('state') or {}
        cond = state.get('currentCondition')
        cstage = cname = None
        if cond:
            cstage, cprod, _, _ = F.FlowIR.ParseDataReferenceFull(cond, doc.get('stage', 0))
            cname = cprod.split('#', 1)[1] if '#' in cprod else cprod
        obs['loops'][dw_id] = {
            'iteration': state.get('currentIteration'), 'condition': cond, 'condition_producer': [cstage, cname],
            'document': {k: doc.get(k) for k in ('stage', 'name', 'condition', 'bindings', 'loopBindings', 'inputBindings')},
            'template_components': sorted('%s.%s' % (c.get('stage', 0), c['name']) for c in doc.get('components', [])),
            'placeholders': {p: {'represents': sorted(v['represents']), 'latest': v['latest']}
                             for p, v in sorted(g._placeholders.items()) if v.get('DoWhileId') == dw_id},
        }
    return O.jclone(obs)


# ------------------------------------------------------------------------------------------------- mutators
def loop_handle(exp):
    import experiment.model.frontends.flowir as F
    g = exp.experimentGraph
    docs = g._documents.get(F.FlowIR.LabelDoWhile, {})
    if len(docs) != 1:
        raise HarnessError('expected exactly one DoWhile document, found %r' % list(docs))
    entry = list(docs.values())[0]
    return g, entry['document'], entry['state']['currentIteration']


def op_iterate(exp, store):
    g, doc, k = loop_handle(exp)
    g.instantiate_dowhile_next_iteration(doc, k + 1, store)
    return k + 1


def patch_target(spec, exp, letter):
    """-> (node name, option key). Pure function of the package and of the number of iterations instantiated so far."""
    tail = G.stage_of_tail(spec)
    if letter == 'Pa':
        return 'stage0.src', '#command.arguments'
    if letter == 'Pe':
        return 'stage%d.sink' % tail, '#command.executable'
    if letter == 'Pv':
        if spec['loop']:
            _, _, k = loop_handle(exp)
            return 'stage1.%d#add%s' % (k, '0' if spec['rep'] else ''), 's'
        if spec['rep']:
            return 'stage0.mid1', 's'
        return 'stage%d.sink' % tail, 's'
    raise HarnessError('unknown letter %r' % letter)


def patch_value(letter, j):
    return {'Pa': 'patched-%d %%(s)s %%(g)s' % j, 'Pv': 's-patched-%d' % j,
            'Pe': ['/bin/echo', '/usr/bin/env', '/bin/true', '/bin/sh'][j % 4]}[letter]


def apply_op(spec, exp, letter, j, pending):
    g = exp.experimentGraph
    if letter == 'I':
        op_iterate(exp, True)
        pending.clear()          # replicate() rebuilt the live configuration from the unreplicated description
        return
    node, key = patch_target(spec, exp, letter)
    if node not in g.graph.nodes:
        raise HarnessError('patch target %s is not a node of %r' % (node, sorted(g.graph.nodes)))
    if node not in pending:
        before = observe_node(g, node)
        pending[node] = O.jclone({'conf': before['conf'], 'env': before['env']})
    g.setOptionForNode(node, key, patch_value(letter, j))
    g.configuration.store_unreplicated_flowir_to_disk()


# ------------------------------------------------------------------------------------------------- judging
_SCRATCH = re.compile(r'/[^\s"\']*?/c07-[A-Za-z0-9_]{6,10}(?=/|\b)')


def report(col, case, why, observed=None, sig=None):
    """col.fail with the name of the scratch directory (random per run) replaced, so that a replay reproduces the
    same text."""
    import json
    why = _SCRATCH.sub('<ROOT>', str(why))
    if observed is not None:
        observed = json.loads(_SCRATCH.sub('<ROOT>', canon(observed)))
    col.fail(case, why, observed, sig=sig)


def short(diffs, n=12):
    return O.jclone(diffs[:n])


def judge_reload(col, case, kind, mem, inst, platform, update, pending, mode):
    """One load (or load+store) of the instance directory compared with the live observation `mem` (normalised)."""
    c = dict(case, reload=kind)
    col.evaluated()
    col.nontriv(c)
    col.transitions += 1
    try:
        rexp = reload(inst, platform, update)
        robs = O.normalise(observe(rexp), mode)
    except HarnessError:
        raise
    except Exception as e:
        import traceback
        col.outcome('FAIL:reload-raises')
        report(col, c, 'loading the instance directory that the live experiment wrote raises %s: %s' % (type(e).__name__, str(e)[:600]),
                 {'traceback': traceback.format_exc()[-1500:], 'message': ' '.join(str(e).split())[-400:]},
                 sig='reload-raises:%s' % type(e).__name__)
        return None
    m = O.normalise(mem, mode) if mode != 'same' else mem
    diffs = O.diff_observations(m, robs)
    pend = pending
    if mode == 'none':
        pend = {n: {'conf': {k: v for k, v in b['conf'].items() if k != 'override'},
                    'env': {k: v for k, v in b['env'].items() if k != 'FLOW_RUN_ID'}} for n, b in pending.items()}
    else:
        pend = {n: {'conf': b['conf'], 'env': {k: v for k, v in b['env'].items() if k != 'FLOW_RUN_ID'}}
                for n, b in pending.items()}
    lost, other = O.split_patch_lost(diffs, pend, robs)
    if other:
        sig = 'differs:' + O.signature(other)
        col.outcome('FAIL:' + sig)
        report(col, c, 'the re-loaded experiment (%s) differs from the experiment that wrote the instance: %s'
                 % (kind, canon(short(other, 6))[:1200]),
                 {'diffs': short(other), 'n_diffs': len(other), 'also_lost_patches': short(lost, 4)}, sig=sig)
    elif lost:
        col.outcome('FAIL:patch-lost')
        report(col, c, 'an option patched with setOptionForNode and stored with store_unreplicated_flowir_to_disk is not in '
                    'the re-loaded experiment (%s): %s' % (kind, canon(short(lost, 4))[:1000]),
                 {'diffs': short(lost), 'n_diffs': len(lost), 'pending_nodes': sorted(pending)}, sig='patch-lost')
    else:
        stale = len(O.stale_condition_edges(m))
        col.outcome('same-experiment' + (':live-graph-keeps-old-condition-edges' if stale else ''))
    return rexp


def judge_stored(col, case, kind, before, after, must_be_bytes, sig_suffix=''):
    c = dict(case, reload=kind, stored=True)
    col.evaluated()
    col.nontriv(c)
    verdict, details = O.compare_stored(before, after)
    if verdict == 'identical':
        col.outcome('stored:bytes-identical')
    elif verdict == 'reordered' and not must_be_bytes:
        col.outcome('stored:same-document-reordered')
    else:
        if must_be_bytes:
            sig, why = 'load-without-update-wrote-files', 'a load with updateInstanceConfiguration=False modified the stored description'
        else:
            sig, why = 'fixed-point' + sig_suffix, 'loading and storing again changed the stored description'
        col.outcome('FAIL:' + sig)
        report(col, c, '%s (%s): %s' % (why, kind, canon(details)[:1200]), {'details': O.jclone(details)}, sig=sig)


def judge_continuation(col, case, cont_obs, mem_next):
    c = dict(case, reload='continuation')
    col.evaluated()
    col.nontriv(c)
    diffs = O.diff_observations(mem_next, cont_obs)
    if diffs:
        sig = 'continuation:' + O.signature(diffs)
        col.outcome('FAIL:' + sig)
        report(col, c, 'the next loop iteration instantiated on the re-loaded experiment differs from the one instantiated '
                    'on the writing experiment: %s' % canon(short(diffs, 6))[:1200],
                 {'diffs': short(diffs, 40), 'n_diffs': len(diffs)}, sig=sig)
    else:
        col.outcome('continuation:same-experiment')


def check_state(col, spec, prefix, exp, inst, pending, want_continuation, thorough):
    """Judges the state reached after `prefix`. Returns the observation of (re-loaded experiment + next iteration) when
    a continuation is wanted, else None."""
    case = {'pkg': spec, 'history': list(prefix)}
    mem = O.normalise(observe(exp), 'same')
    col.state(hashlib.sha1(canon([spec, mem]).replace(os.path.dirname(inst), '<ROOT>').encode()).hexdigest())
    platform = spec['platform']
    files0 = read_stored(inst)
    if set(files0) != set(STORED):
        col.evaluated()
        col.outcome('FAIL:stored-file-missing')
        report(col, dict(case, reload='files'), 'the live experiment did not leave %s' % sorted(set(STORED) - set(files0)),
                 None, sig='stored-file-missing')
        return None
    cont = None
    r0 = judge_reload(col, case, 'load', mem, inst, platform, False, pending, 'same')
    files = read_stored(inst)
    judge_stored(col, case, 'load', files0, files, True)
    if want_continuation and r0 is not None:
        try:
            op_iterate(r0, False)
            cont = O.normalise(observe(r0), 'same')
        except HarnessError:
            raise
        except Exception as e:
            import traceback
            col.evaluated()
            col.outcome('FAIL:continuation-raises')
            report(col, dict(case, reload='continuation'), 'instantiating the next iteration on the re-loaded experiment raises %s: %s'
                     % (type(e).__name__, str(e)[:500]), {'traceback': traceback.format_exc()[-1500:]},
                     sig='continuation-raises:%s' % type(e).__name__)
            cont = None
        after = read_stored(inst)
        if after != files:
            raise HarnessError('instantiate_dowhile_next_iteration(store=False) on the re-loaded experiment wrote files')
    cycles = CYCLES if len(prefix) <= (2 if thorough else 1) else 1
    for cyc in range(1, cycles + 1):
        judge_reload(col, case, 'load+store#%d' % cyc, mem, inst, platform, True, pending, 'same')
        nxt = read_stored(inst)
        judge_stored(col, case, 'load+store#%d' % cyc, files, nxt, False)
        files = nxt
    if platform != 'default':
        judge_reload(col, case, 'load(platform=None)', mem, inst, None, False, pending, 'none')
        judge_stored(col, case, 'load(platform=None)', files, read_stored(inst), True)
        if len(prefix) <= (2 if thorough else 1):
            # the default call experimentFromInstance(dir) (platform=None, update=True; ewrap.py does exactly that):
            # load + store without a platform argument, then the restart that elaunch does (platform of the instance)
            judge_reload(col, case, 'load+store(platform=None)', mem, inst, None, True, pending, 'none')
            judge_stored(col, case, 'load+store(platform=None)', files, read_stored(inst), False, ':platform=None')
            judge_reload(col, case, 'load-after-store(platform=None)', mem, inst, platform, False, pending, 'same')
            # put the description of the live experiment back (the harness, not the code under test, undoes the store)
            for rel, data in files.items():
                with open(os.path.join(inst, rel), 'wb') as f:
                    f.write(data)
    return cont


def run_history(col, spec, history, thorough, only_final=False):
    letters = G.alphabet(spec, thorough)
    with sandbox() as d:
        exp, inst = create(spec, d)
        pending = {}
        cont = None
        col.traces += 1
        for j in range(len(history) + 1):
            checked = (j == len(history)) if only_final else G.first_visit(history, j, letters)
            if cont is not None and not only_final:
                # the live experiment has just made the step that the re-loaded one made without storing
                judge_continuation(col, {'pkg': spec, 'history': list(history[:j - 1])}, cont,
                                   O.normalise(observe(exp), 'same'))
                cont = None
            if checked:
                want = CONTINUATION and bool(spec['loop']) and j < len(history) and history[j] == 'I' and not only_final
                cont = check_state(col, spec, history[:j], exp, inst, pending, want, thorough or only_final)
            if j == len(history):
                break
            apply_op(spec, exp, history[j], j, pending)
            col.transitions += 1


def worker(col, item, tier, seed):
    spec, history = item
    run_history(col, spec, history, tier == 'thorough')
    if history and all(x == history[0] for x in history):
        col.sample({'pkg': spec, 'history': history})


def run(ctx):
    items = []
    specs = G.package_specs(ctx.thorough)
    for spec in specs:
        for h in G.maximal_histories(spec, ctx.thorough):
            items.append((spec, h))
    ctx.count('packages', len(specs))
    ctx.count('maximal_histories', len(items))
    # longest first so that the pool drains evenly
    items.sort(key=lambda it: (-it[0]['loop'], -it[0]['rep'], canon(it)))
    ctx.pmap('verif.props.c07', 'worker', items, maxtasksperchild=25)


def replay(ctx, case):
    """Re-executes the history prefix of the case and judges its final state (all kinds of reload); for a
    continuation case the state and the continuation step."""
    spec, history = case['pkg'], list(case['history'])
    thorough = True if any(x == 'Pe' for x in history) else ctx.thorough
    if case.get('reload') == 'continuation':
        letters = G.alphabet(spec, thorough)
        with sandbox() as d:
            exp, inst = create(spec, d)
            pending = {}
            for j, op in enumerate(history):
                apply_op(spec, exp, op, j, pending)
            mem = O.normalise(observe(exp), 'same')
            r0 = reload(inst, spec['platform'], False)
            op_iterate(r0, False)
            cont = O.normalise(observe(r0), 'same')
            apply_op(spec, exp, 'I', len(history), pending)
            judge_continuation(ctx, {'pkg': spec, 'history': history}, cont, O.normalise(observe(exp), 'same'))
        return
    run_history(ctx, spec, history, thorough, only_final=True)
    if case.get('reload'):
        keep = [f for f in ctx.failures if f['case'].get('reload') == case['reload']
                and bool(f['case'].get('stored')) == bool(case.get('stored'))]
        if keep:
            ctx.failures = keep
            ctx.n_failures = len(keep)


# ------------------------------------------------------------------------------------------------- known findings
def _sel_patch_lost(f):
    """setOptionForNode() patches the replicated configuration, store_unreplicated_flowir_to_disk() writes the
    unreplicated one: the case must contain a patch operation that is still pending and EVERY difference must be a
    conf/env difference of a patched node whose re-loaded value is the pre-patch value (established by the oracle:
    sig 'patch-lost' is only given when the re-loaded node equals the pre-patch node in its entirety)."""
    if f.get('sig') != 'patch-lost':
        return False
    case, obs = f['case'], f.get('observed') or {}
    if not any(op in ('Pa', 'Pv', 'Pe') for op in case.get('history', [])):
        return False
    nodes = set(obs.get('pending_nodes') or [])
    return bool(nodes) and all(d.get('kind') in ('conf', 'env') and d.get('node') in nodes for d in obs.get('diffs', []))


def _sel_continuation_blueprint(f):
    """The stored description keeps the blueprint of the selected platform merged per scope (global / stage) under
    `default`; a later iteration instantiated from the stored description resolves default-stage over P-global, the
    live experiment P-global over default-stage. Only the package variant bp=1 on platform P, only the option that
    both scopes define, only the new iteration, live value = P-global (5), re-loaded value = default-stage (3)."""
    if not str(f.get('sig', '')).startswith('continuation:'):
        return False
    case, obs = f['case'], f.get('observed') or {}
    pkg = case.get('pkg', {})
    if not (pkg.get('bp') == 1 and pkg.get('platform') == 'P' and pkg.get('loop')):
        return False
    diffs = obs.get('diffs', [])
    if not diffs or obs.get('n_diffs') != len(diffs):
        return False
    k_next = sum(1 for op in case.get('history', []) if op == 'I') + 1
    for d in diffs:
        if d.get('kind') != 'conf' or d.get('path') != 'resourceRequest.numberThreads':
            return False
        if d.get('mem') != 5 or d.get('rel') != 3:
            return False
        if not str(d.get('node', '')).startswith('stage1.%d#' % k_next):
            return False
    return True


def _sel_platform_forgotten(f):
    """experimentFromInstance(dir) without a platform argument (update=True) on an instance created for platform P
    stores `platforms: [default]` and drops the `override` sections of P; the next load with platform P is rejected
    ("Unknown platform"). Only the two kinds of reload that follow a platform-less store, only instances created for P,
    and only these two shapes: (a) the stored description differs ONLY in `platforms` (P removed) and in removed
    component `override` sections of conf/flowir_instance.yaml; (b) the reload with P raises the unknown-platform error."""
    case, obs = f['case'], f.get('observed') or {}
    if case.get('pkg', {}).get('platform') == 'default':
        return False
    sig = str(f.get('sig', ''))
    if case.get('reload') == 'load+store(platform=None)' and case.get('stored') and sig == 'fixed-point:platform=None':
        details = obs.get('details') or []
        changed = [d for d in details if 'diff' in d or d.get('what') != 'same document, different spelling/order']
        if len(changed) != 1 or changed[0].get('file') != 'conf/flowir_instance.yaml' or not changed[0].get('diff') \
                or changed[0].get('n_diff') != len(changed[0]['diff']):
            return False
        for d in changed[0]['diff']:
            path = d.get('path', '')
            if path == 'platforms':
                if d.get('after') != ['default'] or case['pkg']['platform'] not in (d.get('before') or []):
                    return False
            elif path.startswith('components.') and path.endswith('.override'):
                if d.get('after') != '<absent>':
                    return False
            else:
                return False
        return True
    if case.get('reload') == 'load-after-store(platform=None)' and sig.startswith('reload-raises:'):
        return 'Unknown platform "%s"' % case['pkg']['platform'] in str(obs.get('message', ''))
    return False


KNOWN_SELECTORS = {
    'platform_forgotten_by_platformless_store': _sel_platform_forgotten,
    'patched_option_not_persisted': _sel_patch_lost,
    'continuation_blueprint_scope_order': _sel_continuation_blueprint,
}
