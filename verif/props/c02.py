"""C02 — see DESIGN.md §3 C02. Driver, scenarios, reference model and judges live in verif/vsched/ctl.py."""
from verif.vsched import ctl

PROPERTY = 'C02'
LEVEL = 'model_checking'
EXHAUSTIVE = True
RULE = ('Stateless exploration of the REAL Controller/ComponentState/Engine/RepeatingEngine/monitor classes under a controlled '
        'scheduler. Scenario = workflow (chain2/3, pair, fan-in, diamond, cross-stage x2, restart from stage 1, same-stage observers, '
        'observer with two subjects in both listing orders, cross-stage observer, mixed observer, replicated+aggregating shapes, '
        'late sibling, real DoWhile loops in three shapes, observers of same-named producers) x exit script per component (success / shutdown-listed / unrecoverable / '
        'restartable x1 x4 / failed submission x1 x6 / task-reported SubmissionFailed x1 x6; every single assignment and every pair '
        'over {shutdown-listed, unrecoverable, restartable}) + duration scenarios (long-running siblings, exits inside the 25 s '
        'stability wait, slowly draining stages). Every scenario runs on the canonical fair schedule; ALL schedules with <=1 '
        'deviation (a younger activity first, a task exiting early, a timer firing early) for chain2, pair, observer and one '
        'seed-rotated scenario (thorough: every single-fault scenario of chain2, pair, fanin, xstage, observer); all 1-deviation schedules at boundary actions for the '
        'two-fault race scenarios; line-level preemption points + stall deviation inside Controller.run / finishedCheck / '
        'ComponentState.finish / postMortemCheck / _schedule / Engine.restart+kill (4 fixed + 2 seed-rotated of 45 combinations; thorough all); '
        'operator pause/wake-up scenarios (Controller.sleep, wake_up) and memoization scenarios (fake component database: hit / fetch '
        'fails); thorough: deviation bound 2 at boundary actions for chain2. '
        'Oracle at the end of every execution: the stage loop terminated within the virtual horizon, every component of the stages '
        'that ran is in a final state, and the final-state map / run() verdict / StageState.state agree with the reference model '
        'written from the documented rules (verif/vsched/ctl.py reference_outcome). distinct = distinct (scenario, choice prefix).')
ASSUMPTIONS = [
    'same controlled-runtime assumptions as C01',
    'a same-stage repeating observer whose subject is shut down or failed may end finished or shut-down (statement leaves it open)',
    'virtual horizon 900 s and 30000 steps per execution; reaching either is reported as non-termination',
]
MC_EXPLANATION = ('states = distinct fingerprints seen at choice points; transitions = scheduling steps executed; '
                  'traces_validated_against_impl = complete executions of the implementation (every trace is an implementation trace)')


def run(ctx):
    ctl.run(ctx, 'C02')


def replay(ctx, case):
    ctl.replay(ctx, 'C02', case)
