"""C02 — see DESIGN.md §3 C02. Driver, scenarios, reference model and judges live in verif/vsched/ctl.py."""
from verif.vsched import ctl

PROPERTY = 'C02'
LEVEL = 'model_checking'
EXHAUSTIVE = True
RULE = ('Same executions as C01 (stateless exploration of the real runtime classes under a controlled scheduler; every scenario on '
        'the canonical schedule, all <=1-deviation schedules for the core scenarios). Oracle at the end of every execution: the '
        'stage loop terminated within the virtual horizon, every component of the stages that ran is in exactly one final state '
        'recorded by the controller, and the final-state map / run() verdict / stage state equal the reference model written from '
        'the documented rules (verif/vsched/ctl.py reference_outcome). distinct = distinct (scenario, choice prefix).')
ASSUMPTIONS = [
    'same controlled-runtime assumptions as C01',
    'a same-stage repeating observer whose subject is shut down or failed may end finished or shut-down (statement leaves it open)',
    'virtual horizon 900 s and 30000 steps per execution; reaching either is reported as non-termination',
]
MC_EXPLANATION = ('states = distinct fingerprints seen at choice points; transitions = scheduling steps executed; '
                  'traces_validated_against_impl = complete executions of the implementation (every trace is an implementation trace)')


def run(ctx):
    ctl.run(ctx, 'C02')


def replay(ctx, case):
    ctl.replay(ctx, 'C02', case)
