"""C19 — The legacy configuration format (DOSINI) round-trips an instance.

For every enumerated workflow W:   I = FlowIRConcrete(W, platform).instance(...)        (the description that is written)
                                   Dosini.dump(I, dir, is_instance=True) [+ status.conf / output.conf writers]
                                   L = Dosini().load_from_directory(dir, [], {}, is_instance=True)
and   observe(I) == observe(L)   where observe() asks a FlowIRConcrete built from the description for every
component's resolved configuration / references / variables and for the environments, status and output sections.
"""
import copy
import os

from verif.core.runner import HarnessError
from verif.gen import c19_options as G
from verif.oracles import c19_diff as D

PROPERTY = 'C19'
LEVEL = 'exploration'
EXHAUSTIVE = True

# One asymmetric option fails in every case that sets it (single, blueprint, pair, backend, end-to-end): while such a
# defect is still in the tree the number of failing cases exceeds the runner's default of 400 kept failures, and
# failures that are not kept cannot be attributed to a known finding. Keep all of them (a class attribute, read
# dynamically by the runner in this process and in the workers that import this module).
import verif.core.runner as _runner
_runner.Collector.MAX_FAIL = max(_runner.Collector.MAX_FAIL, 20000)

# Options of the FlowIR component schema that the legacy format has no key for in either direction (neither
# Dosini.known_flowir_options()/dosini_to_flowir_translate_map() nor any writer of Dosini mentions them): they were
# added to FlowIR after the legacy format was frozen. A workflow that sets them is not "expressible in the legacy
# format", so the property does not speak about it. `isRepeat` is not an independent option (FlowIR recomputes it from
# repeatInterval whenever defaults are injected). `executors.main` accepts no non-empty value in the schema.
FLOWIR_ONLY = {
    'resourceManager.kubernetes.podSpec': 'FlowIR-only (no legacy key)',
    'resourceManager.kubernetes.qos': 'FlowIR-only (no legacy key)',
    'resourceManager.docker.image': 'FlowIR-only (docker backend options have no legacy key)',
    'resourceManager.docker.imagePullPolicy': 'FlowIR-only (docker backend options have no legacy key)',
    'resourceManager.docker.platform': 'FlowIR-only (docker backend options have no legacy key)',
    'resourceRequest.gpus': 'FlowIR-only (no legacy key)',
    'workflowAttributes.isMigrated': 'FlowIR-only (no legacy key; set by the runtime when a component is migrated)',
    'workflowAttributes.isRepeat': 'derived from repeatInterval, not independently settable',
}

RULE = ('The component option table is derived at run time from FlowIR.type_flowir_component("full") + '
        'default_component_structure() (55 leaves today); for every option leaf every value of a fixed candidate pool '
        'that the leaf schema accepts, that differs from the default and that gives a valid workflow (literals of each '
        'type, floats with 1..7 decimals, strings with blanks / = / : / ; / %%, None, lists, "%%(cvar)s" variable references; quick tier: the first '
        '6 literals + 2 variable references per option, thorough: all) is set (a) on the component, (b) in the global '
        'blueprint, (c) in the stage blueprint; plus all pairs of options inside one top-level section (2x2 values, '
        'thorough 3x3); plus every option under every backend of FlowIR.Backends (with the image a backend requires); '
        'plus families: variables (7 names x 20 values x 6 scopes incl. shadowing), environments (7 names x 15 bodies, '
        'pairs of environments, SANDBOX application-dependencies x virtualenvs), reference lists, component names, '
        'status-report entries (10x10), stage-weight vectors that add up to one with 1..7 decimal digits over 2..4 '
        'stages and FlowIR default weights for 2..8 stages, output entries, instances generated for a non-default platform (platform '
        'variables / environments / blueprint / override). Each document is written in two instance styles (all fields '
        'injected, as tests/test_dosini.py does / only the fields that are set, as DOSINIExperimentConfiguration does). '
        'Family e2e: a legacy package is authored on disk, DOSINIExperimentConfiguration(createInstanceFiles=True, '
        'primitive=False) writes the instance files (with and without a user variables file, platform default / p1), '
        'and the written files are loaded. Family backendvar: the options that only the legacy format knows for a '
        'backend (Dosini.options_for_backend minus the FlowIR vocabulary: the simulator sim_* keys, carried as component '
        'variables) x every backend x backend named literally / through a component variable / through a global '
        'variable, with and without the component of the later stage naming the backend literally, also through '
        'family e2e (the package is loaded once, the same configuration object writes the instance files). Histories (each step judged like a single case: what is loaded equals what that step wrote): family '
        'rewrite = all ordered pairs (thorough: triples) of 12 structurally different descriptions (1-4 stages, other '
        'component names, environments/sandbox, status, output, variables, backends) written one after the other into '
        'ONE directory with update_existing=True; family history = the same pairs, plus (literal backend) x (legacy-only '
        'backend options with a backend given through a variable), as complete round trips in ONE process. Excluded by rule: options in FLOWIR_ONLY (%s) and the docker backend (needs '
        'docker.image); documents that FlowIRConcrete.validate() rejects or whose source instance cannot be resolved; '
        'bool literals for numeric options, float literals where the schema does not name float; an explicitly empty '
        'list for an option whose default list is not empty (restartHookOn: [] - the legacy loader reads an empty value '
        'as "not set"); not in the alphabet: variable names that are legacy option keywords, environment names '
        'SANDBOX/DEFAULT, component names META/DEFAULT, values with leading/trailing blanks or line breaks, names '
        'containing = : [ ]. A case is non-trivial when its document differs from the base document; distinct = '
        'distinct (family, parameters, style).' % ', '.join(sorted(FLOWIR_ONLY)))

ASSUMPTIONS = [
    'the description that was written and the description that was loaded are both observed through '
    'FlowIRConcrete(description, "default", {}): get_component_configuration(raw=False, include_default=True, '
    'is_primitive=True) for components (configuration, references, variables), get_environment(name) for every '
    'environment, get_status(), get_output(), get_application_dependencies(), get_virtual_environments()',
    'Dosini.dump(is_instance=True) does not write status.conf/output.conf (a legacy instance keeps the files of its '
    'package); like tests/test_dosini.py::test_dump_instance the check writes them with Dosini._dump_status / '
    '_dump_output from the same instance description (family e2e uses the files of the package)',
    'numbers are compared by value (120 == 120.0), bool/str/None by type and value; a key that is absent equals a key '
    'that is None; variable values and environment values are compared as the text they interpolate to (the legacy '
    'format stores text only)',
    'in status/output entries a key that is absent, None, "" or [] is the same observation (every consumer reads '
    'them with .get(key, "") / .get(key, []))',
    'environment names are compared case-insensitively (FlowIR lower-cases them when it loads a description)',
    'application-dependencies and virtual-environments are part of the "environments" section (legacy [SANDBOX])',
    'an exception or a reported error while writing or loading a valid, legacy-expressible workflow is a failure',
    'the runner cap of kept failures is raised to 20000 by this module so that every failing case can be attributed',
]

STYLES = ('full', 'sparse')
TOP_FOLDERS = ['data', 'input', 'bin', 'conf']


# --------------------------------------------------------------------------------------------------- observation
def observe(flowir):
    """Observation of an instance description (see verif/oracles/c19_diff.py). Raises if it cannot be resolved."""
    from experiment.model.frontends.flowir import FlowIRConcrete
    c = FlowIRConcrete(copy.deepcopy(flowir), 'default', {})
    comps = {}
    for (stage, name) in sorted(c.get_component_identifiers(True)):
        cfg = c.get_component_configuration((stage, name), raw=False, include_default=True, is_primitive=True)
        variables = cfg.pop('variables', {})
        references = cfg.pop('references', [])
        cfg.pop('override', None)   # resolved against platform 'default'; per-platform overrides of other platforms
        comps['stage%d.%s' % (stage, name)] = {
            'config': cfg, 'references': list(references),
            'variables': {str(k): _text(v) for k, v in variables.items()}}
    envs = {}
    for name in c.get_environments('default'):
        envs[name.lower()] = {str(k): _text(v) for k, v in c.get_environment(name).items()}
    return {
        'components': comps,
        'environments': envs,
        'application-dependencies': list(c.get_application_dependencies()),
        'virtual-environments': list(c.get_virtual_environments()),
        'status': {int(k): D.drop_empty(v) for k, v in c.get_status().items()},
        'output': {str(k): D.drop_empty(v) for k, v in c.get_output().items()},
    }


def _text(v):
    return '' if v is None else str(v)


def make_instance(doc, platform, style):
    from experiment.model.frontends.flowir import FlowIRConcrete
    src = FlowIRConcrete(copy.deepcopy(doc), platform, {})
    errs = src.validate(top_level_folders=list(TOP_FOLDERS))
    if errs:
        return None, 'invalid-source:%s' % type(errs[0]).__name__
    if style == 'full':
        inst = src.instance(ignore_errors=True, fill_in_all=False)
    else:
        inst = src.instance(ignore_errors=True, inject_missing_fields=False, fill_in_all=False, is_primitive=True)
    return inst, None


def files_of(d):
    out = {}
    for r, _, fs in os.walk(d):
        for f in fs:
            p = os.path.join(r, f)
            with open(p) as fh:
                out[os.path.relpath(p, d)] = fh.read()
    return out


# --------------------------------------------------------------------------------------------------- cases
def build(case):
    """case -> (doc, platform)"""
    fam = case['family']
    if fam == 'e2e':
        fam = case['doc']
    if fam in ('option', 'pair', 'backend'):
        settings = [(tuple(p.split('.')), G.cand_from_json(c)) for p, c in case['settings']]
        return G.option_doc(settings, via=case['via']), case.get('platform', 'default')
    if fam == 'variables':
        return G.variables_doc(case['scope'], case['name'], case['value']), 'default'
    if fam == 'environments':
        return G.environments_doc(case['envs'], case.get('use'), case.get('app_deps'), case.get('venvs')), 'default'
    if fam == 'references':
        return G.references_doc(case['refs']), 'default'
    if fam == 'names':
        return G.names_doc(case['name'], case['both']), 'default'
    if fam == 'status':
        return G.status_doc(case['e0'], case['e1']), 'default'
    if fam == 'weights':
        return G.status_weights_doc(case['weights'], case['exe']), 'default'
    if fam == 'output':
        return G.output_doc([tuple(x) for x in case['entries']]), 'default'
    if fam == 'platform':
        return G.platform_doc(case['variant']), case['platform']
    if fam == 'base':
        return G.base_doc(), 'default'
    if fam == 'stages':
        return G.stages_doc(case['n']), 'default'
    if fam == 'backendvar':
        return G.backend_var_doc(case['backend'], case['how'], case['key'], case['value'],
                                 BACKEND_NEEDS.get(case['backend'], []), case.get('peer', False)), 'default'
    raise HarnessError('unknown case family %r' % (fam,))


INSTANCE_FLAGS = dict(ignore_errors=True, inject_missing_fields=False, fill_in_all=False, is_primitive=True)
USER_VARIABLES = '[GLOBAL]\ngvar = gv-user\nuonly = u1\n\n[STAGE0]\nsvar = sv0-user\n'


def _shape_of_message(msg):
    import re
    msg = re.sub(r"'[^']*'|\"[^\"]*\"|\d+", '', str(msg))
    msg = re.split(r' in | at |:', msg)[0]
    return ' '.join(msg.split()[:5])


def _plain(obj):
    """only plain JSON values may travel through the process pool / into replay files"""
    import json
    return json.loads(json.dumps(obj, default=repr))


def _raised_inside_dump(e):
    import traceback
    for frame, _ in traceback.walk_tb(e.__traceback__):
        if frame.f_code.co_name == 'dump' and frame.f_code.co_filename.endswith('dosini.py'):
            return True
    return False


def _fail_exc(col, case, stage, e, files):
    col.outcome('FAIL:%s-raises' % stage)
    col.fail(case, '%s the instance raised %s: %s' % (stage, type(e).__name__, str(e)[:300]),
             _plain({'stage': stage, 'exception': type(e).__name__, 'message': str(e)[:500], 'files': files}),
             sig='raises:%s:%s' % (type(e).__name__, _shape_of_message(e)))
    return 'fail'


class _Step(object):
    """collector seen by one step of a history: failures are recorded against the WHOLE history (so that a replay
    re-executes all of it), everything else is kept local"""

    def __init__(self, col, whole, idx, step):
        self.col, self.whole, self.idx, self.step = col, whole, idx, step

    def evaluated(self, n=1):
        pass

    def nontriv(self, key):
        pass

    def sample(self, case):
        pass

    def outcome(self, label, n=1):
        pass

    def count(self, name, n=1):
        if name.startswith('_judged:'):
            self.col.count(name, n)

    def note(self, text):
        self.col.note(text)

    def fail(self, case, why, observed=None, sig=None):
        self.col.fail(self.whole, 'step %d of %d (%s): %s' % (self.idx + 1, len(self.whole['steps']),
                                                               self.step['family'], why),
                      _plain(dict(observed or {}, step=self.idx)), sig='%s:%s' % (self.whole['family'], sig or why))


def judge_history(col, case):
    """family history: every step is a complete write+load in a fresh directory, all in this process;
    family rewrite: every step writes into the SAME directory (update_existing=True) and loads it.
    Each step is judged exactly like a single case: what is loaded equals what that step wrote."""
    from verif.gen.pkg import scratch_dir
    col.evaluated()
    results = []
    with scratch_dir('c19-') as shared:
        for i, step in enumerate(case['steps']):
            step = dict(step, style=case['style'])
            r = judge(_Step(col, case, i, step), step, workdir=shared if case['family'] == 'rewrite' else None)
            results.append(r)
            if r == 'excluded':
                break
    if 'excluded' in results:
        col.outcome('excluded:history-step-invalid')
        col.count('excluded_history_step_invalid')
        return 'excluded'
    col.nontriv(case)
    if 'fail' in results:
        col.outcome('FAIL:%s' % case['family'])
        return 'fail'
    col.outcome('same:%s' % case['family'])
    return 'same'


def judge(col, case, workdir=None):
    import contextlib
    from verif.gen.pkg import scratch_dir
    from experiment.model.frontends.dosini import Dosini
    if case['family'] in ('history', 'rewrite'):
        return judge_history(col, case)
    doc, platform = build(case)
    col.evaluated()
    fam = case['family']
    with (scratch_dir('c19-') if workdir is None else contextlib.nullcontext(workdir)) as d:
        excluded = None
        errors = []
        stage = 'source'
        try:
            if fam != 'e2e':
                inst, excluded = make_instance(doc, platform, case['style'])
                if excluded is None:
                    want = observe(inst)
                    conf_dir = d
            else:
                # author a legacy package, let DOSINIExperimentConfiguration write the instance files
                import experiment.model.conf
                from experiment.model.frontends.flowir import FlowIRConcrete
                src = FlowIRConcrete(copy.deepcopy(doc), platform, {})
                if src.validate(top_level_folders=list(TOP_FOLDERS)):
                    excluded = 'invalid-source'
                else:
                    conf_dir = os.path.join(d, 'conf')
                    os.makedirs(conf_dir)
                    Dosini.dump(src.raw(), conf_dir, is_instance=False, update_existing=True)
                    variable_files = []
                    if case.get('uservars'):
                        os.makedirs(os.path.join(d, 'input'))
                        variable_files = [os.path.join(d, 'input', 'variables.conf')]
                        with open(variable_files[0], 'w') as f:
                            f.write(USER_VARIABLES)
                    # The package is loaded exactly ONCE (as a run does): the same object then writes the instance
                    # files. A failure before Dosini.dump is entered means the package is not in the judged space.
                    try:
                        c1 = experiment.model.conf.DOSINIExperimentConfiguration(
                            d, platform, variable_files, {}, is_instance=False, createInstanceFiles=True,
                            primitive=False)
                    except Exception as e:
                        if _raised_inside_dump(e):
                            return _fail_exc(col, case, 'writing', e, files_of(conf_dir))
                        raise
                    inst = c1.get_unreplicated_flowir().instance(**INSTANCE_FLAGS)
                    want = observe(inst)
        except Exception as e:
            excluded = 'source-unresolvable:%s' % type(e).__name__
        if excluded:
            col.outcome('excluded:%s' % excluded.split(':')[0])
            col.count('excluded_' + excluded.split(':')[0].replace('-', '_'))
            return 'excluded'
        if fam != 'base':
            col.nontriv(case)
        for p, _ in case.get('settings', []):
            col.count('_judged:' + p)
        try:
            stage = 'writing'
            if fam != 'e2e':
                Dosini.dump(copy.deepcopy(inst), conf_dir, update_existing=True, is_instance=True)
                Dosini._dump_status(copy.deepcopy(inst), conf_dir)
                Dosini._dump_output(copy.deepcopy(inst), conf_dir)
            stage = 'loading'
            loaded = Dosini().load_from_directory(conf_dir, [], {}, is_instance=True, out_errors=errors)
        except Exception as e:
            return _fail_exc(col, case, stage, e, files_of(conf_dir))
        files = files_of(conf_dir)
    if errors:
        col.outcome('FAIL:load-reports-errors')
        col.fail(case, 'loading the written files reported errors: %s' % '; '.join(str(e)[:200] for e in errors[:3]),
                 _plain({'errors': [str(e)[:300] for e in errors], 'files': files}),
                 sig='load-errors:%s' % type(errors[0]).__name__)
        return 'fail'
    try:
        got = observe(loaded)
    except Exception as e:
        col.outcome('FAIL:loaded-unresolvable')
        col.fail(case, 'the loaded description cannot be resolved: %s: %s' % (type(e).__name__, str(e)[:300]),
                 _plain({'exception': type(e).__name__, 'message': str(e)[:500], 'files': files}),
                 sig='loaded-unresolvable:%s' % type(e).__name__)
        return 'fail'
    diffs = list(D.diff(want, got))
    if not diffs:
        col.outcome('same:%s' % fam)
        return 'same'
    col.outcome('FAIL:differs')
    for path, kind, a, b in diffs:
        # the component name / stage / environment name is not part of the shape of a failure
        shape = _shape(path)
        col.fail(case, '%s: written %r, loaded back %r (%s)' % (D.path_str(path), a, b, kind),
                 _plain({'path': [str(p) for p in path], 'kind': kind, 'written': a, 'loaded': b, 'files': files}),
                 sig='%s:%s' % (shape, kind))
    return 'fail'


def _shape(path):
    if path[0] == 'components':
        rest = path[2:]
        if rest and rest[0] == 'variables':
            return 'component.variables'
        if rest and rest[0] == 'references':
            return 'component.references'
        return 'component.' + '.'.join(str(p) for p in rest[1:] if not isinstance(p, int))
    if path[0] in ('environments',):
        return 'environments'
    if path[0] in ('status', 'output'):
        return path[0] + '.' + '.'.join(str(p) for p in path[2:] if not isinstance(p, int))
    return str(path[0])


# --------------------------------------------------------------------------------------------------- enumeration
def option_table():
    """[(dotted path, [candidates])] for the legacy-expressible options; also returns the excluded ones."""
    from experiment.model.frontends.flowir import validate_object_schema
    table, excluded = [], []
    for path, schema, default, _ in G.option_leaves():
        dotted = '.'.join(path)
        if dotted in FLOWIR_ONLY:
            excluded.append((dotted, FLOWIR_ONLY[dotted]))
            continue
        cands = G.candidates_for(schema, default)
        numeric = not validate_object_schema(4, schema, 'probe') or not validate_object_schema(2.5, schema, 'probe')
        if numeric:
            # True/False are ints for isinstance(); nobody writes `numberProcesses: true`
            cands = [c for c in cands if not isinstance(c, bool)]
        if not _mentions(schema, float):
            # float literals only where the schema names the float type (memory's validator lets 2.5 through by accident)
            cands = [c for c in cands if not isinstance(c, float)]
        # the legacy loader reads an empty value as "option not set": an explicitly empty list that differs from a
        # non-empty default (restartHookOn: []) cannot be said in the legacy format
        if isinstance(default, list) and default:
            cands = [c for c in cands if c != []]
        if not cands:
            excluded.append((dotted, 'the schema accepts no non-default value'))
            continue
        table.append((dotted, cands))
    return table, excluded


def _mentions(schema, what):
    from experiment.model.frontends.flowir import ValidateOr, ValidateOptional, ValidateMany
    if schema is what:
        return True
    if isinstance(schema, tuple):
        return what in schema
    if isinstance(schema, (ValidateOptional, ValidateMany)):
        return _mentions(schema.schema, what)
    if isinstance(schema, ValidateOr):
        return any(_mentions(x, what) for x in schema.schema)
    return False


def source_ok(doc, platform='default'):
    """True when the document is a valid workflow whose instance can be resolved (= it is in the judged space)."""
    try:
        inst, excluded = make_instance(doc, platform, 'full')
        if excluded is None:
            observe(inst)
    except Exception:
        return False
    return excluded is None


def _is_var(c):
    return isinstance(c, (tuple, list)) and len(c) == 2 and c[0] in ('VAR', 'VARLIST')


def picks(viable, n, nlit=None, nvar=1):
    """first literal, first variable reference(s), then further literals: n diverse candidates"""
    lit = [c for c in viable if not _is_var(c)][:nlit]
    var = [c for c in viable if _is_var(c)][:nvar]
    out = lit[:1] + var + lit[1:]
    return out[:n]


# what a backend needs besides its name to be a valid component (FlowIR.validate_component)
BACKEND_NEEDS = {
    'kubernetes': [['resourceManager.kubernetes.image', 'registry/img:tag']],
    'docker': [['resourceManager.docker.image', 'registry/img:tag']],
}


def legacy_backend_keys():
    """legacy option names that Dosini.options_for_backend lists for some backend and that are not FlowIR options"""
    from experiment.model.frontends.dosini import Dosini
    from experiment.model.frontends.flowir import FlowIR
    known = set(Dosini.dosini_to_flowir_translate_map()) | set(Dosini._known_flowir)
    keys = set()
    for backend in FlowIR.Backends:
        opts = Dosini.options_for_backend(backend)
        keys.update(opts['required'] + opts['optional'])
    return sorted(keys - known)


def fixed_cases():
    cases = []
    for scope in ('global', 'stage0', 'stage1', 'component', 'shadow', 'shadow-stage'):
        for name in G.VAR_NAMES:
            for value in G.VAR_VALUES:
                cases.append({'family': 'variables', 'scope': scope, 'name': name, 'value': value})
    for name in G.ENV_NAMES:
        for body in G.ENV_BODIES:
            cases.append({'family': 'environments', 'envs': {name: body}, 'use': name})
    for n1, n2 in (('e', 'MyEnv'), ('UPPER', 'with-dash'), ('environment', 'n2')):
        for b1 in G.ENV_BODIES[:6]:
            for b2 in G.ENV_BODIES[:6]:
                cases.append({'family': 'environments', 'envs': {n1: b1, n2: b2}, 'use': n2})
    for apps in G.APP_DEPS:
        for venvs in G.VENVS:
            for envs in ({}, {'e': {'A': 'b'}}):
                cases.append({'family': 'environments', 'envs': envs, 'app_deps': apps, 'venvs': venvs})
    for refs in G.REFERENCE_LISTS:
        cases.append({'family': 'references', 'refs': refs})
    for name in G.COMPONENT_NAMES:
        for both in (False, True):
            cases.append({'family': 'names', 'name': name, 'both': both})
    for e0 in G.STATUS_ENTRIES:
        for e1 in G.STATUS_ENTRIES:
            cases.append({'family': 'status', 'e0': e0, 'e1': e1})
    for ws in G.STATUS_WEIGHT_VECTORS:
        for exe in (False, True):
            cases.append({'family': 'weights', 'weights': list(ws), 'exe': exe})
    for name in G.OUTPUT_NAMES:
        for e in G.OUTPUT_ENTRIES:
            cases.append({'family': 'output', 'entries': [[name, e]]})
    for e1 in G.OUTPUT_ENTRIES:
        for e2 in G.OUTPUT_ENTRIES:
            cases.append({'family': 'output', 'entries': [['Result', e1], ['two', e2]]})
    for variant in range(4):
        for platform in ('default', 'p1'):
            cases.append({'family': 'platform', 'variant': variant, 'platform': platform})
    return cases


def with_styles(cases):
    return [dict(c, style=style) for c in cases for style in STYLES]


def worker_viable(col, item, tier, seed):
    """phase 1: which single (option, candidate) documents are valid workflows"""
    for dotted, idx, cand in item:
        doc = G.option_doc([(tuple(dotted.split('.')), G.cand_from_json(cand))])
        if source_ok(doc):
            col.count('_viable:%s:%d' % (dotted, idx))


def worker(col, item, tier, seed):
    for case in item:
        judge(col, case)
    col.sample(item[0])


def chunks(seq, n):
    return [seq[i:i + n] for i in range(0, len(seq), n)]


def run(ctx):
    from verif.core.runner import setup_repo_path
    setup_repo_path()
    import experiment.model.frontends.flowir as flowir_mod
    table, excluded = option_table()
    ctx.count('options_in_schema', len(table) + len(excluded))
    ctx.count('options_covered', len(table))
    ctx.count('options_excluded_by_rule', len(excluded))
    for dotted, why in excluded:
        ctx.note('EXCLUDED option %s: %s' % (dotted, why))
    missing = set(FLOWIR_ONLY) - set(d for d, _ in excluded)
    if missing:
        raise HarnessError('FLOWIR_ONLY names options that the schema does not have: %s' % sorted(missing))

    # phase 1: viability of every single (option, candidate)
    probes = [(d, i, G.jsonable_cand(c)) for d, cands in table for i, c in enumerate(cands)]
    ctx.pmap('verif.props.c19', 'worker_viable', chunks(probes, 25))
    viable = {}
    for d, cands in table:
        viable[d] = [G.jsonable_cand(c) for i, c in enumerate(cands) if ctx.extra.get('_viable:%s:%d' % (d, i))]
    for k in [k for k in ctx.extra if k.startswith('_viable:')]:
        del ctx.extra[k]
    no_value = [d for d in viable if not viable[d]]
    if no_value:
        raise HarnessError('options for which no candidate value gives a valid workflow: %s' % no_value)
    ctx.count('option_values_valid', sum(len(v) for v in viable.values()))
    ctx.count('option_values_rejected_as_invalid_workflows', len(probes) - sum(len(v) for v in viable.values()))

    cases = [{'family': 'base'}]
    # every valid value of every option, set on the component / through the global blueprint / the stage blueprint
    # (quick: at most 6 literals + 2 variable references per option, in pool order; thorough: all of them)
    for d, _ in table:
        singles = viable[d] if ctx.thorough else picks(viable[d], 99, nlit=6, nvar=2)
        for cand in singles:
            for via in ('component', 'global-blueprint', 'stage-blueprint'):
                cases.append({'family': 'option', 'settings': [[d, cand]], 'via': via})
    # pairs of options inside one top-level section
    npick = 3 if ctx.thorough else 2
    for section, p1, c1, p2, c2 in G.pairs_in_section([(tuple(d.split('.')), viable[d]) for d, _ in table]):
        for a in picks(c1, npick):
            for b in picks(c2, npick):
                cases.append({'family': 'pair', 'via': 'component',
                              'settings': [['.'.join(p1), a], ['.'.join(p2), b]]})
    # every option under every backend
    for backend in flowir_mod.FlowIR.Backends:
        needs = BACKEND_NEEDS.get(backend, [])
        if any(p in FLOWIR_ONLY for p, _ in needs):
            ctx.note('EXCLUDED backend %s: it needs %s which is FlowIR-only' % (backend, needs[0][0]))
            continue
        pre = [['resourceManager.config.backend', backend]] + needs
        for d, _ in table:
            if d in [p for p, _ in pre]:
                continue
            for cand in (viable[d] if ctx.thorough else picks(viable[d], 2)):
                cases.append({'family': 'backend', 'via': 'component', 'settings': pre + [[d, cand]]})
    cases += fixed_cases()
    # options that only the legacy format knows for a backend (not in the FlowIR schema): carried as variables
    legacy_keys = legacy_backend_keys()
    ctx.count('legacy_only_backend_options', len(legacy_keys))
    backendvar = []
    for backend in flowir_mod.FlowIR.Backends:
        if any(p in FLOWIR_ONLY for p, _ in BACKEND_NEEDS.get(backend, [])):
            continue
        for how in ('literal', 'component-variable', 'global-variable'):
            for key in legacy_keys:
                for value in ('5', '1.5:3.0'):
                    backendvar.append({'family': 'backendvar', 'backend': backend, 'how': how, 'key': key,
                                       'value': value})
                # ... while the component of the later stage names the backend literally
                backendvar.append({'family': 'backendvar', 'backend': backend, 'how': how, 'key': key,
                                   'value': '0 0 1', 'peer': True})
    cases += backendvar
    cases = with_styles(cases)
    # histories: several round trips in one process (fresh directories) and several writes into one directory
    hist = []
    reps = G.HISTORY_CASES + [c for c in backendvar if c['how'] == 'literal' and c['value'] == '5'
                              and c['key'] == legacy_keys[0]][:1] if legacy_keys else list(G.HISTORY_CASES)
    for fam in ('rewrite', 'history'):
        for a in reps:
            for b in reps:
                if a is not b:
                    for style in STYLES:
                        hist.append({'family': fam, 'steps': [a, b], 'style': style})
    # a component that names a backend literally, then components that carry the legacy-only options of a backend
    for pol in [c for c in backendvar if c['how'] == 'literal' and c['value'] == '5' and c['key'] == legacy_keys[0]]:
        for sens in [c for c in backendvar if c['how'] != 'literal' and c['value'] == '5']:
            hist.append({'family': 'history', 'steps': [pol, sens], 'style': 'sparse'})
    if ctx.thorough:
        for a in reps:
            for b in reps:
                for c in reps:
                    if a is not b and b is not c:
                        hist.append({'family': 'rewrite', 'steps': [a, b, c], 'style': 'sparse'})
    cases += hist
    # end-to-end through DOSINIExperimentConfiguration (package on disk -> instance files written -> instance loaded)
    e2e = []
    for variant in range(4):
        for platform in ('default', 'p1'):
            for uservars in (False, True):
                e2e.append({'family': 'e2e', 'doc': 'platform', 'variant': variant, 'platform': platform,
                            'uservars': uservars, 'style': 'conf'})
    for d, _ in table:
        for cand in (viable[d] if ctx.thorough else picks(viable[d], 2)):
            e2e.append({'family': 'e2e', 'doc': 'option', 'settings': [[d, cand]], 'via': 'component',
                        'platform': 'default', 'uservars': False, 'style': 'conf'})
    # the same through a package that is loaded first (the loader has then already seen every component once)
    for c in backendvar:
        if c.get('peer') or c['value'] == '5':
            e2e.append(dict(c, family='e2e', doc='backendvar', platform='default', uservars=False, style='conf'))
    ctx.count('cases', len(cases) + len(e2e))
    ctx.pmap('verif.props.c19', 'worker', chunks(e2e, 8) + chunks(cases, 40))
    unjudged = [d for d, _ in table if not ctx.extra.get('_judged:' + d)]
    if unjudged:
        raise HarnessError('options without a single judged case: %s' % unjudged)


def replay(ctx, case):
    judge(ctx, case)


# --------------------------------------------------------------------------------------------------- known findings
def _sets(case, dotted):
    return any(p == dotted for p, _ in case.get('settings', []))


def _sel_max_restarts(f):
    """max-restarts is written but the loader never stores it: maxRestarts comes back as None."""
    o = f.get('observed') or {}
    return (f['sig'] == 'component.workflowAttributes.maxRestarts:lost' and _sets(f['case'], 'workflowAttributes.maxRestarts')
            and o.get('loaded') is None and isinstance(o.get('written'), int) and not isinstance(o.get('written'), bool))


def _has_bare_percent(obj):
    import re
    from verif.core.runner import canon
    text = re.sub(r'%\([^()]*\)s', '', canon(obj))
    return '%' in text


def _sel_percent(f):
    """a value containing a '%' that is not part of %(name)s cannot be written (configparser interpolation check)."""
    o = f.get('observed') or {}
    return (f['sig'] == 'raises:ValueError:invalid interpolation syntax' and o.get('exception') == 'ValueError'
            and _has_bare_percent({k: v for k, v in f['case'].items() if k != 'style'}))


KNOWN_SELECTORS = {'max_restarts_dropped_on_load': _sel_max_restarts, 'bare_percent_cannot_be_written': _sel_percent}
