"""C15 — Loading a package is deterministic.

Differential across child processes. One corpus of packages (FlowIR, DSL 2.0, DOSINI; valid and broken) and user
variable files is written once below a scratch directory; child interpreters (verif/gen/c15_child.py) are started with
an explicit PYTHONHASHSEED each, load a batch of (package, options) tasks and return canonical dumps.

  family hash      the same task in processes with different hash seeds: 16 fixed seeds over everything, plus seeds that
                   are *searched* until every iteration order of every identified small set has been witnessed
  family varfiles  every ordered selection of 2-3 user variable files with conflicting values, through every entry point
                   that accepts several files; absolute oracle (layered in the order given, last one wins) + differential
  family listing   the same task with os.listdir / os.scandir / glob.glob answering in every permutation
  family keyorder  the same documents with the keys of every small mapping (INI: sections / options) in every order

The reference model is verif/oracles/c15_layering.py.
"""
import contextlib
import hashlib
import itertools
import json
import os
import shutil
import subprocess
import sys
import time

from verif.core.runner import HarnessError, REPO, VERIF
from verif.gen import c15_corpus as G
from verif.oracles import c15_layering as O

PROPERTY = 'C15'
LEVEL = 'exploration'
EXHAUSTIVE = True

REF_SEED = 0
SWEEP_SEEDS = list(range(16))            # fixed sweep (seed 0 is the reference process)
EXTRA_SEED_BASE = 100000                 # + VERIF_SEED: one extra, rotating sweep process (never used for coverage)
FIRST_SEARCH_SEED = 16

RULE = (
    'Corpus (fixed; every document kind contains mappings whose values reference sibling keys through chains of >=2 '
    'levels - environment variables $A / ${A} and workflow variables %(a)s - written so that neither the given nor the '
    'sorted key order is the dependency order): FlowIR package "rich" (3 platforms, variables at 3 scopes, 4 environments, blueprint, replicate / '
    'aggregate, component+data+input references, platform override, key outputs, same name in two stages), DSL 2.0 '
    'package (nested workflows, one template instantiated twice, OutputReferences with/without path, :copy, legacy '
    'reference, environments), DOSINI package (4 platform files, 3 stage files, 3 variables.d files), DOSINI package of '
    'components with exactly 3 (thorough: also 4) parser-known options covering every group of options folded into one '
    'FlowIR dictionary, DSL consumers with 2-3 (thorough 4) distinct OutputReferences, packages with 2-3 (thorough 4) '
    'distinct backends, a broken FlowIR package, three small "layering" packages (FlowIR, DSL, DOSINI), package '
    'directories readable in several formats (one workflow hand-written as dosini+flowir, dsl+flowir, dosini+dsl, '
    'dosini+dsl+flowir, each representation echoing its format name; and DSL / DOSINI packages after a first load '
    'with updateInstanceFiles=True stored their FlowIR translation; with and without a user variable file; cwl is '
    'left out), and packages whose components name one producer twice next to other references (relative + absolute '
    'spelling, literal repeat, with / without file path; 2-3 (thorough 4) distinct references; FlowIR, DOSINI, and DSL '
    'by mixing an OutputReference with the legacy spelling; conf and graph entry points because validateExperiment '
    'rejects a twice-declared reference as unused). Entry points: '
    'exp = packageFromLocation+Experiment.experimentFromPackage+validateExperiment, conf = '
    'ExperimentConfigurationFactory.configurationForExperiment(primitive=False)+WorkflowGraph, graph = '
    'packageFromLocation+WorkflowGraph.graphFromPackage (parametrize). '
    'HASH: every base task in 16 processes with PYTHONHASHSEED 0..15 (+1 process whose seed rotates with VERIF_SEED); '
    'then for every identified small set (set(variable_files) per ordered file list, set(options)&known per DOSINI '
    'component, OutputReference sets per DSL consumer, set(backends) per graph, the set of format-priority names '
    'projected on the formats present in a multi-format directory, the set of expanded references of a component whose '
    'reference list contains duplicates after expansion; 2-3 elements, thorough 2-4) seeds are '
    'searched (cheap probe interpreters predict, real children confirm by reporting the order they saw) until EVERY '
    'permutation of its iteration order has been witnessed in a real child that loaded the package. '
    'VARFILES: every ordered selection of 1,2,3 of 3 files (thorough: 1..4 of 4; .yaml/.yml/.conf formats; every file '
    'sets v1, pairs share v2/s1, each has a private name) x {FlowIR: conf, graph; DSL: conf; DOSINI: conf, graph} in '
    'every sweep and searched process, and x {FlowIR: exp; DSL: exp} (experimentFromPackage aggregates the files itself) '
    'in the reference process; absolute oracle (user variables = reference layering; every component sees the winners '
    'in its variables and resolved arguments; input/variables.yaml for exp), and the loads that pass it must also be '
    'identical across processes. '
    'LISTING: k=0..23 selects the k-th permutation (k mod n!) of every directory listing / glob result with n<=4 entries '
    '(every permutation for n<=4; n>4: rotation by k, reversed for odd k) for rich/exp, DOSINI/exp, DOSINI/conf(p2), '
    'DSL/exp. KEYORDER: for every mapping of the rich FlowIR, DSL and layering documents and every variable file with '
    '2..3 keys (thorough ..4) every non-identity key order, one mapping at a time (larger mappings: every rotation and '
    'the reversal), plus all mappings reversed at once; the same for sections per INI file and options per section of '
    'the DOSINI packages. Lists are never reordered. A case = one load (task, process) compared with the reference load '
    'of its group (same task under seed 0 / with the default listing / with the original key order); all are '
    'non-trivial (>=2 components, or >=2 files, or a non-identity permutation); distinct = distinct (task, seed). '
    'Excluded as grey: the same file given twice; one variable name defined at global and stage scope by different '
    'files; the text / order / multiplicity of error messages of rejected packages (only "rejected with exception type '
    'T" is compared); the position of a component inside FlowIR component lists; FLOW_RUN_ID (fresh uuid per load by '
    'design); the order of the list active_backends() returns (compared as a set, used as witness).')

ASSUMPTIONS = [
    'a process is characterised by its string-hash seed (PYTHONHASHSEED), the order in which the file system lists '
    'directories, and the launch environment; the launch environment is held constant (PATH, HOME) and PYTHONHASHSEED '
    'is removed from os.environ inside the child before anything is loaded',
    'the canonical dump is: sorted component names, sorted edges, per component configurationForNode (resolved and '
    'raw), environmentForNode, data/input/component references, producers, command arguments, strong and fuzzy '
    'memoization hash and info (exp entry point, where computable: None is an observation too), global/user variables, '
    'platforms, environments, default environment, key outputs, status report, application dependencies, top level '
    'folders, manifest, active backends (sorted), replicated and unreplicated FlowIR, and for exp the parsed '
    'conf/flowir_instance.yaml, input/variables.yaml and the instance top level; absolute paths of the private instance '
    '/ package copy are replaced by placeholders; lists inside the dump are compared in order',
    'the format-priority witness is hypothetical on a tree where get_config_parser walks an ordered list: it reports '
    'how a set of the priority names iterates in the process, so that every relative order of the formats present in '
    'a directory is known to have been available to any set-typed traversal',
    'identified sets are those found by reading the four anchored files; anything not identified is covered only by '
    'the fixed 16(+1)-seed sweep, the 24 listing permutations and the key orders (not exhaustive for unknown sets)',
    'a witness is computed in the child, next to the product call, by evaluating the same set expression on the actual '
    'arguments of the product function (same strings, same insertion sequence => same iteration order in that '
    'process); active_backends() is observed directly',
    'variable file layering reference: later file wins name by name within the global scope and within each stage '
    'scope; a component of stage i sees the stage-i winner, else the global winner; values are strings',
    'valid corpus packages that the reference process rejects are a harness error (the corpus no longer fits the tree), '
    'not a C15 failure',
    'directories with more than 4 entries (the instance top level, conf/) are only rotated/reversed, not fully permuted',
]


# ----------------------------------------------------------------------------------------------------- processes
def child_env(seed):
    base = '/dev/shm' if os.access('/dev/shm', os.W_OK) else '/tmp'
    return {
        'PATH': '/usr/local/bin:/usr/bin:/bin', 'HOME': os.environ.get('HOME', '/root'), 'LANG': 'C.UTF-8',
        'PYTHONHASHSEED': str(seed), 'PYTHONPATH': VERIF, 'VERIF_REPO': REPO, 'PYTHONWARNINGS': 'ignore',
        'PYTHONPYCACHEPREFIX': sys.pycache_prefix or os.path.join(base, 'verif-pycache-%d' % os.getuid()),
    }


def strip_volatile(dump):
    """What is compared of a load: everything of a successful load; of a rejected one only the exception type."""
    if not isinstance(dump, dict):
        return dump
    if dump.get('loaded') is False:
        return {'loaded': False, 'rejected': (dump.get('rejected') or {}).get('error')}
    return dump


def projection(task, dump):
    """The few observables the absolute layering oracle needs (kept in memory; full dumps stay on disk)."""
    if task['family'] != 'varfiles' or not dump.get('loaded'):
        return None
    comps = {}
    for n, d in dump.get('per_component', {}).items():
        c = d.get('configuration') or {}
        comps[n] = {'variables': c.get('variables'), 'arguments': (c.get('command') or {}).get('arguments')}
    return {'user_variables': dump.get('user_variables'), 'components': comps,
            'aggregated': dump.get('aggregated_variables_file')}


def run_child(root, tag, seed, tasks):
    sc = os.path.join(root, 'child', tag)
    os.makedirs(sc)
    job, out = os.path.join(sc, 'job.json'), os.path.join(root, 'out', '%s.json' % tag)
    with open(job, 'w') as f:
        json.dump({'scratch': sc, 'tasks': tasks}, f)
    try:
        r = subprocess.run([sys.executable, '-m', 'verif.gen.c15_child', job, out], env=child_env(seed), cwd=VERIF,
                           capture_output=True, text=True, timeout=3000)
    except subprocess.TimeoutExpired:
        raise HarnessError('child %s (seed %s) timed out' % (tag, seed))
    if r.returncode != 0 or not os.path.exists(out):
        raise HarnessError('child %s (seed %s) failed rc=%s:\n%s' % (tag, seed, r.returncode, r.stderr[-3000:]))
    with open(out) as f:
        res = json.load(f)
    if res.get('hashseed') != str(seed):
        raise HarnessError('child %s ran with PYTHONHASHSEED=%r, wanted %r' % (tag, res.get('hashseed'), seed))
    shutil.rmtree(sc, ignore_errors=True)
    return res, out


def summarise(task, seed, dump, wit, out_file):
    if 'harness_error' in dump:
        raise HarnessError('child failed inside the harness on task %s seed %s:\n%s' % (task['id'], seed, dump['harness_error']))
    core = strip_volatile(dump)
    return {'task': task['id'], 'seed': seed, 'digest': hashlib.sha1(O.canon(core).encode()).hexdigest(),
            'loaded': bool(dump.get('loaded')), 'rejected': (dump.get('rejected') or {}).get('error'),
            'kinds': (dump.get('rejected') or {}).get('kinds'), 'message': dump.get('message'),
            'proj': projection(task, dump), 'file': out_file, 'witness': wit,
            'ncomp': len(dump.get('components') or [])}


def worker_child(col, item, tier, seed):
    with open(os.path.join(item['root'], 'index.json')) as f:
        index = {t['id']: t for t in json.load(f)}
    tasks = [index[i] for i in item['ids']]
    res, out_file = run_child(item['root'], item['tag'], item['seed'], tasks)
    rows = []
    for t in tasks:
        if t['id'] not in res['results']:
            raise HarnessError('child %s returned nothing for task %s' % (item['tag'], t['id']))
        rows.append(summarise(t, item['seed'], res['results'][t['id']], res['witness'].get(t['id'], []), out_file))
    col.payload.append({'kind': 'child', 'rows': rows, 'listing_sites': res.get('listing_sites', {}),
                        'seconds': sum(res.get('seconds', {}).values())})
    col.traces += len(rows)


def worker_probe(col, item, tier, seed):
    """Cheap interpreters (no site, no imports of the product) that predict the iteration orders for a range of seeds."""
    src = os.path.join(item['root'], 'probe.py')
    out = {}
    for s in item['seeds']:
        env = {'PYTHONHASHSEED': str(s), 'PATH': '/usr/bin:/bin'}
        r = subprocess.run([sys.executable, '-S', src, item['recipes']], env=env, capture_output=True, text=True, timeout=300)
        if r.returncode != 0:
            raise HarnessError('probe interpreter failed for seed %s: %s' % (s, r.stderr[-1000:]))
        out[s] = json.loads(r.stdout)
    col.payload.append({'kind': 'probe', 'orders': out})


# ----------------------------------------------------------------------------------------------------- judging
_FILE_CACHE = {}


def load_dump(row):
    if row['file'] not in _FILE_CACHE:
        if len(_FILE_CACHE) >= 6:
            _FILE_CACHE.pop(next(iter(_FILE_CACHE)))
        with open(row['file']) as f:
            _FILE_CACHE[row['file']] = json.load(f)['results']
    return strip_volatile(_FILE_CACHE[row['file']][row['task']])


def case_of(tier, slot, task, row, ref_task, ref_seed):
    return {'tier': tier, 'slot': slot, 'family': task['family'], 'task': task['id'], 'seed': row['seed'], 'ref_task': ref_task,
            'ref_seed': ref_seed, 'mode': task['mode'], 'kind': task.get('kind'),
            'variable_files': task.get('names'), 'listing': task.get('listing'), 'descr': task['descr']}


def judge_varfiles(task, row):
    """Absolute oracle. None or (why, observed, sig)."""
    names = task['names']
    contents = [G.VARIABLE_FILES[n] for n in names]
    if not row['loaded']:
        return ('the package with user variable files %s was rejected (%s: %s)' % (names, row['rejected'], (row['message'] or '')[:200]),
                {'rejected': row['rejected']}, 'varfiles:rejected')
    proj = row['proj']
    exp_uv = O.norm_reference(O.layer(contents))
    obs_uv = O.norm_user_variables(proj['user_variables'])
    if obs_uv != exp_uv:
        ex = O.explain(proj['user_variables'], G.VARIABLE_FILES, names)
        # the order in which set(<the given paths>) iterates in the process that did this load (child's witness)
        set_order = None
        for sid, order, recipe in row['witness']:
            if sid == 'conf.variable_files' and sorted(map(os.path.basename, order)) == sorted(names):
                set_order = [os.path.basename(x) for x in order]
        observed = {'user_variables': obs_uv, 'expected': exp_uv, 'given': names, 'explained_by': ex[0] if ex else None,
                    'explained_by_all': ex, 'set_iteration_order': set_order}
        if ex:
            return ('user variable files given as %s are layered as if given as %s: user variables %s, expected %s'
                    % (names, ex[0], O.short(obs_uv), O.short(exp_uv)), observed, 'varfiles:layered-in-other-order')
        return ('user variables after layering %s are %s, expected %s' % (names, O.short(obs_uv), O.short(exp_uv)),
                observed, 'varfiles:user-variables-wrong')
    base, comps = G.VARS_EXPECT[task['kind']]
    for comp, (template, stage) in sorted(comps.items()):
        win = O.winners(contents, stage)
        values = dict(base)
        values.update(win)
        got = proj['components'].get(comp)
        if got is None:
            return ('component %s is missing after loading with %s' % (comp, names), {'components': sorted(proj['components'])},
                    'varfiles:component-missing')
        want = O.substitute(template, values)
        if got['arguments'] != want:
            return ('component %s resolves its arguments to %r, expected %r with files %s' % (comp, got['arguments'], want, names),
                    {'component': comp, 'arguments': got['arguments'], 'expected': want, 'given': names},
                    'varfiles:component-arguments')
        for v, val in sorted(win.items()):
            if (got['variables'] or {}).get(v) != val:
                return ('component %s sees %s=%r, expected %r with files %s' % (comp, v, (got['variables'] or {}).get(v), val, names),
                        {'component': comp, 'variable': v, 'value': (got['variables'] or {}).get(v), 'expected': val,
                         'given': names}, 'varfiles:component-variables')
    if task['mode'] == 'exp' and O.norm_user_variables(proj['aggregated'] or {}) != exp_uv:
        return ('input/variables.yaml holds %s, expected %s' % (O.short(proj['aggregated']), O.short(exp_uv)),
                {'aggregated': proj['aggregated'], 'expected': exp_uv, 'given': names}, 'varfiles:aggregated-file')
    return None


def judge_pair(family, row, ref):
    """Differential oracle. None or (why, observed, sig)."""
    if row['digest'] == ref['digest']:
        return None
    if row['loaded'] != ref['loaded'] or row['rejected'] != ref['rejected']:
        def d(r):
            return 'loaded' if r['loaded'] else 'rejected with %s' % r['rejected']
        return ('load outcome differs: %s (task %s, seed %s) vs %s (task %s, seed %s)'
                % (d(row), row['task'], row['seed'], d(ref), ref['task'], ref['seed']),
                {'this': d(row), 'reference': d(ref)}, '%s:load-outcome' % family)
    a, b = load_dump(ref), load_dump(row)
    diff = O.first_difference(a, b)
    if diff is None:
        raise HarnessError('digests differ but dumps are equal (%s/%s vs %s/%s)' % (row['task'], row['seed'], ref['task'], ref['seed']))
    path, kind, va, vb = diff

    def trimmed(v):
        return v if len(O.canon(v)) < 2000 else O.short(v, 2000)
    return ('%s differs (%s): reference (task %s, seed %s) has %s, this load (task %s, seed %s) has %s'
            % ('/'.join(map(str, path)), kind, ref['task'], ref['seed'], O.short(va), row['task'], row['seed'], O.short(vb)),
            {'path': list(path), 'kind': kind, 'reference': trimmed(va), 'this': trimmed(vb)},
            '%s:%s:%s' % (family, 'order' if kind == 'order-only' else 'value', O.area(path)))


def judge_all(col, tier, tasks, rows, slot):
    """rows: summaries of every (task, seed) load. Applies the absolute and the differential oracle."""
    index = {t['id']: t for t in tasks}
    by_group = {}
    misfits = []
    for r in rows:
        by_group.setdefault(index[r['task']]['group'], []).append(r)
    for gid in sorted(by_group):
        members = sorted(by_group[gid], key=lambda r: (r['task'] != gid, r['seed'] != REF_SEED, r['task'], r['seed']))
        gtask = index[gid]
        passing = []
        for r in members:
            t = index[r['task']]
            col.evaluated()
            col.nontriv('%s@%s' % (r['task'], r['seed']))
            if t['family'] == 'varfiles':
                v = judge_varfiles(t, r)
                if v is not None:
                    col.outcome(v[2])
                    col.fail(case_of(tier, slot, t, r, None, None), v[0], v[1], sig=v[2])
                    continue
                col.outcome('varfiles:layered-as-given:%d-files' % len(t['names']))
            passing.append(r)
        if not passing:
            continue
        ref = passing[0]
        group_failures = 0
        for r in passing[1:]:
            t = index[r['task']]
            fam = t['family']
            v = judge_pair(fam, r, ref)
            if v is None:
                col.outcome('%s:identical:%s' % (fam, 'loaded' if r['loaded'] else 'rejected-' + str(r['rejected'])))
                if not r['loaded'] and r['kinds'] != ref['kinds']:
                    col.count('rejections_with_different_underlying_error_kinds')
            else:
                group_failures += 1
                col.outcome(v[2])
                col.fail(case_of(tier, slot, t, r, ref['task'], ref['seed']), v[0], v[1], sig=v[2])
        if gtask['family'] == 'hash' and ref['task'] == gid and ref['seed'] == REF_SEED and not group_failures:
            # every load of the group agrees; if they agree on the wrong outcome the corpus no longer fits the tree
            want_loaded = '/broken/' not in gid
            if ref['loaded'] != want_loaded:
                misfits.append('corpus package of task %s: every load %s (%s %s)' % (
                    gid, 'was rejected' if want_loaded else 'was accepted', ref['rejected'], (ref['message'] or '')[:500]))
    if misfits:
        if col.n_failures - sum(col.known_counts.values()) == 0:
            raise HarnessError('; '.join(misfits[:3]))
        # some other group shows a genuine difference (reported as a violation); keep the misfit visible
        col.note('NOTE: %d base tasks had the unexpected load outcome in every process, e.g. %s' % (len(misfits), misfits[0][:300]))


# ----------------------------------------------------------------------------------------------------- coverage
def set_key(sid, recipe):
    return sid + '|' + O.canon(recipe)


def nfact(n):
    out = 1
    for i in range(2, n + 1):
        out *= i
    return out


class Coverage(object):
    def __init__(self, nmax):
        self.nmax = nmax
        self.sets = {}        # key -> {'sid', 'recipe', 'elements' (sorted), 'seen': set of order tuples}
        self.large = {}

    def add(self, sid, order, recipe, targeted):
        key = set_key(sid, recipe)
        target = self.sets if (targeted and len(order) <= self.nmax) else self.large
        e = target.setdefault(key, {'sid': sid, 'recipe': recipe, 'elements': sorted(order), 'seen': set()})
        if sorted(order) != e['elements']:
            raise HarnessError('witness of set %s reports elements %r, earlier %r' % (key, sorted(order), e['elements']))
        e['seen'].add(tuple(order))

    def missing(self):
        return sum(nfact(len(e['elements'])) - len(e['seen']) for e in self.sets.values())

    def summary(self):
        out = {}
        for target, label in ((self.sets, ''), (self.large, ':untargeted')):
            for e in target.values():
                s = out.setdefault(e['sid'] + label, [0, 0, 0])
                s[0] += 1
                s[1] += len(e['seen'])
                s[2] += nfact(len(e['elements']))
        return out


def plan_seeds(cov, predicted, max_new):
    """Greedy cover: predicted[seed][key] = order tuple. Returns seeds (smallest first on ties)."""
    need = set()
    for key, e in cov.sets.items():
        for p in itertools.permutations(e['elements']):
            if p not in e['seen']:
                need.add((key, p))
    chosen = []
    gains = {s: set((k, o) for k, o in d.items()) & need for s, d in predicted.items()}
    while need and len(chosen) < max_new:
        best = max(sorted(gains), key=lambda s: len(gains[s] & need), default=None)
        if best is None or not (gains[best] & need):
            break
        chosen.append(best)
        need -= gains[best]
        del gains[best]
    return chosen, len(need)


# ----------------------------------------------------------------------------------------------------- run
def chunks_balanced(tasks, n):
    """Split tasks into n lists of similar estimated cost (exp loads of the big packages dominate)."""
    def cost(t):
        c = {'exp': 0.25, 'conf': 0.06, 'graph': 0.08}[t['mode']]
        if 'rich' in os.path.basename(t['package']) and t['mode'] == 'exp':
            c = 0.8
        return c
    bins = [[0.0, []] for _ in range(max(1, n))]
    for t in sorted(tasks, key=lambda t: (-cost(t), t['id'])):
        b = min(bins, key=lambda b: b[0])
        b[0] += cost(t)
        b[1].append(t['id'])
    return [b[1] for b in bins if b[1]]


@contextlib.contextmanager
def fixed_root(want=None, wait_s=1800):
    """A scratch directory with a REPRODUCIBLE absolute path (<scratch root>/verif-c15-<uid>-slot<n>).

    The iteration order of a set of path strings is a function of (hash seed, the strings); a replay can only
    re-create the orders of the run if every path is spelled identically, so a random mkdtemp name will not do. The
    directory itself is the lock (mkdir is atomic); a slot whose owner process is gone is reclaimed. A run takes the
    first free slot (slot 0 unless another C15 run is active), a replay waits for the slot recorded in the case."""
    from verif.gen.pkg import scratch_root
    base = scratch_root()
    deadline = time.time() + wait_s
    got = None
    while got is None:
        for n in ([want] if want is not None else range(16)):
            d = os.path.join(base, 'verif-c15-%d-slot%d' % (os.getuid(), n))
            try:
                os.mkdir(d)
            except FileExistsError:
                owner = None
                try:
                    with open(os.path.join(d, 'owner.pid')) as f:
                        owner = int(f.read().strip() or '0')
                except (OSError, ValueError):
                    # just created by somebody else (pid not written yet) or damaged: stale only if old
                    try:
                        if time.time() - os.path.getmtime(d) < 60:
                            continue
                    except OSError:
                        continue
                if owner:
                    try:
                        os.kill(owner, 0)
                        continue                      # owner alive: slot busy
                    except ProcessLookupError:
                        pass
                    except PermissionError:
                        continue
                shutil.rmtree(d, ignore_errors=True)  # stale
                try:
                    os.mkdir(d)
                except OSError:
                    continue
            with open(os.path.join(d, 'owner.pid'), 'w') as f:
                f.write(str(os.getpid()))
            got = (n, d)
            break
        if got is None:
            if time.time() > deadline:
                raise HarnessError('no free C15 scratch slot (wanted %r) below %s' % (want, base))
            time.sleep(1.0)
    cwd = os.getcwd()
    try:
        yield got
    finally:
        try:
            os.chdir(cwd)
        except OSError:
            os.chdir('/')
        shutil.rmtree(got[1], ignore_errors=True)


def run(ctx):
    _FILE_CACHE.clear()
    with fixed_root() as (slot, root):
        _run(ctx, root, slot)


def collect(ctx, rows, sites):
    secs = 0.0
    for p in ctx.payload:
        if p['kind'] == 'child':
            rows.extend(p['rows'])
            secs += p['seconds']
            for k, v in p['listing_sites'].items():
                sites[k] = max(sites.get(k, 0), v) if not k.endswith(':calls') else sites.get(k, 0) + v
    ctx.payload = [p for p in ctx.payload if p['kind'] != 'child']
    return secs


def dbg(ctx, msg):
    if os.environ.get('VERIF_C15_DEBUG'):
        import time
        sys.stderr.write('[c15 %6.1fs] %s\n' % (time.time() - ctx.t0, msg))


def _run(ctx, root, slot):
    thorough = ctx.thorough
    nmax = 4 if thorough else 3
    tasks = G.build(root, thorough)
    for t in tasks:
        t['corpus_root'] = root
    os.makedirs(os.path.join(root, 'out'))
    os.makedirs(os.path.join(root, 'child'))
    with open(os.path.join(root, 'index.json'), 'w') as f:
        json.dump(tasks, f)
    with open(os.path.join(root, 'probe.py'), 'w') as f:
        f.write(G.PROBE_SOURCE)
    index = {t['id']: t for t in tasks}
    sweep = [t for t in tasks if t['sweep']]
    small = [t for t in tasks if t['small']]
    seed0 = [t for t in tasks if t['seed0']]
    ctx.count('corpus_tasks', len(tasks))
    ctx.count('corpus_packages', len(set(t['package'] for t in tasks)))

    # ---- phase A: the reference process (seed 0, all tasks, split over several interpreters), the fixed sweep and
    #      the rotating extra process
    items = []
    nsplit = max(4, min(ctx.jobs, 16))
    for i, ids in enumerate(chunks_balanced([t for t in tasks if t['sweep'] or t['seed0']], nsplit)):
        items.append({'root': root, 'tag': 'ref-%02d' % i, 'seed': REF_SEED, 'ids': ids})
    extra_seed = EXTRA_SEED_BASE + ctx.seed
    for s in SWEEP_SEEDS[1:] + [extra_seed]:
        for i, ids in enumerate(chunks_balanced(sweep, 2 if thorough else 1)):
            items.append({'root': root, 'tag': 'sweep-%d-%d' % (s, i), 'seed': s, 'ids': ids})
    rows, sites = [], {}
    dbg(ctx, 'corpus built: %d tasks; phase A: %d children' % (len(tasks), len(items)))
    ctx.pmap('verif.props.c15', 'worker_child', items)
    cpu = collect(ctx, rows, sites)
    dbg(ctx, 'phase A done, load cpu %.0fs' % cpu)

    # ---- phase B: search seeds until every permutation of every identified small set has been witnessed
    cov = Coverage(nmax)

    def absorb(rs):
        for r in rs:
            if r['seed'] == extra_seed:
                continue
            for sid, order, recipe in r['witness']:
                # targeted = sets of the tasks that every searched process loads; sets that only occur in the big
                # packages / in input-order variants are reported separately (sweep seeds only)
                cov.add(sid, order, recipe, index[r['task']]['small'])
    absorb(rows)
    keys = sorted(cov.sets)
    recipes_file = os.path.join(root, 'recipes.json')
    with open(recipes_file, 'w') as f:
        json.dump([cov.sets[k]['recipe'] for k in keys], f)
    max_planned = 400 if thorough else 120
    nprobe = 3000 if thorough else 600
    next_seed = FIRST_SEARCH_SEED
    planned_total = []
    rounds = 0
    mismatches = 0
    while cov.missing() and rounds < 4 and len(planned_total) < max_planned:
        rounds += 1
        cand = list(range(next_seed, next_seed + nprobe))
        next_seed += nprobe
        per = max(1, len(cand) // (ctx.jobs * 2))
        ctx.pmap('verif.props.c15', 'worker_probe',
                 [{'root': root, 'recipes': recipes_file, 'seeds': cand[i:i + per]} for i in range(0, len(cand), per)])
        predicted = {}
        for p in ctx.payload:
            if p['kind'] == 'probe':
                for s, orders in p['orders'].items():
                    predicted[int(s)] = {k: tuple(o) for k, o in zip(keys, orders)}
        ctx.payload = [p for p in ctx.payload if p['kind'] != 'probe']
        dbg(ctx, 'round %d: probed %d seeds, missing %d' % (rounds, len(cand), cov.missing()))
        chosen, left = plan_seeds(cov, predicted, max_planned - len(planned_total))
        dbg(ctx, 'round %d: planned %d seeds (predicted left %d)' % (rounds, len(chosen), left))
        if not chosen:
            break
        planned_total.extend(chosen)
        items = []
        for s in chosen:
            for i, ids in enumerate(chunks_balanced(small, 2 if thorough else 1)):
                items.append({'root': root, 'tag': 'search-%d-%d' % (s, i), 'seed': s, 'ids': ids})
        new_rows = []
        ctx.pmap('verif.props.c15', 'worker_child', items)
        cpu += collect(ctx, new_rows, sites)
        for r in new_rows:
            for sid, order, recipe in r['witness']:
                k = set_key(sid, recipe)
                if k in predicted.get(r['seed'], {}) and predicted[r['seed']][k] != tuple(order):
                    mismatches += 1
        absorb(new_rows)
        rows.extend(new_rows)
    ctx.count('seeds_fixed_sweep', len(SWEEP_SEEDS) + 1)
    ctx.count('loads_in_rotating_extra_process', sum(1 for r in rows if r['seed'] == extra_seed))
    ctx.count('seeds_searched', len(planned_total))
    ctx.count('child_processes', len(set(r['file'] for r in rows)))
    ctx.count('probe_vs_child_order_mismatches', mismatches)
    summ = cov.summary()
    for sid in sorted(summ):
        n, seen, poss = summ[sid]
        ctx.count('set:%s:instances' % sid, n)
        ctx.count('set:%s:permutations_witnessed' % sid, seen)
        ctx.count('set:%s:permutations_possible' % sid, poss)
        if not sid.endswith(':untargeted') and seen != poss:
            ctx.note('CAP: set %s: only %d of %d iteration orders witnessed after %d searched seeds'
                     % (sid, seen, poss, len(planned_total)))
    ctx.note('INFO: iteration orders witnessed/possible per identified set kind: ' + ', '.join(
        '%s %d/%d (%d sets)' % (sid, summ[sid][1], summ[sid][2], summ[sid][0]) for sid in sorted(summ)))
    for must in ('conf.variable_files', 'dosini.component_options', 'dsl.output_references', 'graph.active_backends',
                 'conf.format_priority', 'flowir.expanded_references'):
        if must not in summ:
            raise HarnessError('no witness at all for identified set %s (recorder no longer reaches the product code?)' % must)
    for k in ('listdir', 'scandir', 'glob'):
        ctx.count('listing_%s_calls_permuted' % k, sites.get(k + ':calls', 0))
        if not sites.get(k + ':calls'):
            raise HarnessError('no %s call was ever permuted: the listing family is vacuous' % k)

    # ---- phase C: judge
    dbg(ctx, 'judging %d loads' % len(rows))
    judge_all(ctx, ctx.tier, tasks, rows, slot)
    dbg(ctx, 'judged')
    for t in (index['varfiles/flowir/conf/one.yaml+two.yaml'], index['listing/rich/exp/None/5'], index['keyorder/dsl/003'],
              index['hash/dos/exp/p1']):
        ctx.sample({'task': t['id'], 'family': t['family'], 'descr': t['descr']})


# ----------------------------------------------------------------------------------------------------- replay
def replay(ctx, case):
    _FILE_CACHE.clear()
    with fixed_root(case.get('slot', 0)) as (slot, root):
        tasks = G.build(root, case.get('tier') == 'thorough')
        for t in tasks:
            t['corpus_root'] = root
        os.makedirs(os.path.join(root, 'out'))
        os.makedirs(os.path.join(root, 'child'))
        index = {t['id']: t for t in tasks}
        if case['task'] not in index:
            raise HarnessError('replay: unknown task %s' % case['task'])
        wanted = [(case['task'], case['seed'])]
        if case.get('ref_task'):
            wanted.insert(0, (case['ref_task'], case['ref_seed']))
        rows = []
        for i, (tid, seed) in enumerate(wanted):
            t = index[tid]
            res, out_file = run_child(root, 'replay-%d' % i, seed, [t])
            rows.append(summarise(t, seed, res['results'][tid], res['witness'].get(tid, []), out_file))
        t = index[case['task']]
        row = rows[-1]
        ctx.evaluated()
        ctx.nontriv('%s@%s' % (row['task'], row['seed']))
        v = None
        if t['family'] == 'varfiles':
            v = judge_varfiles(t, row)
        if v is None and case.get('ref_task'):
            v = judge_pair(t['family'], row, rows[0])
        if v is None:
            ctx.outcome('replay:ok')
        else:
            ctx.outcome(v[2])
            ctx.fail(case, v[0], v[1], sig=v[2])


# ----------------------------------------------------------------------------------------------------- known findings
def _sel_varfiles_set_order(f):
    """list(set(variable_files)) in FlowIRExperimentConfiguration.__init__ / parametrize: >=2 files given to an entry
    point that hands them to the configuration object unaggregated; the result is exactly the layering of the same
    files in the order in which set(<given paths>) iterates in the process that did the load (witnessed by the child),
    and that order is not the given one. (A layering in any other wrong order, e.g. reversed, is NOT matched.)"""
    c, o = f['case'], f.get('observed') or {}
    if f['sig'] != 'varfiles:layered-in-other-order' or c.get('family') != 'varfiles':
        return False
    given = c.get('variable_files') or []
    ex = o.get('explained_by_all') or []
    so = o.get('set_iteration_order')
    return (len(given) >= 2 and c.get('mode') in ('conf', 'graph') and isinstance(so, list) and so != given
            and sorted(so) == sorted(given) and so in ex)


KNOWN_SELECTORS = {'variable_files_layered_in_set_order': _sel_varfiles_set_order}
