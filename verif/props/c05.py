"""C05 — DoWhile unrolling is wired correctly for any number of iterations.

History search: for every enumerated DoWhile document shape a real package is written, loaded with
Experiment.experimentFromPackage, and the REAL WorkflowGraph.instantiate_dowhile_next_iteration is called for
k = 1..K (exactly as Controller._instantiate_next_dowhile_iteration does: same document object, next = current + 1).
After EVERY step the whole workflow state is compared with the independent reference model
verif/oracles/c05_dowhile.py.
"""
import os
import re

from verif.core.runner import HarnessError, case_id
from verif.gen import c05_shapes as GEN
from verif.oracles import c05_dowhile as M

PROPERTY = 'C05'
LEVEL = 'model_checking'
EXHAUSTIVE = True
K_QUICK = 12
K_THOROUGH = 25
RULE = ('Every DoWhile document shape of the tier (verif/gen/c05_shapes.shapes: topologies {1 looped component; chains of '
        '2 in one or two loop stages with relative/absolute inner references; condition in the first or last component; '
        '3 components over 2 loop stages; replicated + aggregating looped components; word-colliding names A/BA/AB} x '
        'loop-carried binding {none, self, last->first, aggregate->replicated, replicated->aggregate} x import stage '
        '{0,1} x binding {output, ref, +file on the binding, +file on the usage}; the same component names reused in two '
        '(thorough: three) loop stages so that one relative reference text means a different producer per stage; a '
        'replicated OUTSIDE producer bound to an aggregating looped component; for loop-carried bindings also the file '
        'name on {loopBinding+usage, original+loopBinding+usage, loopBinding only, original only} (thorough: all 8 '
        'placements, the same name everywhere) (+ never-carried second binding, store_flowir_to_disk '
        'on/off, relative/absolute binding spelling; thorough: full product, replicate 1 and 2, digit names, copy '
        'bindings) is driven for k = 1..K (K = 12 quick, 25 thorough; both cross the 9->10 boundary); additional '
        'histories interleave restarts (the instance is loaded again with Experiment.experimentFromInstance after '
        'iterations {2,10} quick; {1}, {9,10}, {11,24} thorough) and the state right after each restart is judged too. '
        'The quick tier adds 6 seed-rotated shapes of the thorough space to its fixed core. Workflows with TWO (thorough: '
        'also three) DoWhile documents (consecutive stages in both registration orders, same stage, same component names '
        'in different stages; thorough: different topologies, suffix names, three loops) are driven through EVERY word of '
        'length 3 (thorough 6; three loops 4) over the loops (all interleavings) plus long schedules in which one loop '
        'crosses 9->10 while the other is behind / ahead / in step, plus schedules with restarts. After every step '
        'the complete state (of every loop, each with its own k) is judged: node sets, every instance 0..k (references, command line, predecessors), '
        'placeholders, DoWhile state, stored flowir_instance.yaml, and DataReference.resolve / '
        'true_reference_to_component_id for every outside spelling (8 methods x with/without file x abs/rel) of every '
        'looped component. A state (shape, k, restarts so far) is non-trivial when k >= 1; distinct = distinct states. '
        'Excluded (grey zone): non-looped components whose name contains "#", in-loop :loopref references, loopBindings '
        'with :loopref/:loopoutput, bindings whose binding and usage name DIFFERENT files, bindings to direct paths (input/, data/: rejected at load), non-aggregating '
        'consumers of replicated looped components outside the loop.')
ASSUMPTIONS = [
    'the controller calls instantiate_dowhile_next_iteration with the stored document and currentIteration+1; the check '
    'does the same and never skips an iteration',
    'working directories and output files of new instances are created by the harness (the controller normally creates '
    'them) at <instance>/stages/stage<N>/<name>; "resolves to instance k" is judged on these paths / file contents',
    'every enumerated document is valid (only forms used by tests/test_dowhile.py; loopBindings name looped components '
    'with the method of the inputBinding; a loop-carried producer is never in a later loop stage than its consumer). A '
    'shape whose package LOAD raises is counted as rejected and not judged (C11 owns rejection; more than 10% rejected '
    'shapes is a harness error); once the document was loaded, an exception of instantiate_dowhile_next_iteration at any '
    'step k >= 1 is judged as a violation (iteration k could not be instantiated)',
    'a reference between two looped components means the instance of the same iteration',
    'an outside consumer must (at least) depend on the newest instance of what it references and on every instance for '
    'aggregate references; it may additionally depend on older instances and on condition producers',
    'the return value of instantiate_dowhile_next_iteration is judged against its docstring (names of the new components)',
    'in a workflow with several DoWhile documents the statement holds for every loop separately, each with its own '
    'number of further iterations; loops advance independently in any interleaving (under the controller a loop advances '
    'whenever its own condition component finishes)',
    'a workflow loaded again from its instance directory (after iterations were stored with store_flowir_to_disk=True) is '
    'still "the workflow" of the statement; failures seen only after such a restart carry the sig prefix after-reload:',
]
MC_EXPLANATION = ('states = (document shape, k[, restarts]) triples (vector k, one entry per DoWhile document, for workflows '
                  'with several loops), k = number of further iterations instantiated; '
                  'transitions = calls of the real WorkflowGraph.instantiate_dowhile_next_iteration(document, k, store) on '
                  'one live WorkflowGraph per shape, plus restart transitions (Experiment.experimentFromInstance on the '
                  'instance directory); every state reached is compared in full with the reference model of the '
                  'unrolling (verif/oracles/c05_dowhile.py); traces = shapes whose whole history 0..K ran on the '
                  'implementation.')

DW_LABEL = 'DoWhile'
ITER_RE = re.compile(r'(?:^|[/.@])(\d+)#')


def _iters(texts):
    out = []
    for t in texts:
        m = ITER_RE.search(str(t))
        out.append(int(m.group(1)) if m else None)
    return out


def _content(kind, stage, name):
    return '%s@stage%d@%s' % (kind, stage, name)


class Run:
    """One live experiment of one (single- or multi-loop) shape; `ks[j]` = further iterations of loop j so far."""

    def __init__(self, col, shape, scratch, word=''):
        import yaml
        from verif.gen.pkg import experiment_from_doc
        self.col = col
        self.shape = shape
        self.word = word
        self.pos = 0
        self.loops = M.loops_of(shape)
        self.ks = [0] * len(self.loops)
        main, dws = GEN.to_documents(shape)
        extra = {'conf/' + n: yaml.safe_dump(d, sort_keys=False) for n, d in dws.items()}
        self.exp = experiment_from_doc(main, scratch, extra_files=extra)
        self.wg = self.exp.experimentGraph
        self.root = self.exp.instanceDirectory.location
        self.dw_ids = [M.dowhile_id(l) for l in self.loops]
        self._check_documents('')
        self.nonloop0 = None
        self.written = set()
        self.reloaded = 0

    def _check_documents(self, when):
        docs = self.wg._documents.get(DW_LABEL, {})
        if sorted(docs) != sorted(self.dw_ids):
            raise HarnessError('%sexpected exactly the DoWhile documents %r, found %r' % (when, self.dw_ids, list(docs)))

    # ---------------------------------------------------------------- driver
    def reload(self):
        """Second kind of transition: the experiment is loaded again from its instance directory (a restart)."""
        import experiment.model.data
        self.exp = experiment.model.data.Experiment.experimentFromInstance(self.root)
        self.wg = self.exp.experimentGraph
        self.reloaded += 1
        self._check_documents('after reload: ')

    def step(self, j):
        """One further iteration of loop j, called the way the controller does (stored document, next number)."""
        doc = self.wg._documents[DW_LABEL][self.dw_ids[j]]['document']
        new = self.wg.instantiate_dowhile_next_iteration(doc, self.ks[j] + 1, self.shape['store'])
        self.ks[j] += 1
        return new

    def path_of(self, stage, name, fil=None):
        p = os.path.join(self.root, 'stages', 'stage%d' % stage, name)
        return os.path.join(p, fil) if fil else p

    def write_outputs(self, want):
        for ident_ in want['instances']:
            if ident_ in self.written:
                continue
            self.written.add(ident_)
            stage, name = int(ident_.split('.', 1)[0][5:]), ident_.split('.', 1)[1]
            d = self.path_of(stage, name)
            os.makedirs(d, exist_ok=True)
            with open(os.path.join(d, 'out.stdout'), 'w') as f:
                f.write(_content('OUT', stage, name) + '\n')
            with open(os.path.join(d, 'f.txt'), 'w') as f:
                f.write(_content('F', stage, name) + '\n')

    def where(self):
        t = 'k=%d' % self.ks[0] if len(self.ks) == 1 else 'history=%s ks=%s' % (self.word[:self.pos], self.ks)
        return '%s %s%s' % (self.shape['label'], t, ' after reload' if self.reloaded else '')

    # ---------------------------------------------------------------- observation + judgement
    def fail(self, j, sig, why, observed):
        """j = index of the loop the failing observation belongs to."""
        self.nfail += 1
        if self.reloaded:
            sig = 'after-reload:' + sig
        self.col.outcome('FAIL:' + sig)
        observed = dict(observed, loop=j)
        self.col.fail({'shape': self.shape, 'word': self.word, 'pos': self.pos, 'ks': list(self.ks), 'k': self.ks[j],
                       'reloaded': self.reloaded}, '[%s] %s' % (self.where(), why), observed, sig=sig)

    def check(self, returned_new, stepped):
        import experiment.model.graph as G
        self.nfail = 0
        shape, wg, ks = self.shape, self.wg, self.ks
        want = M.expected_state_v(shape, ks)
        self.write_outputs(want)
        graph = wg.graph
        nodes = set(graph.nodes)
        looped = {n for n in nodes if '#' in n}
        nonloop = nodes - looped
        if self.nonloop0 is None:
            self.nonloop0 = set(nonloop)
            expected_nonloop = set(want['outside']) | set(want['consumers'])
            if nonloop != expected_nonloop:
                raise HarnessError('non-looped nodes %r differ from the generated ones %r' % (sorted(nonloop), sorted(expected_nonloop)))
        j0 = stepped if stepped is not None else 0
        # 1. exactly the instances 0..k of every loop
        exp_inst = set(want['instances'])
        if looped != exp_inst:
            self.fail(j0, 'instances:graph-nodes', 'looped nodes of the graph are not exactly the instances 0..k',
                      {'missing': sorted(exp_inst - looped), 'unexpected': sorted(looped - exp_inst)})
        if nonloop != self.nonloop0:
            self.fail(j0, 'instances:non-looped-nodes-changed', 'the set of non-looped nodes changed',
                      {'missing': sorted(self.nonloop0 - nonloop), 'unexpected': sorted(nonloop - self.nonloop0)})
        try:
            conc = {'stage%d.%s' % c for c in wg._concrete.get_component_identifiers(True) if '#' in c[1]}
            unrep = {'stage%d.%s' % c for c in wg.configuration._unreplicated.get_component_identifiers(True) if '#' in c[1]}
        except AttributeError as e:
            raise HarnessError('cannot read component identifiers: %s' % e)
        if conc != exp_inst:
            self.fail(j0, 'instances:concrete', 'looped components of the replicated FlowIR are not exactly the instances 0..k',
                      {'missing': sorted(exp_inst - conc), 'unexpected': sorted(conc - exp_inst)})
        if unrep != want['unreplicated']:
            self.fail(j0, 'instances:unreplicated', 'looped components of the unreplicated FlowIR are not exactly the instances 0..k',
                      {'missing': sorted(want['unreplicated'] - unrep), 'unexpected': sorted(unrep - want['unreplicated'])})
        if returned_new is not None:
            exp_new = {n for n, d in want['instances'].items() if d['loop'] == stepped and d['iter'] == ks[stepped]}
            if set(returned_new) != exp_new or len(returned_new) != len(set(returned_new)):
                self.fail(stepped, 'instances:returned-new', 'returned names are not the components of the new iteration',
                          {'got': sorted(returned_new), 'want': sorted(exp_new)})
        if shape['store'] and sum(ks) >= 1:
            self.check_stored(j0, want)
        # 2. inputs of every instance
        for name in sorted(exp_inst & looped):
            w = want['instances'][name]
            j = w['loop']
            stage = int(name.split('.', 1)[0][5:])
            try:
                spec = graph.nodes[name]['componentSpecification']
                raw = list(spec.rawDataReferences)
                args = spec.commandDetails.get('arguments') or ''
            except Exception as e:
                self.fail(j, 'inputs:unreadable', 'cannot read the specification of %s: %r' % (name, e), {'node': name})
                continue
            got = {M.parse_ref(r, stage) for r in raw}
            kind = 'carried' if (w['iter'] > 0 and any('#' in r[1] and not r[1].startswith('%d#' % w['iter']) for r in w['refs'])) else 'plain'
            if got != w['refs']:
                self.fail(j, 'inputs:references:%s' % kind, 'references of %s are %r, expected %r' % (name, sorted(raw), sorted(w['refs'], key=repr)),
                          {'node': name, 'iter': w['iter'], 'comp': w['comp'], 'got': sorted(raw), 'want': sorted(map(list, w['refs']), key=repr)})
            want_args = {r for r in w['refs'] if r[3] in GEN.CMDLINE_METHODS}
            if want_args:
                got_args = {M.parse_ref(t, stage) for t in args.split()}
                if got_args != want_args:
                    self.fail(j, 'inputs:arguments:%s' % kind, 'command line of %s is %r, expected the references %r' % (name, args, sorted(want_args, key=repr)),
                              {'node': name, 'iter': w['iter'], 'comp': w['comp'], 'got': args, 'want': sorted(map(list, want_args), key=repr)})
            preds = set(graph.predecessors(name))
            if preds != w['preds']:
                self.fail(j, 'inputs:predecessors:%s' % kind, 'predecessors of %s are %r, expected %r' % (name, sorted(preds), sorted(w['preds'])),
                          {'node': name, 'iter': w['iter'], 'comp': w['comp'], 'got': sorted(preds), 'want': sorted(w['preds'])})
        for name in sorted(want['outside']):
            if name in nodes and set(graph.predecessors(name)):
                self.fail(j0, 'inputs:outside-producer-has-predecessors', '%s gained predecessors %r' % (name, sorted(graph.predecessors(name))),
                          {'node': name, 'got': sorted(graph.predecessors(name))})
        # 3. outside consumers
        for name, w in sorted(want['consumers'].items()):
            if name not in nodes:
                continue
            preds = set(graph.predecessors(name))
            if not (w['must'] <= preds <= w['may']):
                sig = 'consumer:predecessors:missing-newest' if not w['must'] <= preds else 'consumer:predecessors:foreign'
                self.fail(j0, sig, 'predecessors of outside consumer %s: missing %r, unexpected %r' % (
                    name, sorted(w['must'] - preds), sorted(preds - w['may'])),
                    {'node': name, 'missing': sorted(w['must'] - preds), 'unexpected': sorted(preds - w['may'])})
        # 4. placeholders
        ph = wg._placeholders
        if set(ph) != set(want['placeholders']):
            self.fail(j0, 'placeholder:set', 'placeholders are %r, expected %r' % (sorted(ph), sorted(want['placeholders'])),
                      {'got': sorted(ph), 'want': sorted(want['placeholders'])})
        for pid, w in sorted(want['placeholders'].items()):
            if pid not in ph:
                continue
            j = want['placeholder_loop'][pid]
            if ph[pid].get('latest') != w['latest']:
                self.fail(j, 'placeholder:latest', 'placeholder %s: latest is %r, expected %r' % (pid, ph[pid].get('latest'), w['latest']),
                          {'placeholder': pid, 'got': ph[pid].get('latest'), 'got_iters': _iters([ph[pid].get('latest')]), 'want_iters': [ks[j]]})
            rep = list(ph[pid].get('represents') or [])
            if set(rep) != w['represents'] or len(rep) != len(set(rep)):
                self.fail(j, 'placeholder:represents', 'placeholder %s represents %r, expected the instances 0..%d' % (pid, sorted(rep), ks[j]),
                          {'placeholder': pid, 'got': sorted(rep)})
        # 4b. the helper of the front-end that maps a placeholder to its newest instance (anchored mechanism); it is
        #     only asked about names that are unique in the workflow (it takes no notice of the stage)
        import experiment.model.frontends.flowir as F
        helper = getattr(F, 'map_placeholder_id_to_iteration', None)
        if helper is not None:
            known_ids = set(wg._concrete.get_component_identifiers(True))
            bases = [pid.split('.', 1)[1] for pid in want['placeholders']]
            for pid, w in sorted(want['placeholders'].items()):
                stage, base = int(pid.split('.', 1)[0][5:]), pid.split('.', 1)[1]
                if bases.count(base) != 1:
                    continue
                j = want['placeholder_loop'][pid]
                try:
                    got = helper((stage, base), [], known_ids)
                except Exception as e:
                    got = repr(e)
                got_id = 'stage%d.%s' % tuple(got) if isinstance(got, tuple) and len(got) == 2 else got
                if got_id != w['latest']:
                    self.fail(j, 'helper:map-placeholder-latest', 'map_placeholder_id_to_iteration(%r) is %r, expected %r' % ((stage, base), got_id, w['latest']),
                              {'placeholder': pid, 'got': got_id, 'got_iters': _iters([got_id]), 'want_iters': [ks[j]]})
        # 5. state of every loop
        for dw_id, w in sorted(want['states'].items()):
            j = w['loop']
            st = wg._documents[DW_LABEL][dw_id].get('state') or {}
            if st.get('currentIteration') != ks[j]:
                self.fail(j, 'state:iteration', 'currentIteration of %s is %r, expected %d' % (dw_id, st.get('currentIteration'), ks[j]),
                          {'dowhile': dw_id, 'got': st.get('currentIteration'), 'got_iters': [st.get('currentIteration')], 'want_iters': [ks[j]]})
            cond = M.parse_ref(str(st.get('currentCondition')), self.loops[j]['S'])
            if cond != w['condition']:
                self.fail(j, 'state:condition', 'currentCondition of %s is %r, expected %r' % (dw_id, st.get('currentCondition'), w['condition']),
                          {'dowhile': dw_id, 'got': st.get('currentCondition'), 'got_stage': cond[0] if cond else None,
                           'got_iters': _iters([st.get('currentCondition')]), 'want_iters': [ks[j]]})
        # 6. every outside spelling of every looped component
        for j, loop in enumerate(self.loops):
            self.check_probes(G, j, loop)
        return self.nfail

    def check_probes(self, G, j, loop):
        wg, k = self.wg, self.ks[j]
        for p in M.probes(loop):
            text = M.probe_text(p)
            kind, items = M.expected_probe(loop, k, p)
            if kind == 'paths':
                exp_tokens = [self.path_of(*it) for it in items]
            else:
                exp_tokens = [_content('F' if it[2] else 'OUT', it[0], it[1]) for it in items]
            agg = p['method'] in ('loopref', 'loopoutput')
            try:
                dr = G.DataReference(text, stageIndex=p['stage'] if p['spell'] == 'rel' else None)
                got = dr.resolve(wg)
            except Exception as e:
                self.fail(j, ('aggregate' if agg else 'outside') + ':resolve-raised:%s' % p['method'],
                          'resolving %s raised %r' % (text, e), {'reference': text, 'error': repr(e)})
                continue
            got_tokens = str(got).split()
            if got_tokens != exp_tokens:
                gi, wi = _iters(got_tokens), [int(it[1].split('#')[0]) for it in items]
                if agg:
                    sig = 'aggregate:order:%s' % p['method'] if sorted(got_tokens) == sorted(exp_tokens) else 'aggregate:members:%s' % p['method']
                else:
                    sig = 'outside:resolve:%s' % p['method']
                self.fail(j, sig, '%s resolves to %r (iterations %r), expected iterations %r' % (text, got_tokens[:3], gi, wi),
                          {'reference': text, 'got': got_tokens[:40], 'got_iters': gi, 'want_iters': wi})
            if p['spell'] == 'abs' and p['file'] is None and p['method'] != 'loopoutput':
                try:
                    ids = dr.true_reference_to_component_id(wg)
                except Exception as e:
                    self.fail(j, 'outside:component-id-raised', 'true_reference_to_component_id(%s) raised %r' % (text, e), {'reference': text})
                    continue
                got_ids = None if ids is None else ['stage%d.%s' % tuple(c) for c in ids]
                exp_ids = ['stage%d.%s' % (it[0], it[1]) for it in items]
                bad = (got_ids is None or (sorted(got_ids) != sorted(exp_ids) if agg else got_ids != exp_ids))
                if bad:
                    self.fail(j, 'aggregate:component-ids' if agg else 'outside:component-id',
                              'producers of %s are %r, expected %r' % (text, got_ids, exp_ids),
                              {'reference': text, 'got': got_ids, 'got_iters': _iters(got_ids or []), 'want_iters': [int(it[1].split('#')[0]) for it in items]})

    def check_stored(self, j0, want):
        import yaml
        path = os.path.join(self.root, 'conf', 'flowir_instance.yaml')
        try:
            with open(path) as f:
                doc = yaml.safe_load(f)
            stored = {'stage%d.%s' % (c.get('stage', 0), c['name']) for c in doc['components'] if '#' in c['name']}
        except Exception as e:
            self.fail(j0, 'instances:stored-file-unreadable', 'cannot read %s: %r' % (path, e), {'error': repr(e)})
            return
        if stored != want['unreplicated']:
            self.fail(j0, 'instances:stored-file', 'flowir_instance.yaml does not hold exactly the instances 0..k',
                      {'missing': sorted(want['unreplicated'] - stored), 'unexpected': sorted(stored - want['unreplicated'])})


def word_for(shape, K):
    """History of a single-loop shape: K further iterations, a restart (R) after every iteration in shape['reloads']."""
    reloads = set(shape.get('reloads') or [])
    return ''.join('A' + ('R' if k in reloads else '') for k in range(1, K + 1))


def run_shape(col, shape, word, only=None):
    """Drives one shape through the history `word` (A/B/C = one further iteration of loop 0/1/2, R = restart from the
    instance directory); judges the state after every prefix, or only after the prefix of length `only`."""
    from verif.gen.pkg import scratch_dir
    sid = case_id(shape)

    def judge(run, new, stepped):
        if only is not None and run.pos != only:
            # outputs of earlier instances must still exist for the judged state
            run.write_outputs(M.expected_state_v(shape, run.ks))
            if run.nonloop0 is None:
                run.nonloop0 = {n for n in run.wg.graph.nodes if '#' not in n}
            return
        col.evaluated()
        key = '%s:%s%s' % (sid, ','.join(map(str, run.ks)), ':r%d' % run.reloaded if run.reloaded else '')
        col.state(key)
        k = max(run.ks)
        if k >= 1:
            col.nontriv(key)
        if run.check(new, stepped) == 0:
            col.outcome(('ok-after-reload:' if run.reloaded else 'ok:') + ('multi:' if len(run.ks) > 1 else '') +
                        ('k=0' if k == 0 else ('1<=k<=9' if k <= 9 else 'k>=10')))

    with scratch_dir('c05-') as d:
        try:
            run = Run(col, shape, d, word)
        except HarnessError:
            raise
        except Exception as e:
            col.evaluated()
            col.outcome('load-rejected:%s' % type(e).__name__)
            col.count('shapes_rejected_at_load')
            col.payload.append(('rejected', shape['label'], repr(e)[:300]))
            return
        judge(run, None, None)
        for pos, letter in enumerate(word, 1):
            if only is not None and run.pos >= only:
                break
            run.pos = pos
            if letter == 'R':
                try:
                    run.reload()
                    col.transitions += 1
                    col.count('reload_transitions')
                except HarnessError:
                    raise
                except Exception as e:
                    run.reloaded += 1
                    run.nfail = 0
                    col.evaluated()
                    run.fail(0, 'reload-raised:%s' % type(e).__name__,
                             'loading the instance again after the stored iterations %r raised %r' % (run.ks, e), {'error': repr(e)[:500]})
                    return
                judge(run, None, None)
                continue
            j = ord(letter) - ord('A')
            try:
                new = run.step(j)
                col.transitions += 1
            except Exception as e:
                run.ks[j] += 1
                run.nfail = 0
                col.evaluated()
                run.fail(j, 'step-raised:%s' % type(e).__name__,
                         'instantiate_dowhile_next_iteration raised %r although the document was loaded and the earlier '
                         'iterations exist' % (e,), {'error': repr(e)[:500]})
                return
            judge(run, new, j)
        col.traces += 1


def worker(col, item, tier, seed):
    shape, word = item
    run_shape(col, shape, word)
    if len(M.loops_of(shape)) > 1 or len(shape['comps']) >= 2:
        col.sample({'shape': shape['label'], 'history': word if len(word) < 40 else word[:37] + '...',
                    'loops': [{'S': l['S'], 'components': [c['name'] for c in l['comps']],
                               'bindings': {b: [v['type'], v['file_at'], v['carried_from']] for b, v in l['bindings'].items()}}
                              for l in M.loops_of(shape)]})


def tier_items(thorough, seed):
    K = K_THOROUGH if thorough else K_QUICK
    items = [(s, word_for(s, K)) for s in GEN.shapes(thorough)]
    multi = [(m, w) for m in GEN.multi_shapes(thorough) for w in GEN.multi_words(m, thorough)]
    extra = []
    if not thorough:
        # seed-rotated extra stratum: a few shapes of the thorough space (subset of what thorough covers)
        keys = {repr(s) for s, _ in items}
        rest = [s for s in GEN.shapes(True) if repr(s) not in keys]
        n = 6
        if rest:
            start = (seed * n) % len(rest)
            extra = [((rest + rest)[start + i], None) for i in range(min(n, len(rest)))]
            extra = [(s, word_for(dict(s, reloads=[r for r in s['reloads'] if r <= K]), K)) for s, _ in extra]
    return items, multi, extra


def run(ctx):
    items, multi, extra = tier_items(ctx.thorough, ctx.seed)
    ctx.count('shapes_core', len(items))
    ctx.count('multi_loop_histories', len(multi))
    ctx.count('shapes_seed_stratum', len(extra))
    # longest histories first (better packing)
    allitems = sorted(items + extra + multi, key=lambda it: -len(it[1]) * len(M.loops_of(it[0])))
    try:        # imported once in the parent so that the forked workers do not pay for it again
        import experiment.model.data  # noqa: F401
        import experiment.model.graph  # noqa: F401
    except Exception as e:
        raise HarnessError('cannot import the code under check: %r' % e)
    ctx.pmap('verif.props.c05', 'worker', allitems, maxtasksperchild=12)
    rejected = [p for p in ctx.payload if p and p[0] == 'rejected']
    if len(rejected) * 10 > len(allitems):
        raise HarnessError('%d of %d shapes were rejected by the loader, e.g. %r' % (len(rejected), len(allitems), rejected[:3]))
    for r in rejected[:5]:
        ctx.note('rejected shape %s: %s' % (r[1], r[2]))


def replay(ctx, case):
    if 'word' in case:
        run_shape(ctx, case['shape'], case['word'], only=case['pos'])
    else:       # replay files written before histories became words
        word = word_for(case['shape'], case['k'])
        n = int(case.get('reloaded') or 0)
        pos = len(word)
        if word.endswith('R') and word.count('R') > n:
            pos -= 1
        run_shape(ctx, case['shape'], word, only=pos)


# ------------------------------------------------------------------ known-finding selectors
def _strip(sig):
    return sig[len('after-reload:'):] if sig.startswith('after-reload:') else sig


def _lexi_max(k):
    return int(max((str(i) for i in range(k + 1))))


def _sel_latest_lexicographic(f):
    """placeholder 'latest' (and everything derived from it) is the lexicographic maximum of the iteration numbers"""
    k = f['case'].get('k', 0)
    ob = f.get('observed') or {}
    sig = _strip(f['sig'])
    if k < 10 or _lexi_max(k) == k:
        return False
    if sig in ('placeholder:latest', 'outside:component-id', 'helper:map-placeholder-latest') or sig.startswith('outside:resolve:'):
        return ob.get('want_iters') == [k] and ob.get('got_iters') == [_lexi_max(k)]
    return False


def _sel_aggregate_lexicographic(f):
    """:loopref / :loopoutput list the instances sorted by the iteration number as a string"""
    k = f['case'].get('k', 0)
    ob = f.get('observed') or {}
    if k < 10 or not _strip(f['sig']).startswith('aggregate:order:'):
        return False
    want = list(range(k + 1))
    return ob.get('want_iters') == want and ob.get('got_iters') == sorted(want, key=str)


def _sel_arguments_rewritten_twice(f):
    """command line of an instance whose component consumes the same looped producer twice - through a loop-carried
    binding (previous iteration) and directly (this iteration), same method and file: the second substitution lands
    inside the text the first one inserted ('stage1.0#stage1.1#work:output work:output')"""
    ob = f.get('observed') or {}
    if not _strip(f['sig']).startswith('inputs:arguments:') or not ob.get('iter'):
        return False
    try:
        loop = M.loops_of(f['case']['shape'])[ob['loop']]
        comp = loop['comps'][ob['comp']]
    except (KeyError, IndexError, TypeError):
        return False
    trigger = False
    for bname in comp['uses']:
        b = loop['bindings'][bname]
        if b.get('carried_from') is None:
            continue
        for (pi, _sp, method, fil) in comp['deps']:
            if pi == b['carried_from'] and method == b['type'] and (fil or None) == M.binding_effective_file(b, carried=True):
                trigger = True
    return trigger and re.search(r'\d+#stage\d+\.\d+#', str(ob.get('got'))) is not None


def _sharing_condition_name(shape, ks):
    """-> {loop index: (global stage of its condition component, name)} for loops whose condition name is not unique."""
    loops = M.loops_of(shape)
    names = [l['comps'][l['cond']]['name'] for l in loops]
    return {j: (M.comp_stage(l, l['comps'][l['cond']]), names[j]) for j, l in enumerate(loops) if names.count(names[j]) > 1}


def _sel_state_of_other_loop(f):
    """two DoWhile documents whose condition components have the same name (in different stages): the state of a loop
    (and the condition dependency of consumers) is computed from the newest instance with that NAME in any stage"""
    case, ob = f['case'], f.get('observed') or {}
    ks = case.get('ks')
    if not ks or len(ks) < 2:
        return False
    share = _sharing_condition_name(case['shape'], ks)
    sig = _strip(f['sig'])
    if sig in ('state:iteration', 'state:condition'):
        j = ob.get('loop')
        if j not in share:
            return False
        peers = [i for i in share if share[i][1] == share[j][1]]
        newest = max(ks[i] for i in peers)
        if ob.get('got_iters') != [newest]:
            return False
        if sig == 'state:iteration':
            return newest != ks[j]
        return ob.get('got_stage') in [share[i][0] for i in peers if ks[i] == newest] and \
            (ob.get('got_stage') != share[j][0] or newest != ks[j])
    if sig == 'consumer:predecessors:foreign':
        if ob.get('missing') or not ob.get('unexpected') or not share:
            return False
        # edges are only ever added, so every instance that was the newest one at some earlier step may be there
        allowed = {'stage%d.%d#%s' % (share[i][0], n, share[i][1]) for i in share for n in range(ks[i] + 1)}
        return set(ob['unexpected']) <= allowed
    return False


def _sel_binding_producer_replicated(f):
    """a further iteration cannot be instantiated when the producer of a binding is replicated (an outside producer
    of an original binding, or the looped producer of a loopBinding): the ids of the REPLICATED FlowIR are used to
    recognise the producers of the unreplicated bindings"""
    ob = f.get('observed') or {}
    if not _strip(f['sig']).startswith('step-raised:FlowIRReferenceToUnknownComponent'):
        return False
    try:
        loop = M.loops_of(f['case']['shape'])[ob['loop']]
    except (KeyError, IndexError, TypeError):
        return False
    names = []
    for bname, b in loop['bindings'].items():
        if (loop.get('outside_replicate') or {}).get(b['outside']):
            names.append(b['outside'])
        if b.get('carried_from') is not None and loop['comps'][b['carried_from']].get('replicate'):
            names.append(bname)
    err = str(ob.get('error'))
    return 'Unknown reference' in err and any(('.%s:' % n) in err or (".%s'" % n) in err for n in names)


KNOWN_SELECTORS = {'binding_producer_replicated': _sel_binding_producer_replicated,
                   'latest_is_lexicographic_max': _sel_latest_lexicographic,
                   'aggregate_order_lexicographic': _sel_aggregate_lexicographic,
                   'arguments_rewritten_twice': _sel_arguments_rewritten_twice,
                   'state_of_other_loop_with_same_condition_name': _sel_state_of_other_loop}
