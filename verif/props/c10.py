"""C10 — Command-line reference substitution is exact.

Driver : ComponentSpecification.resolveArguments() of consumer components of real, instantiated experiments
         (one on-disk package hosts a chunk of several hundred consumers plus every producer they reference).
Oracle : verif.oracles.c10_subst.substitute — token-wise simultaneous substitution written from the statement; it is
         cross-checked against the expected string built token by token from the case (disagreement = harness error).
Cases  : verif.gen.c10_cases (collision-forcing producer names, equal names across stages, every declaration order,
         both spellings, wrappers, :output contents that look like references, literals that look like names).
"""
import contextlib
import itertools
import json
import os
import shutil
import tempfile

from verif.core.runner import HarnessError, case_id
from verif.gen import c10_cases as G
from verif.oracles import c10_subst as O

PROPERTY = 'C10'
LEVEL = 'exploration'
EXHAUSTIVE = True
RULE = (
    'Consumers live in stage 1, producers in stage 0 and 1, names from {A, AA, BA, AB, A-B, A.B, x} (thorough: +B; '
    'family direct: reserved folder `data` next to a component `Bdata`). Fixed core, all enumerated completely: '
    '[pair] every unordered producer pair x both declaration orders x methods {ref, file:output}^2 x every legal '
    'spelling (relative only for same-stage producers) x uniform wrapper {bare, key=<ref>, and <ref>/sub/path when '
    'both are :ref}; [triple] every 3-subset (names without the neutral x in the core) x all 6 declaration orders x '
    '{all absolute, relative where legal}; [mixed] one reference occurring 2-3 times in equal/mixed spellings, alone '
    'and next to every second producer; [lookalike] every ordered pair where the :output file of the first contains '
    'the spelling of the second (2 forms), its own spelling, or an undeclared reference-like text; [literal] literal '
    'words colliding with names (`BA`, `stage0.BA/f.txt`, `-A`, `A.ref` ...) around the references; [methods] '
    'file:ref, stdout :output and a declared-but-unspelled :copy on every pair; [direct] `data/f.txt:ref|output` next '
    'to `Bdata/f.txt`; [direct-suffix] a direct reference whose path ends with a producer name (`input/<n>:ref|output`, '
    '`data/<n>/f.txt:ref|output`) next to the matching reference to component <n> (either stage, every legal spelling), '
    'both declaration orders and both token orders; [special-value] an :output reference (file, or the stdout of a dedicated producer) whose value '
    'is one of 30 texts special to replacement machinery or to text-mode reading (backslash escapes and group '
    'references, $1/&, {0}, regex and shell metacharacters, TAB, double/leading/trailing space, CR LF / lone CR / '
    'embedded and leading LF, FF VT FS NEL LS PS, a leading BOM; files written byte-exactly) alone, as key=<ref>, between literals and next to a second reference in '
    'both declaration orders; [whitespace] literal text other than single blanks (double/multiple blanks, TAB, LF, '
    'leading/trailing blanks) between and around references, for an ordinary consumer and for a consumer with '
    '`command.interpreter: bash` and no executable (written arguments `exe0 <arguments>`); [relative-declared] '
    'references whose producer name is given through a component variable (`%(p0)s:ref`, all four reference forms, '
    'declared relative/absolute, used in both spellings; and next to the same-named stage-0 producer in both orders); '
    '[repeating-stdout] a file-less :output reference to a REPEATING producer for every set '
    'of archived streams streams/<n>.stdout from {every window of 1-4 consecutive repetitions over 0..13, windows '
    'straddling 99/100 and 999/1000, 8 non-contiguous sets} (plus a newer .stderr stream and a plain out.stdout as '
    'decoys): cross-stage consumer (key=<ref>; next to <producer>:ref in both declaration orders) and same-stage '
    'repeating consumer in both spellings. The thorough extension adds: the same families over all 8 names (*-ext), pairs with '
    'independent wrappers (3x3) x both token orders (declared spelling as used; and always-absolute declarations with '
    'bare tokens), triples with every legal spelling combination (all :ref) or with the first/last member an :output '
    '(all absolute / relative where legal), 4-token templates (p, key=q, --opt=p, literal), look-alike '
    'contents in 3 forms for ref and output targets. Quick adds one of 128 hash-shards of that extension, selected by '
    'VERIF_SEED. Every case is a component a correct implementation accepts: every reference-like token in the '
    'arguments is a declared ref/output reference and every declared ref/output reference is used. A case is '
    'non-trivial if it has >=2 declared references or >=2 reference tokens; distinct = distinct (declared references '
    'in order, token sequence, file contents). collision_forcing_cases counts cases where a declared spelling is '
    'contained in another token / in an :output value, or one reference occurs in both spellings.')
ASSUMPTIONS = [
    'an occurrence of a reference is a maximal run [\\w./#-]+:method delimited by whitespace, "=" or a following "/"; '
    'text such as `XA:ref` with undeclared XA, `A:refs`, `A:ref:ref` is never generated (grey zone: the product reports '
    'it as an undeclared reference)',
    'the relative spelling is only used for producers in the consumer\'s own stage (what `A:ref` means for a producer of '
    'another stage is not decided by the statement)',
    'occurrences of copy/link/copyout/extract references in the arguments, loopref/loopoutput (need DoWhile '
    'placeholders, C05), replicated producers (C03), missing :output files and %(var)s / [index] interpolation are out '
    'of scope; :output files are written without trailing newline so that newline stripping is not judged',
    'the value of a :ref reference is <instance>/stages/stage<i>/<producer>[/file] (<instance>/data/<file> for the '
    'direct reference); the directory is checked to exist in the instance; paths are compared after normpath',
    'for a file-less :output reference to a repeating producer "the referenced file" is the archived stream '
    'streams/<n>.stdout with the numerically highest n (docstring of ComponentSpecification.path_to_stdout: "most '
    'recently generated file"); a repeating producer without any stream is not judged',
    'for a consumer with command.interpreter and no executable the first blank-delimited word of the written arguments '
    'is the executable (FlowIR.digest_interpreter_field) and the remainder, byte for byte, is the argument string (exactly '
    'one blank follows the executable in every generated case)',
    'experiments are instantiated with the same recipe as tests/utils.experiment_from_flowir but without the final '
    'validateExperiment() (it would reject the consumers whose arguments the defect under test corrupts)',
]
SUBST = ('ref', 'output')
KINDS = ('contained-spelling', 'mixed-spelling', 'rescan')
KEEP_PER_GROUP = 2


# ------------------------------------------------------------------------------------------------------ case helpers
def case_values(case, inst):
    """value of every declared reference (by index) for an instance rooted at `inst`."""
    vals = []
    for stage, name, file, method, _ in case['refs']:
        if method == 'output':
            if stage is None:
                vals.append(G.default_content(stage, name, file))
            elif file is None and ('%s/%s' % (stage, name)) in case.get('streams', {}):
                n = O.referenced_stdout_stream(case['streams']['%s/%s' % (stage, name)])
                vals.append(G.stream_content(stage, name, n))
            else:
                vals.append(case['contents'].get(G.content_key(stage, name, file), G.default_content(stage, name, file)))
        else:
            if stage is None:
                p = os.path.join(inst, name)
            else:
                p = os.path.join(inst, 'stages', 'stage%d' % stage, name)
            vals.append(p if file is None else os.path.join(p, file))
    return vals


def expected_by_construction(case, vals):
    out = []
    for t in case['tokens']:
        if t[0] == 'l':
            out.append(t[1])
        else:
            pre, post = G.WRAPS[t[3]]
            out.append(pre + vals[t[1]] + post)
    return ' '.join(out)


def all_spellings(ref):
    """both spellings the implementation may look for (relative one exists for every component reference)."""
    return sorted({G.spell(ref, 'abs'), G.spell(ref, 'rel')})


def known_order(case):
    """Position of every declared reference in the order in which the accepted known defects (sequential replacement)
    process them: all direct references first, then the component references, each group in declaration order.
    Only used to decide whether a wrong observation has the shape of a KNOWN finding, never to judge a case."""
    refs = case['refs']
    seq = [i for i, r in enumerate(refs) if r[0] is None] + [i for i, r in enumerate(refs) if r[0] is not None]
    return {r: n for n, r in enumerate(seq)}


def has_both_spellings(case, r):
    return case['refs'][r][0] is not None and \
        {t[2] for t in case['tokens'] if t[0] == 'r' and t[1] == r} == {'rel', 'abs'}


def contained_is_known_shape(case, pos, r, how, r2):
    """the known contained-spelling defect corrupts a token of r with r2's value only if r2 is replaced before r, or
    if that token is a relative occurrence the known mixed-spelling defect left behind"""
    return pos[r2] < pos[r] or (how == 'rel' and has_both_spellings(case, r))


def collision_kinds(case, vals=None, known_shapes_only=False):
    """Which collision mechanisms the *case* (input only) contains. vals=None: :ref values cannot contain references.
    known_shapes_only: only in the constellations in which the accepted known defects can produce them."""
    if vals is None:
        vals = case_values(case, '/INST')
    refs = case['refs']
    pos = known_order(case)
    kinds = set()
    toks = [t for t in case['tokens'] if t[0] == 'r']
    for t in toks:
        r = t[1]
        S = G.spell(refs[r], t[2])
        for r2, ref2 in enumerate(refs):
            if r2 == r or ref2[3] not in SUBST:
                continue
            if known_shapes_only and not contained_is_known_shape(case, pos, r, t[2], r2):
                continue
            if any(S2 in S and S2 != S for S2 in all_spellings(ref2)):
                kinds.add('contained-spelling')
        if refs[r][3] == 'output':
            for r2, ref2 in enumerate(refs):
                if known_shapes_only and not pos[r2] > pos[r]:
                    continue
                if r2 != r and ref2[3] in SUBST and any(S2 in vals[r] for S2 in all_spellings(ref2)):
                    kinds.add('rescan')
    for r in set(t[1] for t in toks):
        if refs[r][0] is not None and {t[2] for t in toks if t[1] == r} == {'rel', 'abs'}:
            kinds.add('mixed-spelling')
    return kinds


def explain(case, vals, observed):
    """Tries to explain a wrong observation token by token with the three known corruption shapes.
    Returns (sig, details). sig is '+'-joined sorted kinds, or 'unexplained'."""
    refs = case['refs']
    toks = case['tokens']
    pos = known_order(case)
    alts = []
    for i, t in enumerate(toks):
        if t[0] == 'l':
            alts.append([(t[1], None, None)])
            continue
        r, how, wrap = t[1], t[2], t[3]
        pre, post = G.WRAPS[wrap]
        S = G.spell(refs[r], how)
        a = [(pre + vals[r] + post, None, None)]
        for r2, ref2 in enumerate(refs):
            if r2 == r or ref2[3] not in SUBST:
                continue
            for S2 in all_spellings(ref2):
                if S2 in S and S2 != S:
                    kind = 'contained-spelling' if contained_is_known_shape(case, pos, r, how, r2) else \
                        'contained-spelling-of-reference-replaced-later'      # NOT a known shape
                    a.append((pre + S.replace(S2, vals[r2]) + post, kind, '%s inside token %s' % (S2, S)))
                elif S2 == S:
                    # the relative spelling of a same-named producer of another stage: NOT a known shape
                    a.append((pre + vals[r2] + post, 'value-of-same-named-producer-of-other-stage',
                              '%s taken for %s' % (S, G.spell(ref2, 'abs'))))
                if refs[r][3] == 'output' and S2 in vals[r]:
                    kind = 'rescan' if pos[r2] > pos[r] else 'rescan-by-reference-replaced-earlier'  # 2nd: NOT known
                    a.append((pre + vals[r].replace(S2, vals[r2]) + post, kind,
                              '%s inside the value of %s' % (S2, S)))
        if how == 'rel' and any(u[0] == 'r' and u[1] == r and u[2] == 'abs' for u in toks):
            a.append((pre + S + post, 'mixed-spelling', '%s left because its absolute spelling also occurs' % S))
        seen = set()
        uniq = []
        for x in a:
            if x[0] not in seen:
                seen.add(x[0])
                uniq.append(x)
        alts.append(uniq)
    best = None
    for combo in itertools.product(*alts):
        if ' '.join(c[0] for c in combo) == observed:
            used = [(i, c[1], c[2]) for i, c in enumerate(combo) if c[1]]
            if best is None or len(used) < len(best):
                best = used
    if not best:
        return 'unexplained', []
    return '+'.join(sorted({k for _, k, _ in best})), [[i, k, d] for i, k, d in best]


def lenient_equal(expected, observed):
    """same text except for the spelling of absolute paths (normpath)."""
    a, b = expected.split(' '), observed.split(' ')
    if len(a) != len(b):
        return False
    for x, y in zip(a, b):
        if x == y:
            continue
        kx, _, vx = x.rpartition('=')
        ky, _, vy = y.rpartition('=')
        if kx != ky or not (vx.startswith('/') and vy.startswith('/')):
            return False
        if os.path.normpath(vx) != os.path.normpath(vy):
            return False
    return True


# ------------------------------------------------------------------------------------------------------------ driver
def build_doc(cases):
    producers = {}
    files = {}
    streams = {}
    for c in cases:
        for k, idx in c.get('streams', {}).items():
            if streams.setdefault(k, list(idx)) != list(idx):
                raise HarnessError('two cases want different streams for %s' % k)
        for stage, name, file, method, _ in c['refs']:
            if stage is None:
                continue
            producers.setdefault((stage, name), None)
        for k, text in c['contents'].items():
            if files.get(k, text) != text:
                raise HarnessError('two cases want different contents for %s' % k)
            files[k] = text
    for stage, name in producers:
        files.setdefault(G.content_key(stage, name, G.FILE), G.default_content(stage, name, G.FILE))
        files.setdefault(G.content_key(stage, name, None), G.default_content(stage, name, None))
    # stage indexes must be contiguous from 0: a neutral stage-0 component is always present
    comps = [{'name': 'anchor0', 'stage': 0, 'command': {'executable': 'echo', 'arguments': 'anchor'}}]
    for (s, n) in sorted(producers):
        comp = {'name': n, 'stage': s, 'command': {'executable': 'echo', 'arguments': 'producer'}}
        if '%s/%s' % (s, n) in streams:
            comp['workflowAttributes'] = {'repeatInterval': 5}
        comps.append(comp)
    for k in streams:
        if (int(k.split('/')[0]), k.split('/', 1)[1]) not in producers:
            raise HarnessError('streams given for %s which no case references' % k)
    for i, c in enumerate(cases):
        comp = {'name': 'c%05d' % i, 'stage': G.CONSUMER_STAGE, 'references': G.declared_strings(c),
                'command': {'executable': 'echo', 'arguments': G.render_arguments(c)}}
        if c.get('interpreter'):
            # no executable: the first blank-delimited word of the written arguments is the executable
            comp['command'] = {'interpreter': c['interpreter'], 'arguments': 'exe0 ' + G.render_arguments(c)}
        if c.get('decl_via_variable'):
            comp['variables'] = {}
            comp['references'] = []
            for k, r in enumerate(c['refs']):
                if r[0] is None:
                    comp['references'].append(G.spell(r, r[4]))
                    continue
                comp['variables']['p%d' % k] = r[1]
                comp['references'].append(G.spell([r[0], '%%(p%d)s' % k, r[2], r[3]], r[4]))
        if c.get('consumer_repeat'):
            comp['workflowAttributes'] = {'repeatInterval': 5}
        comps.append(comp)
    return {'components': comps}, files, streams


@contextlib.contextmanager
def sub_scratch(parent):
    """a scratch directory below the run-level one (which the parent process removes even if the pool is killed)"""
    d = tempfile.mkdtemp(prefix='pkg-', dir=parent)
    cwd = os.getcwd()
    try:
        yield d
    finally:
        try:
            os.chdir(cwd)
        except OSError:
            os.chdir('/')
        shutil.rmtree(d, ignore_errors=True)


def judge_cases(col, cases, on_fail, ncore, parent_dir):
    """Instantiates one experiment hosting `cases` and judges every consumer. on_fail(case, why, observed, sig).
    The first `ncore` cases belong to the fixed core (separate counters, independent of VERIF_SEED)."""
    from verif.gen.pkg import experiment_from_doc
    doc, files, streams = build_doc(cases)
    with sub_scratch(parent_dir) as d:
        try:
            exp = experiment_from_doc(doc, d, extra_files={'data/%s' % G.FILE: G.default_content(None, 'data', G.FILE)},
                                      validate=False)
        except Exception as e:
            raise HarnessError('could not instantiate the host package (%d consumers): %r' % (len(cases), e))
        inst = exp.instanceDirectory.location
        for k, text in files.items():
            stage, name, file = k.split('/', 2)
            pdir = os.path.join(inst, 'stages', 'stage%s' % stage, name)
            if not os.path.isdir(pdir):
                raise HarnessError('producer working directory %s does not exist in the instance' % pdir)
            with open(os.path.join(pdir, file), 'wb') as f:      # bytes: no newline translation by the harness
                f.write(text.encode('utf-8'))
        for k, idx in streams.items():
            stage, name = k.split('/', 1)
            sdir = os.path.join(inst, 'stages', 'stage%s' % stage, name, 'streams')
            os.makedirs(sdir, exist_ok=True)
            for n in idx:
                with open(os.path.join(sdir, '%d.stdout' % n), 'w') as f:
                    f.write(G.stream_content(stage, name, n))
            # decoys: a newer stream of the other kind, and the (unused) plain out.stdout written above
            with open(os.path.join(sdir, '%d.stderr' % (max(idx) + 1)), 'w') as f:
                f.write('DECOY_STDERR')
        for c in cases:
            for stage, name, file, method, _ in c['refs']:
                if stage is None:
                    # direct reference: <instance>/<folder>/<file> with known contents (a directory if it has no suffix
                    # and is only used as a path is fine too, but a file serves :ref and :output alike)
                    path = os.path.join(inst, name, file)
                    if not os.path.isdir(os.path.join(inst, name)):
                        raise HarnessError('the instance has no top-level folder %s' % name)
                    if not os.path.exists(path):
                        os.makedirs(os.path.dirname(path), exist_ok=True)
                        with open(path, 'wb') as f:
                            f.write(G.default_content(None, name, file).encode('utf-8'))
        if not os.path.isfile(os.path.join(inst, 'data', G.FILE)):
            raise HarnessError('data/%s was not copied to the instance' % G.FILE)
        nodes = exp.experimentGraph.graph.nodes
        col.count('packages')
        for i, c in enumerate(cases):
            before = (col.extra.get('failing_cases_total', 0), col.extra.get('collision_forcing_cases', 0))
            judge_one(col, c, nodes['stage%d.c%05d' % (G.CONSUMER_STAGE, i)]['componentSpecification'], inst, on_fail)
            if i < ncore:
                col.count('core_evaluated')
                col.count('core_failing_cases', col.extra.get('failing_cases_total', 0) - before[0])
                col.count('core_collision_forcing_cases', col.extra.get('collision_forcing_cases', 0) - before[1])


def judge_one(col, c, spec, inst, on_fail):
    args = G.render_arguments(c)
    vals = case_values(c, inst)
    declared = [dict(stage=r[0], name=r[1], file=r[2], method=r[3], value=v) for r, v in zip(c['refs'], vals)]
    # ---- harness self-checks: the case is in the judged zone and both ways to compute the expectation agree
    try:
        expected, used = O.substitute(args, G.CONSUMER_STAGE, declared)
    except O.GreyZone as e:
        raise HarnessError('generator produced a grey-zone case %s: %s' % (json.dumps(c), e))
    if expected != expected_by_construction(c, vals):
        raise HarnessError('oracle and construction disagree on %s' % json.dumps(c))
    if set(used) != {i for i, r in enumerate(c['refs']) if r[3] in SUBST}:
        raise HarnessError('a declared ref/output reference is unused in %s' % json.dumps(c))
    # (not for interpreter-without-executable consumers: there the loader derives the arguments from the written text and
    #  a loader that alters the literal text is exactly what the property forbids; not for references declared through
    #  variables: how the implementation classifies them is observed through the substituted value)
    if not c.get('interpreter') and spec.commandDetails.get('arguments') != args:
        raise HarnessError('the loader changed the argument string %r -> %r' % (args, spec.commandDetails.get('arguments')))
    want = sorted(O.spelling(r[0], r[1], r[2], r[3], 'abs') for r in c['refs'])
    got = sorted(r.absoluteReference for r in spec.dataReferences)
    if want != got and not c.get('decl_via_variable'):
        raise HarnessError('the loader changed the declared references %r -> %r' % (want, got))
    # ---- evidence
    col.evaluated()
    ntok = sum(1 for t in c['tokens'] if t[0] == 'r')
    if len(c['refs']) >= 2 or ntok >= 2:
        col.nontriv(G.key_of(c))
    kinds = collision_kinds(c, vals)
    if kinds:
        col.count('collision_forcing_cases')
    col.count('family:%s' % c['family'])
    # ---- drive the implementation
    try:
        observed = spec.resolveArguments()
    except Exception as e:
        sig = 'exception:%s' % type(e).__name__
        col.outcome('FAIL/%s' % sig)
        col.count('failing_cases_total')
        col.count('failing:%s' % sig)
        text = repr(e).replace(inst, '<INST>')[:400]
        on_fail(c, 'resolveArguments raised %s for arguments %r with references %r' % (text, args, G.declared_strings(c)),
                {'arguments': args, 'declared': G.declared_strings(c), 'exception': text}, sig)
        return
    if observed == expected:
        col.outcome('exact/collision-forcing' if kinds else 'exact/no-collision')
        return
    if isinstance(observed, str) and lenient_equal(expected, observed):
        col.outcome('exact/path-spelling-differs')
        return
    if not isinstance(observed, str):
        sig, details = 'not-a-string', []
    else:
        sig, details = explain(c, vals, observed)
    norm = lambda s: s.replace(inst, '<INST>') if isinstance(s, str) else repr(s)
    col.outcome('FAIL/%s' % sig)
    col.count('failing_cases_total')
    col.count('failing:%s' % sig)
    why = ('arguments %r with declared references %r resolve to %r, expected %r [%s]'
           % (args, G.declared_strings(c), norm(observed), norm(expected), sig))
    on_fail(c, why, {'arguments': args, 'declared': G.declared_strings(c), 'expected': norm(expected),
                     'observed': norm(observed), 'explanation': [[i, k, norm(dd)] for i, k, dd in details]}, sig)


def simplest_first(f):
    return len(json.dumps(f['case'])), case_id(f['case'])


def worker(col, item, tier, seed):
    idx, fail_dir, cases, ncore = item
    kept = {}

    def on_fail(case, why, observed, sig):
        g = kept.setdefault('%s|%s' % (case['family'], sig), [])
        g.append({'case': case, 'why': why, 'observed': observed, 'sig': sig})
        if len(g) > 50:
            g.sort(key=simplest_first)
            del g[KEEP_PER_GROUP:]

    judge_cases(col, cases, on_fail, ncore, fail_dir)
    for g in kept.values():
        g.sort(key=simplest_first)
        del g[KEEP_PER_GROUP:]
    if cases:
        col.sample({'arguments': G.render_arguments(cases[0]), 'declared': G.declared_strings(cases[0]),
                    'family': cases[0]['family']})
    tmp = os.path.join(fail_dir, 'chunk-%05d.tmp' % idx)
    with open(tmp, 'w') as f:
        json.dump(kept, f)
    os.rename(tmp, os.path.join(fail_dir, 'chunk-%05d.json' % idx))


def run(ctx):
    from verif.gen.pkg import scratch_dir
    if not O.selftest():
        raise HarnessError('oracle self-test failed')
    core, extra = G.enumerate_cases(ctx.thorough, ctx.seed)
    ctx.count('core_cases', len(core))
    ctx.count('extension_cases' if ctx.thorough else 'rotated_extension_cases', len(extra))
    allc = core + extra
    size = 800 if ctx.thorough else 400
    with scratch_dir('c10-run-') as fail_dir:
        items = [(n, fail_dir, allc[i:i + size], max(0, min(size, len(core) - i)))
                 for n, i in enumerate(range(0, len(allc), size))]
        ctx.pmap('verif.props.c10', 'worker', items, maxtasksperchild=4)
        groups = {}
        for n in range(len(items)):
            p = os.path.join(fail_dir, 'chunk-%05d.json' % n)
            if not os.path.exists(p):
                raise HarnessError('worker result %s is missing' % p)
            with open(p) as f:
                for g, fl in json.load(f).items():
                    groups.setdefault(g, []).extend(fl)
    if ctx.evaluations != len(allc):
        raise HarnessError('%d cases generated but %d judged' % (len(allc), ctx.evaluations))
    total = ctx.extra.get('failing_cases_total', 0)
    kept = []
    for g in sorted(groups):
        kept.extend(sorted(groups[g], key=simplest_first)[:KEEP_PER_GROUP])
    for f in sorted(kept, key=simplest_first):
        ctx.fail(f['case'], f['why'], f['observed'], f['sig'])
    if total:
        ctx.note('%d failing cases in %d (family, failure-shape) groups; the %d shortest cases of every group are kept '
                 'for attribution/replay (every member of a group has the same shape by construction), totals per '
                 'shape are in the failing:* counters' % (total, len(groups), KEEP_PER_GROUP))


def replay(ctx, case):
    from verif.gen.pkg import scratch_dir
    with scratch_dir('c10-replay-') as d:
        judge_cases(ctx, [case], lambda c, why, observed, sig: ctx.fail(c, why, observed, sig), 0, d)


# ------------------------------------------------------------------------------------------------- known-finding selectors
def _shape_ok(f, kind):
    """the recorded explanation really uses `kind` and the observation differs from the expectation"""
    ob = f.get('observed') or {}
    ex = ob.get('explanation') or []
    return ob.get('observed') != ob.get('expected') and any(e[1] == kind for e in ex)


def _sel_kind(kind):
    def sel(f):
        return f.get('sig') == kind and kind in collision_kinds(f['case'], known_shapes_only=True) and _shape_ok(f, kind)
    return sel


def _sel_combined(f):
    parts = (f.get('sig') or '').split('+')
    if len(parts) < 2 or any(p not in KINDS for p in parts):
        return False
    have = collision_kinds(f['case'], known_shapes_only=True)
    return all(p in have and _shape_ok(f, p) for p in parts)


KNOWN_SELECTORS = {
    # token of reference R contains the (relative or absolute) spelling of another declared reference R2 and that
    # part of the token was replaced by R2's value (BA:ref -> B<path of A>; stage0.A:ref -> stage0.<path of stage1.A>)
    'contained_spelling_replaced_inside_token': _sel_kind('contained-spelling'),
    # the same reference occurs in both spellings and the relative occurrence is left unreplaced
    'relative_spelling_left_when_absolute_present': _sel_kind('mixed-spelling'),
    # the substituted contents of an :output reference were scanned again and a declared spelling inside replaced
    'output_contents_rescanned': _sel_kind('rescan'),
    # several of the above in one command line (each part individually verified)
    'combination_of_known_substitution_defects': _sel_combined,
}
