"""C11 -- A workflow that loads is structurally executable; a broken one is rejected.

Every base workflow of verif.gen.c11_docs x every position of every single-fault mutation is written as a package
directory and loaded through
   F: ExperimentConfigurationFactory.configurationForExperiment(path, platform, validate=True, primitive=False)
   G: WorkflowGraph.graphFromFlowIR(flowir, {}, documents, platform, primitive=False)
each under a per-case timer. What the document *is* (still valid / broken by which of the six faults the statement
names / not decided by the statement) is computed by the reference model verif.oracles.c11_validity from the document
alone; the loaders' answers are compared with that.
"""
import copy
import os
import shutil
import signal

import yaml

from verif.core.runner import HarnessError
from verif.gen import c11_docs as GEN
from verif.oracles import c11_validity as V

PROPERTY = 'C11'
LEVEL = 'exploration'
EXHAUSTIVE = True
TIMEOUT_S = 30
# The statement says "a workflow CONTAINING an unknown option key / a wrongly typed option ... is rejected". With True,
# a fault written in a section of a platform other than the one being loaded ('inactive') and a wrongly typed value
# that a higher layer overrides for every component / of a variable nobody uses ('ineffective') count as contained
# (the same loader called with primitive=True does reject every one of them); the scope is part of the failure
# signature so the classes stay separate. With False only faults that shape the loaded platform are judged, the
# others are observed and counted.
JUDGE_INACTIVE = True

RULE = ('31 well-formed base workflows (chains, diamond, colliding names A/AA/BA/AB, same name in two stages, global/'
        'stage/component/indirect/platform variables, replicate+aggregate, a DoWhile placeholder, direct and '
        'application-dependency references, default/platform blueprints, platform overrides, three "every option '
        'explicit" documents [component, blueprint, override+stage blueprint], stage options/outputs/environments, a '
        'repeating observer, all reference methods, variables used only as the index of an array access, a component '
        'named like an application dependency / like a top-level folder and consumed through stage-qualified '
        'references, replication inherited by consumers with one- and two-digit replica names, two workflows whose '
        'variables come from a user variables file [variable_files=] with entries for all stages and per stage), each '
        'for every '
        'platform it declares, x EVERY position of each '
        'single-fault mutation: drop component i; rename the producer of reference j (to a fresh name, name+A, A+name, '
        'name minus last letter and every other component name; consistently in references+arguments / in the '
        'references list only); point every stage-qualified reference at every other stage of the document and one '
        'past the last; add reference u->v for every pair (u,v) with v transitively depending on u, and u=v; '
        'copy the name of component i into component j of the same stage (leaving / re-spelling the references to j); '
        'call component j like replica k of every replicated component i of its stage (k=0,1,n-1 and the first free '
        'k=n; references re-spelled) so that identifiers repeat only after expansion; misspell every schema key at every nesting '
        'level (quick: 2 typos down to depth 3 and 1 below, thorough: 3 everywhere); replace every typed value/section '
        'by two (thorough: three for numbers/booleans) values of an unambiguously wrong type, integer options also '
        'by 2.5; add an unknown key to '
        'every dict whose keys the schema fixes; (thorough) set every schema option the first component does not set '
        'to a wrongly typed value; remove every variable definition that is referenced. Main document and DoWhile document are both '
        'mutated. Each mutated document is classified from the statement by the reference model (valid / broken by '
        'fault kinds / open) BEFORE it is loaded. Judged at F: accepted => DAG over graph edges plus reference-implied '
        'edges, unique ids, every component reference is a node or loop placeholder, every node configuration resolves; '
        'broken => ExperimentInvalidConfigurationError within the time limit. Judged at G: only accepted => the same '
        'soundness conditions (quick: for the key/type families G is loaded only when F did not cleanly reject; '
        'thorough: always). A case is non-trivial/distinct per (base, platform, mutation descriptor); the unmutated '
        'bases are cases too. For the three bases that exist for their shape only (b27-b29) the key/type families are '
        'enumerated in the thorough tier only.')
ASSUMPTIONS = [
    '"invalid-configuration error" = experiment.model.errors.ExperimentInvalidConfigurationError (or a subclass)',
    'a hang = no answer within %d s (SIGALRM timer in the worker process)' % TIMEOUT_S,
    'wrong-type values are only of an unambiguously different type: list/dict for scalars, a non-numeric non-boolean '
    'non-variable word for numbers and booleans, a word/dict for lists, a word/list for sections, a number with a '
    'fractional part (2.5) for integers; bool-for-int, int-for-float, 2.0-for-int, numbers for strings and digit '
    'strings are not generated (open)',
    'user variables (variable_files=[file] of the loader): `global` entries are defined for every stage, `stages.<k>` '
    'entries for the components of stage k only; the file is part of the mutated document set (its variable '
    'definitions are removed one at a time, its two keys misspelt, its values mistyped). graphFromFlowIR cannot take '
    'the file, so these bases are loaded at F only',
    '"a workflow CONTAINING an unknown option key / a wrongly typed option" is read literally (JUDGE_INACTIVE=True): a '
    'fault in a section of a platform that is not being loaded (scope "inactive") and a wrongly typed value that a '
    'higher layer overrides for every component or that belongs to a variable nobody uses (scope "ineffective") are '
    'judged like faults that shape the loaded platform (scope "active"); the scope is part of the failure signature. '
    'Rationale: the same loader with primitive=True rejects every one of them. Values the format defines as computed '
    '(`platforms`, workflowAttributes.isRepeat) are never judged (scope "derived")',
    '"option key" = every key the FlowIR schema fixes, at every nesting level: top-level sections, the global/stages '
    'scope labels, stage options, output options, component options (also inside blueprint and override), the '
    'DoWhile document and the $import entry; user-chosen names (platforms, variables, environments, outputs, '
    'bindings) are not keys',
    'not judged for completeness (observed and counted only): references to the $import entry itself; a name shared '
    'by the $import entry or a loop component and a normal component; arguments that spell a reference to an existing '
    'component that is not declared in `references`; outputs whose data-in names a dropped component; a DoWhile '
    'whose condition producer was dropped; documents left without any executable component or with a gap in the '
    'stage indices; values of environment variables; None for an option that does not list None',
    'a reference with an explicit stage prefix names a component even when an application dependency or top-level '
    'folder has the same name (folders have no stage); without a prefix the folder is meant. Components named like '
    'the reserved folders input/data/bin/conf are not generated',
    'replication model: a component is expanded into <name>0..<name>n-1 when it sets replicate n (literal or a '
    'variable it can see) or consumes from a replicated, non-aggregating component; an aggregating component is not '
    'expanded; `replica` is defined exactly for expanded components. When replicate/aggregate come from a blueprint '
    'or override layer, are not integers/booleans, or disagree between producers, nothing that depends on '
    'replication is judged',
    'not judged (the statement pairs the rejected faults with what makes a component unusable; these are resolved '
    'leniently by design and are not part of a component configuration): an undefined variable inside an '
    'environment value; an output whose data-in names a missing component (key outputs are looked up best-effort '
    'after the run, possibly in several stages)',
    'dropping a component that nothing references, renaming a reference to another existing producer without '
    'closing a cycle, removing a variable that another applicable layer still defines: recognised as STILL VALID by '
    'the model and only judged for soundness',
    'graphFromFlowIR is given the (flowir, documents) pair that package_document_load produces for the same files; '
    'a document that package_document_load itself refuses is recorded, not judged, at G',
    'interface section, DSL 2.0, CWL and DOSINI front-ends, several layered variable files and instance directories are out of '
    'scope',
]


class CaseTimeout(BaseException):
    pass


def _alarm(signum, frame):
    raise CaseTimeout()


_DUMPER = getattr(yaml, 'CSafeDumper', yaml.SafeDumper)     # the harness' own YAML work: libyaml when available
_LOADER = getattr(yaml, 'CSafeLoader', yaml.SafeLoader)


def _dump(obj):
    return yaml.dump(obj, Dumper=_DUMPER, sort_keys=False)


def _load(text):
    return yaml.load(text, Loader=_LOADER)


USERVARS_FILE = 'input/variables.yaml'     # handed to the loader as variable_files=[...]


def dump_texts(root):
    texts = {'conf/flowir_package.yaml': _dump(root['doc'])}
    if root.get('dowhile') is not None:
        texts['conf/dowhile.yaml'] = _dump(root['dowhile'])
    if root.get('uservars') is not None:
        texts[USERVARS_FILE] = _dump(root['uservars'])
    return texts


def root_from_texts(texts):
    root = {'doc': _load(texts['conf/flowir_package.yaml']),
            'dowhile': _load(texts['conf/dowhile.yaml']) if 'conf/dowhile.yaml' in texts else None}
    if USERVARS_FILE in texts:
        root['uservars'] = _load(texts[USERVARS_FILE])
    return root


def write_pkg(d, texts, files):
    pkg = os.path.join(d, 'p.package')
    for rel, content in list(texts.items()) + list(files.items()):
        full = os.path.join(pkg, rel)
        os.makedirs(os.path.dirname(full), exist_ok=True)
        with open(full, 'w') as f:
            f.write(content)
    return pkg


def observe(cfg, wg):
    """Parsed observation of an accepted load (what the reference model's soundness() looks at)."""
    import experiment.model.graph
    obs = {'nodes': [], 'edges': [], 'component_ids': [], 'configs': {}}
    if wg is None:
        try:
            wg = experiment.model.graph.WorkflowGraph(configuration=cfg, platform=cfg.platform_name, primitive=False)
        except Exception as e:
            return {'graph_error': '%s: %s' % (type(e).__name__, str(e)[:300])}
    try:
        g = wg.graph
        obs['nodes'] = sorted(g.nodes)
        obs['edges'] = sorted([u, v] for u, v in g.edges)
    except Exception as e:
        return {'graph_error': '%s: %s' % (type(e).__name__, str(e)[:300])}
    concrete = cfg.get_flowir_concrete(return_copy=False)
    obs['component_ids'] = ['stage%s.%s' % (c.get('stage', 0), c.get('name')) for c in concrete.get_components()
                            if '$import' not in c]   # the importing entry is a document, not a component
    for n in obs['nodes']:
        try:
            conf = cfg.configurationForNode(n, raw=False, is_primitive=False)
            obs['configs'][n] = {'references': list(conf.get('references', [])), 'stage': conf.get('stage')}
        except Exception as e:
            obs['configs'][n] = {'error': '%s: %s' % (type(e).__name__, str(e)[:200])}
    return obs


def load_factory(pkg, platform):
    import experiment.model.conf
    import experiment.model.errors
    uv = os.path.join(pkg, USERVARS_FILE)
    kw = {'variable_files': [uv]} if os.path.exists(uv) else {}
    try:
        cfg = experiment.model.conf.ExperimentConfigurationFactory.configurationForExperiment(
            pkg, platform=platform, validate=True, primitive=False, **kw)
    except experiment.model.errors.ExperimentInvalidConfigurationError as e:
        return ('rejected', type(e).__name__, _msg(e), None)
    except Exception as e:
        return ('raised', type(e).__name__, _msg(e), None)
    return ('accepted', None, None, observe(cfg, None))


def load_graph(pkg, platform):
    import experiment.model.graph
    import experiment.model.errors
    import experiment.model.frontends.flowir
    try:
        flowir, documents = experiment.model.frontends.flowir.package_document_load(
            os.path.join(pkg, 'conf', 'flowir_package.yaml'), False)
    except Exception as e:
        return ('docload-raised', type(e).__name__, _msg(e), None)
    try:
        wg = experiment.model.graph.WorkflowGraph.graphFromFlowIR(flowir, {}, documents, platform, primitive=False)
    except experiment.model.errors.ExperimentInvalidConfigurationError as e:
        return ('rejected', type(e).__name__, _msg(e), None)
    except Exception as e:
        return ('raised', type(e).__name__, _msg(e), None)
    return ('accepted', None, None, observe(wg.configuration, wg))


def _msg(e):
    import re
    s = str(e).replace('\n', ' ')
    s = re.sub(r'/dev/shm/\S+|/tmp/\S+', '<pkg>', s)
    return s[:400]


def _imports():
    """Import the code under test OUTSIDE the timed region (a cold import on a busy machine can take many seconds)."""
    import experiment.model.conf
    import experiment.model.errors
    import experiment.model.frontends.flowir
    import experiment.model.graph


def timed(fn, *a):
    _imports()
    old = signal.signal(signal.SIGALRM, _alarm)
    signal.setitimer(signal.ITIMER_REAL, TIMEOUT_S)
    try:
        return fn(*a)
    except CaseTimeout:
        return ('hang', None, 'no answer within %d s' % TIMEOUT_S, None)
    finally:
        signal.setitimer(signal.ITIMER_REAL, 0)
        signal.signal(signal.SIGALRM, old)


BULK = ('misspell', 'mistype', 'addkey', 'setopt')


def judge(col, case, scratch, all_entries=True):
    """case = {'base', 'platform', 'mut' (None for the base itself), 'texts', 'files', 'nonc'}"""
    texts, platform, nonc = case['texts'], case['platform'], case['nonc']
    root = root_from_texts(texts)
    an = V.analyse(root, platform, nonc)
    faults = an.faults(JUDGE_INACTIVE)
    fscopes = an.fault_scopes(JUDGE_INACTIVE)
    scopes = sorted(set(s for k in ('unknown-key', 'wrong-type') for s in fscopes.get(k, [])))
    where = ('@' + '+'.join(scopes)) if scopes else ''
    inactive = [] if faults else [g for g in an.grey_classes() if g.startswith(('unknown-key-', 'wrong-type-'))]
    verdict = an.verdict(JUDGE_INACTIVE)
    kind = case['mut']['kind'] if case['mut'] else 'base'
    if case['mut'] is None and verdict != 'valid':
        raise HarnessError('base %s (platform %s) is not valid for the reference model: %r %r'
                           % (case['base'], platform, faults, an.grey))
    d = os.path.join(scratch, 'k%d' % judge.counter)
    judge.counter += 1
    pkg = write_pkg(d, texts, case['files'])
    col.evaluated()
    col.nontriv([case['base'], platform, case['mut']])
    tag = 'broken[%s%s]' % ('+'.join(faults), where) if faults else ('open[%s]' % '+'.join(an.grey_classes())[:60] if verdict == 'grey' else 'valid')
    f_result = None
    for entry, loader in (('F', load_factory), ('G', load_graph)):
        if entry == 'G' and USERVARS_FILE in texts:
            # graphFromFlowIR has no way to take the user's variables
            shutil.rmtree(d, ignore_errors=True)
            col.count('G_not_applicable_user_variables_file')
            break
        if entry == 'G' and not all_entries and kind in BULK and f_result == 'rejected':
            # quick tier: G is only judged for soundness, i.e. when it accepts; for the bulk key/type families it is
            # loaded when F did not cleanly reject (thorough loads G for every case)
            shutil.rmtree(d, ignore_errors=True)
            col.count('quick_tier_G_not_loaded_after_clean_F_rejection')
            break
        try:
            res, etype, msg, obs = timed(loader, pkg, platform)
        finally:
            if entry == 'G':
                shutil.rmtree(d, ignore_errors=True)
        if entry == 'F':
            f_result = res
        col.traces += 1
        seen = res if res in ('accepted', 'hang') else '%s:%s' % (res, etype)
        col.outcome('%s|%s|%s|%s' % (entry, kind, tag if len(tag) < 70 else tag[:70], seen))
        c = dict(case, entry=entry)
        info = {'result': res, 'exception': etype, 'message': msg, 'faults': faults, 'verdict': verdict,
                'grey': an.grey[:6], 'unknown': [[list(p), s] for p, s in an.unknown[:4]],
                'wrong': [[list(p), s] for p, s in an.wrong[:4]], 'dangling': an.dangling[:4], 'cycle': an.cycle,
                'duplicates': an.duplicates, 'undefined': an.undefined[:4]}
        if case['mut'] is None and res != 'accepted':
            raise HarnessError('base %s (platform %s) does not load at %s: %s %s' % (case['base'], platform, entry, etype, msg))
        if res == 'hang':
            if entry == 'F' and faults:
                col.fail(c, 'F: a workflow containing %s is not rejected, loading did not finish within %d s'
                         % (', '.join(faults), TIMEOUT_S), info, sig='F:hang:%s%s' % ('+'.join(faults), where))
            else:
                # neither accepted nor rejected: nothing the statement lets us judge, but never silently
                col.count('hang_on_unjudged_document_%s' % entry)
                col.note('a load of a document that is not judged for completeness did not finish within %d s (%s, %s)'
                         % (TIMEOUT_S, entry, case['base']))
            continue
        if res == 'accepted':
            if 'graph_error' in obs:
                col.fail(c, '%s accepted the workflow but its expanded graph cannot be built: %s' % (entry, obs['graph_error']),
                         dict(info, obs=obs), sig='%s:unsound:graph-build-raises:%s' % (entry, obs['graph_error'].split(':')[0]))
            else:
                for sig, why in V.soundness(obs, nonc):
                    col.fail(c, '%s accepted the workflow but %s' % (entry, why), dict(info, obs=obs),
                             sig='%s:%s' % (entry, sig))
            if inactive and not faults:
                col.count('observed_unjudged_fault_accepted_%s' % entry)
        elif inactive and not faults:
            col.count('observed_unjudged_fault_rejected_%s' % entry)
        if entry == 'F' and faults:
            if res == 'accepted':
                col.fail(c, 'F accepted a workflow that contains: %s (%s)' % (', '.join(faults), _describe(an)), info,
                         sig='F:accepted:%s%s' % ('+'.join(faults), where))
            elif res == 'raised':
                col.fail(c, 'F rejected a workflow containing %s with %s instead of the invalid-configuration error: %s'
                         % (', '.join(faults), etype, msg), info, sig='F:wrong-exception:%s:%s%s' % (etype, '+'.join(faults), where))
        elif entry == 'G' and faults and res == 'accepted':
            col.count('observed_G_accepted_broken')
        if not faults and verdict == 'valid' and case['mut'] is not None and res != 'accepted':
            col.count('observed_still_valid_rejected_%s' % entry)


judge.counter = 0


def _describe(an):
    bits = []
    for p, s in an.unknown[:2]:
        bits.append('unknown key %s [%s]' % ('.'.join(map(str, p)), s))
    for p, s in an.wrong[:2]:
        bits.append('wrong type at %s [%s]' % ('.'.join(map(str, p)), s))
    for x in an.duplicates[:2]:
        bits.append('duplicate id %s' % x)
    for cns, r in an.dangling[:2]:
        bits.append('%s references missing %s' % (cns, r))
    if an.cycle:
        bits.append('cycle %s' % '->'.join(an.cycle))
    for c, v in an.undefined[:2]:
        bits.append('%s uses undefined variable %s' % (c, v))
    return '; '.join(bits)


def make_case(base, platform, mut):
    root = base['root'] if mut is None else GEN.apply(base['root'], mut)
    return {'base': base['id'], 'platform': platform, 'mut': mut, 'texts': dump_texts(root),
            'files': base['files'], 'nonc': base['nonc']}


_TOP = None     # per-run scratch directory, created (and always removed) by run() in the parent process


def worker(col, item, tier, seed):
    import tempfile
    from verif.gen.pkg import scratch_root
    bid, platform, shard, nshards = item
    base = [b for b in GEN.bases() if b['id'] == bid][0]
    thorough = tier == 'thorough'
    scratch = tempfile.mkdtemp(prefix='w-', dir=_TOP or scratch_root())
    try:
        if shard == 0:
            case = make_case(base, platform, None)
            judge(col, case, scratch, True)
            col.sample({'base': bid, 'platform': platform, 'mut': None})
        for i, mut in enumerate(GEN.mutations(base, platform, thorough)):
            if i % nshards != shard:
                continue
            try:
                case = make_case(base, platform, mut)
            except Exception as e:
                raise HarnessError('cannot apply %r to %s: %r' % (mut, bid, e))
            judge(col, case, scratch, thorough)
            col.count('mutations_%s' % mut['kind'])
            if i < 2 * nshards and shard == 0:
                col.sample({'base': bid, 'platform': platform, 'mut': mut})
    finally:
        shutil.rmtree(scratch, ignore_errors=True)


def run(ctx):
    global _TOP
    from verif.gen.pkg import scratch_dir
    bad = V.selfcheck()
    if bad:
        raise HarnessError('the reference model fails its hand-computed cases: %s' % '; '.join(bad))
    items = []
    for base in GEN.bases():
        for platform in base['platforms']:
            n = sum(1 for _ in GEN.mutations(base, platform, ctx.thorough))
            nshards = max(1, min(16, n // 120))
            for s in range(nshards):
                items.append((base['id'], platform, s, nshards))
            ctx.count('bases_x_platforms')
    # one directory per run, owned by the parent: removed even when the pool is torn down after a harness error
    with scratch_dir('c11-run-') as top:
        _TOP = top
        try:
            ctx.pmap('verif.props.c11', 'worker', items)
        finally:
            _TOP = None


def replay(ctx, case):
    from verif.gen.pkg import scratch_dir
    case = copy.deepcopy(case)
    case.pop('entry', None)
    with scratch_dir('c11-') as scratch:
        judge(ctx, case, scratch)


# ------------------------------------------------------------------------------------------------ known findings
def _accepted(f):
    """(fault kinds, scopes) when the failure is 'F accepted a broken document', else None."""
    sig = f.get('sig') or ''
    if not sig.startswith('F:accepted:') or f['case'].get('entry') != 'F':
        return None
    kinds, _, scopes = sig[len('F:accepted:'):].partition('@')
    return set(kinds.split('+')), set(scopes.split('+')) if scopes else set()


def _instantiation_case(f):
    """Common part of the two 'validated after instantiation' selectors: returns (mutation, path, scopes) or None."""
    a = _accepted(f)
    m = f['case'].get('mut') or {}
    if a is None or m.get('kind') not in ('misspell', 'mistype', 'addkey', 'setopt') \
            or a[0] - {'unknown-key', 'wrong-type'}:
        return None
    return m, list(m['path']) + list(m.get('option', [])), a[1]


def _sel_sections_validated_after_instantiation(f):
    """Only the platform *instance* of the document is validated when primitive=False. Document-level part: unknown
    top-level sections, unknown scope labels next to global/stages, a malformed `version`, and anything wrong inside
    the variables / blueprint / ... sections of another platform or overridden by the loaded platform."""
    c = _instantiation_case(f)
    if c is None:
        return False
    m, path, scopes = c
    if path[:2] == ['doc', 'components'] or path[:1] != ['doc']:
        return False
    if scopes and scopes <= {'inactive', 'ineffective'}:
        return True
    if scopes != {'active'}:
        return False
    if m['kind'] == 'misspell':
        return path == ['doc'] or (len(path) == 3 and path[1] in ('variables', 'blueprint') and m['key'] in ('global', 'stages'))
    if m['kind'] == 'addkey':
        return path == ['doc'] or (len(path) == 3 and path[1] in ('variables', 'blueprint'))
    return path == ['doc', 'version']


def _sel_component_layers_validated_after_instantiation(f):
    """Same cause, component-level part: a fault inside `override.<platform that is not loaded>` of a component, or a
    wrongly typed value of a component that `override.<loaded platform>` replaces."""
    c = _instantiation_case(f)
    if c is None:
        return False
    m, path, scopes = c
    return path[:2] == ['doc', 'components'] and bool(scopes) and scopes <= {'inactive', 'ineffective'}


def _sel_import_entry_errors_dropped(f):
    """FlowIRConcrete.validate discards what validate_component reports for a `$import` entry."""
    a = _accepted(f)
    m = f['case'].get('mut') or {}
    if a is None or a != ({'unknown-key'}, {'active'}) or m.get('kind') != 'addkey':
        return False
    path = list(m['path'])
    if len(path) != 3 or path[:2] != ['doc', 'components']:
        return False
    try:
        comps = _load(f['case']['texts']['conf/flowir_package.yaml'])['components']
        return '$import' in comps[path[2]]
    except Exception:
        return False


def _sel_word_coerced_to_true(f):
    """bool('anything') is True: aggregate / isMigratable / isMigrated / optimizer.disable given as a word are accepted
    (and a replicating component whose `aggregate` became True that way cannot be expanded afterwards)."""
    m = f['case'].get('mut') or {}
    if m.get('kind') not in ('mistype', 'setopt') or not isinstance(m.get('value'), str):
        return False
    path = list(m['path']) + list(m.get('option', []))
    if f.get('sig') == 'F:unsound:graph-build-raises:FlowIRVariableUnknown':
        return path[-2:] == ['workflowAttributes', 'aggregate'] and 'replica' in str((f.get('observed') or {}).get('obs'))
    a = _accepted(f)
    if a is None or a != ({'wrong-type'}, {'active'}):
        return False
    return (path[-2:-1] == ['workflowAttributes'] and path[-1] in ('aggregate', 'isMigratable', 'isMigrated')) or \
        path[-3:] == ['workflowAttributes', 'optimizer', 'disable']


def _sel_stage_weight_word(f):
    """A stage-weight that is not a number is silently replaced by the default weights."""
    a = _accepted(f)
    m = f['case'].get('mut') or {}
    if a is None or a != ({'wrong-type'}, {'active'}) or m.get('kind') != 'mistype' or not isinstance(m.get('value'), str):
        return False
    path = list(m['path'])
    return len(path) == 4 and path[:2] == ['doc', 'status-report'] and path[3] == 'stage-weight'


def _sel_replica_used_without_replication(f):
    """`%(replica)s` in a component that is not replicated: validation resolves with is_primitive=True, where an
    unknown `replica` is always tolerated, so the load succeeds and the component cannot be resolved afterwards."""
    obs = f.get('observed') or {}
    und = obs.get('undefined') or []
    if f['case'].get('entry') != 'F' or obs.get('faults') != ['undefined-variable'] or not und \
            or any(v != 'replica' for _, v in und):
        return False
    if f.get('sig') == 'F:accepted:undefined-variable':
        return True
    return f.get('sig') == 'F:unsound:graph-build-raises:FlowIRVariableUnknown' and '"replica"' in str(obs.get('obs'))


KNOWN_SELECTORS = {
    'replica_used_without_replication': _sel_replica_used_without_replication,
    'sections_validated_after_instantiation': _sel_sections_validated_after_instantiation,
    'component_layers_validated_after_instantiation': _sel_component_layers_validated_after_instantiation,
    'import_entry_errors_dropped': _sel_import_entry_errors_dropped,
    'word_coerced_to_true': _sel_word_coerced_to_true,
    'stage_weight_word_replaced': _sel_stage_weight_word,
}
