"""C11 -- A workflow that loads is structurally executable; a broken one is rejected.

Every base workflow of verif.gen.c11_docs x every position of every single-fault mutation is written as a package
directory and loaded through
   F: ExperimentConfigurationFactory.configurationForExperiment(path, platform, validate=True, primitive=False)
   G: WorkflowGraph.graphFromFlowIR(flowir, {}, documents, platform, primitive=False)
each under a per-case timer. What the document *is* (still valid / broken by which of the six faults the statement
names / not decided by the statement) is computed by the reference model verif.oracles.c11_validity from the document
alone; the loaders' answers are compared with that.
"""
import copy
import os
import shutil
import signal

import yaml

from verif.core.runner import HarnessError
from verif.gen import c11_docs as GEN
from verif.oracles import c11_validity as V

PROPERTY = 'C11'
LEVEL = 'exploration'
EXHAUSTIVE = True
TIMEOUT_S = 30
# Faults written in a section that only applies to a platform other than the one being loaded (and wrongly typed
# values that a higher layer overrides for every component) are observed and counted but not judged: the statement
# does not say whether such a workflow "contains" the fault for this load. Set to True to judge them as well.
JUDGE_INACTIVE = False

RULE = ('25 well-formed base workflows (chains, diamond, colliding names A/AA/BA/AB, same name in two stages, global/'
        'stage/component/indirect/platform variables, replicate+aggregate, a DoWhile placeholder, direct and '
        'application-dependency references, default/platform blueprints, platform overrides, three "every option '
        'explicit" documents [component, blueprint, override+stage blueprint], stage options/outputs/environments, a '
        'repeating observer, all reference methods), each for every platform it declares, x EVERY position of each '
        'single-fault mutation: drop component i; rename the producer of reference j (to a fresh name, name+A, A+name, '
        'name minus last letter and every other component name; consistently in references+arguments / in the '
        'references list only); add reference u->v for every pair (u,v) with v transitively depending on u, and u=v; '
        'copy the name of component i into component j of the same stage; misspell every schema key at every nesting '
        'level (2 typos, 3 in thorough); replace every typed value/section by two values of an unambiguously wrong '
        'type; remove every variable definition that is referenced. Main document and DoWhile document are both '
        'mutated. Each mutated document is classified from the statement by the reference model (valid / broken by '
        'fault kinds / open) BEFORE it is loaded. Judged at F: accepted => DAG over graph edges plus reference-implied '
        'edges, unique ids, every component reference is a node or loop placeholder, every node configuration resolves; '
        'broken => ExperimentInvalidConfigurationError within the time limit. Judged at G: only accepted => the same '
        'soundness conditions. A case is non-trivial/distinct per (base, platform, mutation descriptor); the unmutated '
        'bases are cases too.')
ASSUMPTIONS = [
    '"invalid-configuration error" = experiment.model.errors.ExperimentInvalidConfigurationError (or a subclass)',
    'a hang = no answer within %d s (SIGALRM timer in the worker process)' % TIMEOUT_S,
    'wrong-type values are only of an unambiguously different type: list/dict for scalars, a non-numeric non-boolean '
    'non-variable word for numbers and booleans, a word/dict for lists, a word/list for sections; bool-for-int, '
    'int-for-float, int-for-string and digit strings are not generated (open)',
    'not judged for completeness (observed and counted only): faults inside sections of a platform that is not being '
    'loaded; wrongly typed values overridden by a higher layer for every component they apply to; wrongly typed '
    'values of variables no component uses; references to the $import component itself; a name shared by the '
    '$import entry or a loop component and a normal component; arguments that spell a reference to an existing '
    'component that is not declared in `references`; outputs whose data-in names a dropped component; a DoWhile '
    'whose condition producer was dropped; documents left without any executable component; environment values',
    'dropping a component that nothing references, renaming a reference to another existing producer without '
    'closing a cycle, removing a variable that another applicable layer still defines: recognised as STILL VALID by '
    'the model and only judged for soundness',
    'graphFromFlowIR is given the (flowir, documents) pair that package_document_load produces for the same files; '
    'a document that package_document_load itself refuses is recorded, not judged, at G',
    'interface section, DSL 2.0, CWL and DOSINI front-ends, user variable files and instance directories are out of '
    'scope',
]


class CaseTimeout(BaseException):
    pass


def _alarm(signum, frame):
    raise CaseTimeout()


def dump_texts(root):
    texts = {'conf/flowir_package.yaml': yaml.safe_dump(root['doc'], sort_keys=False)}
    if root.get('dowhile') is not None:
        texts['conf/dowhile.yaml'] = yaml.safe_dump(root['dowhile'], sort_keys=False)
    return texts


def root_from_texts(texts):
    return {'doc': yaml.safe_load(texts['conf/flowir_package.yaml']),
            'dowhile': yaml.safe_load(texts['conf/dowhile.yaml']) if 'conf/dowhile.yaml' in texts else None}


def write_pkg(d, texts, files):
    pkg = os.path.join(d, 'p.package')
    for rel, content in list(texts.items()) + list(files.items()):
        full = os.path.join(pkg, rel)
        os.makedirs(os.path.dirname(full), exist_ok=True)
        with open(full, 'w') as f:
            f.write(content)
    return pkg


def observe(cfg, wg):
    """Parsed observation of an accepted load (what the reference model's soundness() looks at)."""
    import experiment.model.graph
    obs = {'nodes': [], 'edges': [], 'component_ids': [], 'configs': {}}
    if wg is None:
        try:
            wg = experiment.model.graph.WorkflowGraph(configuration=cfg, platform=cfg.platform_name, primitive=False)
        except Exception as e:
            return {'graph_error': '%s: %s' % (type(e).__name__, str(e)[:300])}
    try:
        g = wg.graph
        obs['nodes'] = sorted(g.nodes)
        obs['edges'] = sorted([u, v] for u, v in g.edges)
    except Exception as e:
        return {'graph_error': '%s: %s' % (type(e).__name__, str(e)[:300])}
    concrete = cfg.get_flowir_concrete(return_copy=False)
    obs['component_ids'] = ['stage%s.%s' % (c.get('stage', 0), c.get('name')) for c in concrete.get_components()]
    for n in obs['nodes']:
        try:
            conf = cfg.configurationForNode(n, raw=False, is_primitive=False)
            obs['configs'][n] = {'references': list(conf.get('references', [])), 'stage': conf.get('stage')}
        except Exception as e:
            obs['configs'][n] = {'error': '%s: %s' % (type(e).__name__, str(e)[:200])}
    return obs


def load_factory(pkg, platform):
    import experiment.model.conf
    import experiment.model.errors
    try:
        cfg = experiment.model.conf.ExperimentConfigurationFactory.configurationForExperiment(
            pkg, platform=platform, validate=True, primitive=False)
    except experiment.model.errors.ExperimentInvalidConfigurationError as e:
        return ('rejected', type(e).__name__, _msg(e), None)
    except Exception as e:
        return ('raised', type(e).__name__, _msg(e), None)
    return ('accepted', None, None, observe(cfg, None))


def load_graph(pkg, platform):
    import experiment.model.graph
    import experiment.model.errors
    import experiment.model.frontends.flowir
    try:
        flowir, documents = experiment.model.frontends.flowir.package_document_load(
            os.path.join(pkg, 'conf', 'flowir_package.yaml'), False)
    except Exception as e:
        return ('docload-raised', type(e).__name__, _msg(e), None)
    try:
        wg = experiment.model.graph.WorkflowGraph.graphFromFlowIR(flowir, {}, documents, platform, primitive=False)
    except experiment.model.errors.ExperimentInvalidConfigurationError as e:
        return ('rejected', type(e).__name__, _msg(e), None)
    except Exception as e:
        return ('raised', type(e).__name__, _msg(e), None)
    return ('accepted', None, None, observe(wg.configuration, wg))


def _msg(e):
    import re
    s = str(e).replace('\n', ' ')
    s = re.sub(r'/dev/shm/\S+|/tmp/\S+', '<pkg>', s)
    return s[:400]


def timed(fn, *a):
    old = signal.signal(signal.SIGALRM, _alarm)
    signal.setitimer(signal.ITIMER_REAL, TIMEOUT_S)
    try:
        return fn(*a)
    except CaseTimeout:
        return ('hang', None, 'no answer within %d s' % TIMEOUT_S, None)
    finally:
        signal.setitimer(signal.ITIMER_REAL, 0)
        signal.signal(signal.SIGALRM, old)


def judge(col, case, scratch):
    """case = {'base', 'platform', 'mut' (None for the base itself), 'texts', 'files', 'nonc'}"""
    texts, platform, nonc = case['texts'], case['platform'], case['nonc']
    root = root_from_texts(texts)
    an = V.analyse(root, platform, nonc)
    faults = an.faults()
    inactive = []
    if not faults:
        inactive = [g for g in an.grey_classes() if g.startswith(('unknown-key-', 'wrong-type-'))]
        if JUDGE_INACTIVE and inactive:
            faults = sorted(set(g.rsplit('-', 1)[0] if not g.endswith('ineffective') else 'wrong-type' for g in inactive))
    verdict = 'broken' if faults else an.verdict()
    kind = case['mut']['kind'] if case['mut'] else 'base'
    if case['mut'] is None and verdict != 'valid':
        raise HarnessError('base %s (platform %s) is not valid for the reference model: %r %r'
                           % (case['base'], platform, faults, an.grey))
    d = os.path.join(scratch, 'k%d' % judge.counter)
    judge.counter += 1
    pkg = write_pkg(d, texts, case['files'])
    col.evaluated()
    col.nontriv([case['base'], platform, case['mut']])
    tag = 'broken[%s]' % '+'.join(faults) if faults else ('open[%s]' % '+'.join(an.grey_classes())[:60] if verdict == 'grey' else 'valid')
    for entry, loader in (('F', load_factory), ('G', load_graph)):
        try:
            res, etype, msg, obs = timed(loader, pkg, platform)
        finally:
            if entry == 'G':
                shutil.rmtree(d, ignore_errors=True)
        col.traces += 1
        seen = res if res in ('accepted', 'hang') else '%s:%s' % (res, etype)
        col.outcome('%s|%s|%s|%s' % (entry, kind, tag if len(tag) < 70 else tag[:70], seen))
        c = dict(case, entry=entry)
        info = {'result': res, 'exception': etype, 'message': msg, 'faults': faults, 'verdict': verdict,
                'grey': an.grey[:6], 'unknown': [[list(p), s] for p, s in an.unknown[:4]],
                'wrong': [[list(p), s] for p, s in an.wrong[:4]], 'dangling': an.dangling[:4], 'cycle': an.cycle,
                'duplicates': an.duplicates, 'undefined': an.undefined[:4]}
        if case['mut'] is None and res != 'accepted':
            raise HarnessError('base %s (platform %s) does not load at %s: %s %s' % (case['base'], platform, entry, etype, msg))
        if res == 'hang':
            if faults or True:
                col.fail(c, '%s: loading did not finish within %d s (document is %s)' % (entry, TIMEOUT_S, tag), info,
                         sig='%s:hang:%s' % (entry, '+'.join(faults) or verdict))
            continue
        if res == 'accepted':
            if 'graph_error' in obs:
                col.fail(c, '%s accepted the workflow but its expanded graph cannot be built: %s' % (entry, obs['graph_error']),
                         dict(info, obs=obs), sig='%s:unsound:graph-build-raises:%s' % (entry, obs['graph_error'].split(':')[0]))
            else:
                for sig, why in V.soundness(obs, nonc):
                    col.fail(c, '%s accepted the workflow but %s' % (entry, why), dict(info, obs=obs),
                             sig='%s:%s' % (entry, sig))
            if inactive and not faults:
                col.count('observed_accepted_fault_outside_active_configuration_%s' % entry)
        elif inactive and not faults:
            col.count('observed_rejected_fault_outside_active_configuration_%s' % entry)
        if entry == 'F' and faults:
            if res == 'accepted':
                col.fail(c, 'F accepted a workflow that contains: %s (%s)' % (', '.join(faults), _describe(an)), info,
                         sig='F:accepted:%s' % '+'.join(faults))
            elif res == 'raised':
                col.fail(c, 'F rejected a workflow containing %s with %s instead of the invalid-configuration error: %s'
                         % (', '.join(faults), etype, msg), info, sig='F:wrong-exception:%s:%s' % (etype, '+'.join(faults)))
        elif entry == 'G' and faults and res == 'accepted':
            col.count('observed_G_accepted_broken')
        if not faults and verdict == 'valid' and case['mut'] is not None and res != 'accepted':
            col.count('observed_still_valid_rejected_%s' % entry)


judge.counter = 0


def _describe(an):
    bits = []
    for p, s in an.unknown[:2]:
        bits.append('unknown key %s [%s]' % ('.'.join(map(str, p)), s))
    for p, s in an.wrong[:2]:
        bits.append('wrong type at %s [%s]' % ('.'.join(map(str, p)), s))
    for x in an.duplicates[:2]:
        bits.append('duplicate id %s' % x)
    for cns, r in an.dangling[:2]:
        bits.append('%s references missing %s' % (cns, r))
    if an.cycle:
        bits.append('cycle %s' % '->'.join(an.cycle))
    for c, v in an.undefined[:2]:
        bits.append('%s uses undefined variable %s' % (c, v))
    return '; '.join(bits)


def make_case(base, platform, mut):
    root = base['root'] if mut is None else GEN.apply(base['root'], mut)
    return {'base': base['id'], 'platform': platform, 'mut': mut, 'texts': dump_texts(root),
            'files': base['files'], 'nonc': base['nonc']}


def worker(col, item, tier, seed):
    from verif.gen.pkg import scratch_dir
    bid, platform, shard, nshards = item
    base = [b for b in GEN.bases() if b['id'] == bid][0]
    thorough = tier == 'thorough'
    with scratch_dir('c11-') as scratch:
        if shard == 0:
            case = make_case(base, platform, None)
            judge(col, case, scratch)
            col.sample({'base': bid, 'platform': platform, 'mut': None})
        for i, mut in enumerate(GEN.mutations(base, platform, thorough)):
            if i % nshards != shard:
                continue
            try:
                case = make_case(base, platform, mut)
            except Exception as e:
                raise HarnessError('cannot apply %r to %s: %r' % (mut, bid, e))
            judge(col, case, scratch)
            col.count('mutations_%s' % mut['kind'])
            if i < 2 * nshards and shard == 0:
                col.sample({'base': bid, 'platform': platform, 'mut': mut})


def run(ctx):
    items = []
    for base in GEN.bases():
        for platform in base['platforms']:
            n = sum(1 for _ in GEN.mutations(base, platform, ctx.thorough))
            nshards = max(1, min(16, n // 120))
            for s in range(nshards):
                items.append((base['id'], platform, s, nshards))
            ctx.count('bases_x_platforms')
    ctx.pmap('verif.props.c11', 'worker', items)


def replay(ctx, case):
    from verif.gen.pkg import scratch_dir
    case = copy.deepcopy(case)
    case.pop('entry', None)
    with scratch_dir('c11-') as scratch:
        judge(ctx, case, scratch)


# ------------------------------------------------------------------------------------------------ known findings
KNOWN_SELECTORS = {}
