"""C03 — Replication expands a workflow without changing its dataflow.

Every abstract workflow of a finite, collision-forcing space is turned into a FlowIR document, loaded with
WorkflowGraph.graphFromFlowIR(doc, manifest, primitive=False) and the replicated graph (nodes, edges, parsed
references, parsed arguments, replica variable) is compared with an abstract-DAG expander written from the statement.
"""
import copy
import re

from verif.core.runner import HarnessError
from verif.gen import c03_docs as gen
from verif.oracles import c03_replicate as model
from verif.oracles import c03_known_model as known_model

PROPERTY = 'C03'
LEVEL = 'exploration'
METHODS = ('copy', 'link', 'ref', 'copyout', 'extract', 'output', 'loopref', 'loopoutput')


# ------------------------------------------------------------------------------------------------ observation
def _tup(x):
    return tuple(_tup(y) for y in x) if isinstance(x, (list, tuple)) else x


def parse_args(text, stage, directs):
    return [model.parse_token(t, stage, directs, METHODS) for t in str(text).split()]


def observe_graph(case, doc, manifest):
    """L1: the replicated WorkflowGraph. Returns the observation dict (see oracle.compare)."""
    import experiment.model.graph
    wg = experiment.model.graph.WorkflowGraph.graphFromFlowIR(copy.deepcopy(doc), dict(manifest), platform=case.get('platform'), primitive=False)
    g = wg.graph
    directs = model.direct_names(case)
    nodes = {}
    raw = {}
    for nid, data in g.nodes(data=True):
        conf_raw = data['getConfiguration'](True)
        conf = data['getConfiguration'](False)
        stage, name = conf_raw['stage'], conf_raw['name']
        if nid != 'stage%d.%s' % (stage, name):
            raise HarnessError('node id %r does not match its configuration (%r, %r)' % (nid, stage, name))
        refs = []
        for r in conf_raw.get('references', []):
            p = model.parse_ref(r, stage, directs)
            refs.append(p if p is not None else ('unparsable', r))
        replica = conf_raw.get('variables', {}).get('replica')
        if replica is not None:
            try:
                replica = int(replica)
            except (TypeError, ValueError):
                replica = ('not-an-int', repr(replica))
        nodes[(stage, name)] = {'replica': replica, 'refs': refs,
                                'args': parse_args(conf['command'].get('arguments', ''), stage, directs)}
        raw['stage%d.%s' % (stage, name)] = {'references': list(conf_raw.get('references', [])),
                                             'arguments': conf['command'].get('arguments', ''),
                                             'replicate': conf_raw['workflowAttributes'].get('replicate')}
    edges = set()
    for a, b in g.edges():
        edges.add((_node_key(g, a), _node_key(g, b)))
    return {'nodes': nodes, 'edges': edges}, raw


def _node_key(g, nid):
    m = re.fullmatch(r'stage([0-9]+)\.(.+)', nid)
    if not m:
        raise HarnessError('unexpected node id %r' % (nid,))
    return (int(m.group(1)), m.group(2))


def primitive_loads(doc, manifest, platform=None):
    import experiment.model.graph
    try:
        experiment.model.graph.WorkflowGraph.graphFromFlowIR(copy.deepcopy(doc), dict(manifest), platform=platform, primitive=True).graph
        return True, None
    except Exception as e:
        return False, '%s: %s' % (type(e).__name__, str(e)[:500])


def observe_flowir_nodes(case, doc, manifest):
    """L2 as an observation dict (nodes only; edges=None). Returns (obs|None, raw)."""
    import experiment.model.frontends.flowir as F
    top = sorted(set(k.split('/')[0] for k in (manifest or {})))
    try:
        rep = F.FlowIRConcrete(F.deep_copy(doc), case.get('platform') or 'default', {}).replicate(top_level_folders=top)
    except Exception as e:
        return None, {'error': '%s: %s' % (type(e).__name__, str(e)[:300])}
    directs = model.direct_names(case)
    nodes, raw = {}, {}
    for c in rep.get('components', []):
        stage, name = c.get('stage', 0), c['name']
        replica = (c.get('variables') or {}).get('replica')
        args = str(c.get('command', {}).get('arguments', ''))
        if replica is not None:
            args = args.replace('%(replica)s', str(replica))
            try:
                replica = int(replica)
            except (TypeError, ValueError):
                replica = ('not-an-int', repr(replica))
        refs = []
        for r in c.get('references', []):
            p = model.parse_ref(r, stage, directs)
            refs.append(p if p is not None else ('unparsable', r))
        if (stage, name) in nodes:
            nodes[(stage, name + ' (duplicate id)')] = {'replica': replica, 'refs': refs, 'args': []}
        else:
            nodes[(stage, name)] = {'replica': replica, 'refs': refs, 'args': parse_args(args, stage, directs)}
        raw['stage%d.%s' % (stage, name)] = {'references': list(c.get('references', [])), 'arguments': args,
                                             'arguments_unresolved': str(c.get('command', {}).get('arguments', ''))}
    return {'nodes': nodes, 'edges': None}, raw


# ------------------------------------------------------------------------------------------------ failure shapes
def victims(case, rep, j):
    """Triggers of the two textual-rewriting defects at consumer j.

    A = a referenced producer inside the replicated region; victim = another reference of the same consumer.
    Short spelling `name[/file]:method` of A replaced as a plain substring (same file and method):
      'suffix'        another producer whose name has A's name as a proper suffix
      'samename'      another producer (other stage) with the same name
      'direct-suffix' a reference that is not a component reference whose path ends with A's `name[/file]`
    A's reference used as an unescaped regular expression by the aggregating rewrite:
      'regex-dot'     j is a single (aggregating) consumer, A's name contains regex metacharacters and matches, as a
                      regex, the different name of another producer referenced with the same file and method, and the
                      command line uses the `ref/path` form
    The aggregating rewrite reuses the path of the first `ref/path` occurrence for all occurrences:
      'multi-path'    j is a single (aggregating) consumer whose command line names two different paths under the
                      same reference to A
    Returns a list of dicts."""
    comps = case['comps']
    c = comps[j]
    out = []
    for ea in c['refs']:
        a = comps[ea['p']]
        if rep[ea['p']] is None:
            continue
        for ev in c['refs']:
            v = comps[ev['p']]
            if ev['p'] == ea['p'] or (model.norm_path(ev['file']), ev['method']) != (model.norm_path(ea['file']), ea['method']):
                continue
            if v['name'].endswith(a['name']):
                out.append({'kind': 'suffix' if len(v['name']) > len(a['name']) else 'samename',
                            'a': ea['p'], 'v': ev['p'], 'file': model.norm_path(ea['file']), 'method': ea['method']})
            elif rep[j] is None and re.escape(a['name']) != a['name'] and _safe_fullmatch(a['name'], v['name']) \
                    and 'path' in (ea.get('arg'), ev.get('arg')):
                out.append({'kind': 'regex-dot', 'a': ea['p'], 'v': ev['p'], 'file': model.norm_path(ea['file']),
                            'method': ea['method']})
        if rep[j] is None and ea.get('arg') == 'path2':
            out.append({'kind': 'multi-path', 'a': ea['p'], 'file': model.norm_path(ea['file']), 'method': ea['method']})
        short_body = a['name'] + ('/' + ea['file'] if ea['file'] else '')
        for d in c.get('direct') or []:
            body, method = d.split(':')
            if method == ea['method'] and body.endswith(short_body) and body != short_body:
                out.append({'kind': 'direct-suffix', 'a': ea['p'], 'direct': [body, method], 'file': model.norm_path(ea['file']),
                            'method': ea['method']})
    return out


def _safe_fullmatch(pattern, text):
    try:
        return re.fullmatch(pattern, text) is not None
    except re.error:
        return False


def _multiset_diff(xs, ys):
    ys = list(ys)
    out = []
    for x in xs:
        if x in ys:
            ys.remove(x)
        else:
            out.append(x)
    return out


def explained_by_known_shape(case, expected, diffs):
    """If EVERY discrepancy has the shape one of the textual-rewriting defects predicts -- only references to a victim
    (for regex-dot also to the copies of A) are missing, only at a consumer that has the trigger, and what stands in
    their place embeds the rewritten reference to a copy of A (for regex-dot also the unrewritten A) -- returns the
    sorted list of trigger kinds involved; otherwise None."""
    comps = case['comps']
    rep = expected['rep']
    kinds = set()
    if not diffs:
        return None
    trig = dict((j, victims(case, rep, j)) for j in range(len(comps)))
    owner = dict((nid, n['owner']) for nid, n in expected['nodes'].items())

    def is_copy_of(r, idx, t, allow_plain=False):
        x = comps[idx]
        return r[0] == 'comp' and r[1] == x['stage'] and (r[3], r[4]) == (t['file'], t['method']) and \
            re.fullmatch(re.escape(x['name']) + ('[0-9]*' if allow_plain else '[0-9]+'), r[2]) is not None

    def multi_path(tok, j, suffix):
        # the second path (p.dat) is lost, the first (o.dat) stands in its place
        for t in trig[j]:
            if t['kind'] == 'multi-path' and tok[0] == 'ref' and tok[2] == suffix and is_copy_of(tok[1], t['a'], t):
                kinds.add(t['kind'])
                return True
        return False

    def acceptable_missing(r, j):
        ok = False
        for t in trig[j]:
            if 'v' in t and is_copy_of(r, t['v'], t, allow_plain=True):
                kinds.add(t['kind'])
                ok = True
            elif 'direct' in t and r[0] == 'direct' and [r[1], r[2]] == t['direct']:
                kinds.add(t['kind'])
                ok = True
            elif t['kind'] == 'regex-dot' and is_copy_of(r, t['a'], t):
                kinds.add(t['kind'])
                ok = True
        return ok

    def acceptable_extra(r, j):
        ok = False
        for t in trig[j]:
            a = comps[t['a']]
            pat = r'stage%d\.%s[0-9]+' % (a['stage'], re.escape(a['name']))
            if t['kind'] == 'multi-path':
                continue
            if t['kind'] == 'regex-dot' and is_copy_of(r, t['a'], t, allow_plain=True):
                kinds.add(t['kind'])
                ok = True
            elif r[0] == 'comp' and (r[3], r[4]) == (t['file'], t['method']) and \
                    re.search(pat + '$', 'stage%d.%s' % (r[1], r[2])):
                kinds.add(t['kind'])
                ok = True
            elif r[0] == 'direct' and 'direct' in t and r[2] == t['method'] and \
                    re.search(pat + ('/' + re.escape(t['file']) if t['file'] else '') + '$', r[1]):
                kinds.add(t['kind'])
                ok = True
            elif r[0] == 'unparsable' and re.search(pat, str(r[1])):
                kinds.add(t['kind'])
                ok = True
        return ok

    aspects = set()
    for aspect, nid, det in diffs:
        aspects.add(aspect)
        if aspect in ('nodes', 'replica', 'agg-order'):
            return None
        if aspect == 'edges':
            for (p, c) in det['missing']:
                j = owner.get(c)
                if j is None or not any('v' in t and comps[t['v']]['stage'] == p[0] and
                                        re.fullmatch(re.escape(comps[t['v']]['name']) + '[0-9]*', p[1])
                                        for t in trig[j]):
                    return None
            for (p, c) in det['unexpected']:
                j = owner.get(c)
                if j is None or not any(comps[t['a']]['stage'] == p[0] and
                                        re.fullmatch(re.escape(comps[t['a']]['name']) + '[0-9]+', p[1])
                                        for t in trig[j]):
                    return None
            continue
        j = owner.get(nid)
        if j is None or not trig[j]:
            return None
        if aspect == 'dangling':
            if not all(acceptable_extra(r, j) for r in det['refs']):
                return None
        elif aspect == 'refs':
            if not all(acceptable_missing(r, j) for r in _multiset_diff(det['expected'], det['observed'])):
                return None
            if not all(acceptable_extra(r, j) for r in _multiset_diff(det['observed'], det['expected'])):
                return None
        elif aspect == 'args':
            for t in _multiset_diff(det['expected'], det['observed']):
                if not (multi_path(t, j, '/' + model.PATH_SUFFIX2) or (t[0] == 'ref' and acceptable_missing(t[1], j))):
                    return None
            for t in _multiset_diff(det['observed'], det['expected']):
                if not (multi_path(t, j, '/' + model.PATH_SUFFIX) or (t[0] == 'ref' and acceptable_extra(t[1], j))):
                    return None
        else:
            return None
    if ('regex-dot' in kinds or 'multi-path' in kinds) and aspects != {'args'}:
        return None
    return sorted(kinds) if kinds else None


# ------------------------------------------------------------------------------------------------ one case
def _jsonable(x):
    if isinstance(x, dict):
        return dict((k if isinstance(k, str) else repr(k), _jsonable(v)) for k, v in x.items())
    if isinstance(x, (list, tuple, set)):
        return [_jsonable(v) for v in (sorted(x, key=repr) if isinstance(x, set) else x)]
    return x


def run_case(col, case):
    """Evaluates one abstract case."""
    try:
        expected = model.expand(case)
    except model.Grey as g:
        col.count('grey_excluded')
        col.outcome('not-judged(grey): %s' % g)
        return
    doc, manifest = gen.build_doc(case)
    col.evaluated()
    rep = expected['rep']
    comps = case['comps']
    has_copy_consumer = any(rep[j] is not None and any(rep[e['p']] is not None for e in c['refs'])
                            for j, c in enumerate(comps))
    has_single_consumer = any(rep[j] is None and any(rep[e['p']] is not None for e in c['refs'])
                              for j, c in enumerate(comps))
    if has_copy_consumer or has_single_consumer:
        col.nontriv(dict((k, v) for k, v in case.items() if k != 'family'))
    err = None
    raw = None
    try:
        observed, raw = observe_graph(case, doc, manifest)
        level = 'graph'
    except HarnessError:
        raise
    except Exception as e:
        err = '%s: %s' % (type(e).__name__, re.sub(r'\s+', ' ', str(e))[:600])
        ok, why = primitive_loads(doc, manifest, case.get('platform'))
        if not ok:
            raise HarnessError('generated document does not load even without replication (generator problem or '
                               'an unrelated breakage): case=%r error=%s' % (case, why))
        level = 'rejected'
        observed, raw = observe_flowir_nodes(case, doc, manifest)
    if observed is None:
        diffs = None
    else:
        for n in observed['nodes'].values():
            n['refs'] = [_tup(r) for r in n['refs']]
            n['args'] = [_tup(t) for t in n['args']]
        diffs = model.compare(expected, observed)
    if level == 'graph' and not diffs:
        col.outcome('ok:%s%s%s' % ('copy-i-consumes-copy-i ' if has_copy_consumer else '',
                                   'single-consumes-all-copies ' if has_single_consumer else '',
                                   '' if (has_copy_consumer or has_single_consumer) else 'no-consumer-of-region'))
        return
    # ---- a failure: classify its shape
    kinds = explained_by_known_shape(case, expected, diffs) if diffs else None
    matches_model = None
    if kinds:
        # the accepted known findings are the corruptions the rewriting produces TODAY: the raw expansion must equal,
        # string for string, what the model of today's textual rewriting predicts; any other corruption is new
        raw_l2 = raw if level == 'rejected' else observe_flowir_nodes(case, doc, manifest)[1]
        try:
            predicted = known_model.predict(case, doc, rep)
        except Exception as e:
            predicted = {'model-error': repr(e)}
        seen = dict((k, {'references': v.get('references'), 'arguments': v.get('arguments_unresolved')})
                    for k, v in (raw_l2 or {}).items() if isinstance(v, dict))
        matches_model = (predicted == seen)
    aspects = '+'.join(sorted(set(d[0] for d in diffs))) if diffs else ('replicate-raised' if diffs is None else 'expansion-as-expected')
    outcome_level = 'rejected-valid-workflow' if level == 'rejected' else 'wrong-graph'
    if kinds and matches_model:
        sig = 'textual-rewrite:%s:%s' % ('+'.join(kinds), outcome_level)
    elif kinds:
        sig = 'textual-rewrite-not-as-known:%s:%s' % ('+'.join(kinds), outcome_level)
    else:
        sig = '%s:%s' % (outcome_level, aspects)
    first = diffs[0] if diffs else None
    why = ('%s; %s' % (outcome_level, err) if err else outcome_level)
    if first:
        why += '; first discrepancy: %s at %s: %s' % (first[0], first[1], canon_short(first[2]))
    col.outcome('FAIL:%s' % sig)
    if kinds and matches_model:
        col.count('failing_cases_%s' % '+'.join(kinds).replace('-', '_').replace('+', '_and_'))
    col.fail(dict(case), why, {'level': level, 'error': err, 'diffs': _jsonable(diffs), 'raw': raw,
                               'explained_by': kinds, 'equals_known_rewriting_model': matches_model}, sig=sig)


def canon_short(x):
    s = repr(_jsonable(x))
    return s if len(s) < 700 else s[:700] + '...'


# ------------------------------------------------------------------------------------------------ enumeration
RULE = ('Abstract workflows (components, stages, typed consumer->producer edges) are enumerated completely in six '
        'families and each is turned into a FlowIR document: '
        'S = every DAG shape with 2..3 components (2..4 thorough) over <=2 stages x every assignment of a replica '
        'request (one component with N in {1,2,3}, or two components with (2,2),(2,3),(3,2)) and of the aggregate flag '
        '(every subset of the components that have a producer), neutral names, every relative/absolute spelling vector '
        '(4 uniform vectors for 4 components); for a single requester with N=2 the count is also given through a '
        'variable: defined globally, in the stage, in the component, and one name defined in several scopes '
        '(global + other components, global + other stage, stage over global, component over stage over global, stage '
        '+ other components; 4 components: global, stage, global + other components), for two requesters also both '
        'through the same name defined in each component; further (single requester N=2) the count as a component '
        'variable defined through another variable that is global / in the stage while the other components shadow it, '
        'and on a second platform `big` (observed with platform=big) with the name defined in two of default global, '
        'default stage, platform global, platform stage, component (and on the default platform with decoys in the '
        'platform scopes); the aggregate flag given through such a variable chain with the other components shadowing it; '
        'N = two producers X,Y feeding one consumer (optionally X->Y), stages 000/001/011 (quick: request on Y alone '
        'only where X and Y are in different stages, the rest is covered by swapping the names), every ordered pair of names '
        'from the collision alphabet {A,AA,BA,AB,A-B,A.B,x}(+{B7,A_B} thorough) incl. the same name in two stages, '
        'replica request on X, on Y, on both, consumer aggregating or not, every spelling pair, file/method kinds '
        '(quick: both edges (none,ref) or (out.txt,ref); thorough: 6 equal kinds and 4 different pairs over files '
        'none/out.txt/d/f and methods ref copy link output), the reference repeated in the arguments in the same '
        'spelling or in `ref/path` form (thorough also: other spelling, not at all), reversed reference list for equal '
        'names (thorough: also for equal kinds); '
        'D = replicated producer -> consumer with each of 9 non-component references (special folders, manifest folder, '
        'application dependency, absolute path, and two paths that end with the producer name) one at a time and all '
        'together, on the consumer / the producer / both; '
        'P = replicated producer (N in {1,2,3}) -> consumer whose command line names two files under one reference; '
        'F = replicated producer -> consumer for every path spelling (none, out.txt, d/f, d/, d/e/) x method (ref copy '
        'link, output for files), reference in the arguments or not; '
        'L = two-digit replica indices: N=11 (thorough 10,11,12), X->C and X->M->C over one or two stages, last '
        'component aggregating or not, both spellings, plain and `ref/path` argument forms. '
        'A case is non-trivial when at least one component consumes from the replicated region (so a reference must '
        'be rewritten); distinct = distinct abstract case. Cases the statement does not decide are not judged: '
        'regions with different replica counts that meet, an aggregating component that also requests replicas, a '
        'literal component name equal to <replicated name><digits>. Every failing case is recorded; those whose whole '
        'discrepancy has the shape of one of this module\'s known-defect selectors are also counted per kind in the '
        'failing_cases_* counters.')
ASSUMPTIONS = [
    'observation = WorkflowGraph.graphFromFlowIR(doc, manifest, primitive=False): node ids, edges, per node the raw '
    'references and the resolved command line, variables.replica; strings are parsed with an independent parser of the '
    'documented reference grammar and compared as (stage, producer, path, method) tuples, never as text',
    'a workflow that loads unreplicated (primitive=True) but is rejected when replicated counts as a failure; the raw '
    'output of FlowIRConcrete.replicate() is then used only to describe the shape of the failure',
    'order of references is judged only inside one aggregated group (copies 0..N-1 ascending); the command line is '
    'compared token by token (a reference to a replicated producer in an aggregating command line expands in place)',
    'attribution to the accepted known findings (never the verdict) uses a string-level model of today\'s textual '
    'rewriting (oracles/c03_known_model.py): a failing case is attributed only if the trigger is present, every '
    'discrepancy has the predicted shape AND the raw expansion of every component equals the model\'s prediction '
    'string for string; any other corruption (e.g. of an absolute spelling that is intact today) is a VIOLATION',
    'workflowAttributes.replicate of the copies, isReplicationPoint and isAggregate are not judged (the statement does '
    'not mention them)',
    'a replica count given through a variable is the value the documented layering (global < stage < component '
    'definition, property C04) makes visible to the requesting component; definitions of the same name in other '
    'components or other stages are not visible to it',
    'platform layering as documented (C04): default global < default stage < platform global < platform stage < '
    'component definition; variable references are substituted until none of a defined variable remains',
    'a path with a trailing separator (d/) names the same location as without it: paths are compared after removing '
    'trailing separators',
    'a relative spelling denotes a producer in the consumer\'s own stage: a command line that spells a producer of '
    'another stage relatively is not a valid workflow (the loader rejects it unreplicated) and is not generated',
    'component names are limited to the stated alphabets; <=4 components, <=2 stages, N<=3 (and 10..12 in family L); methods ref copy link '
    'output; no DoWhile documents, no comma-joined `ref/path,` form',
]


def _prepare(thorough):
    """Returns (trigger_items, plain_items, n_grey_by_reason)."""
    trig, plain, grey = [], [], {}
    for it in gen.all_items(thorough):
        case = gen.case_from_item(it)
        try:
            rep = model.region(case)
        except model.Grey as g:
            grey[str(g)] = grey.get(str(g), 0) + 1
            continue
        if any(victims(case, rep, j) for j in range(len(case['comps']))):
            trig.append(it)
        else:
            plain.append(it)
    return trig, plain, grey


def _with_replica_args(case):
    """Every component of the replicated region also prints its replica index (r=%(replica)s)."""
    try:
        rep = model.region(case)
    except model.Grey:
        return case
    for j, c in enumerate(case['comps']):
        c['replica_arg'] = rep[j] is not None
    return case


def worker(col, item, tier, seed):
    for n, it in enumerate(item):
        case = _with_replica_args(gen.case_from_item(it))
        run_case(col, case)
        if n == 0:
            col.sample(case)


def run(ctx):
    trig, plain, grey = _prepare(ctx.thorough)
    for reason, n in sorted(grey.items()):
        ctx.count('grey_excluded', n)
        ctx.outcome('not-judged(grey): %s' % reason, n)
    ctx.count('cases_with_known_defect_trigger', len(trig))
    ctx.count('cases_without_trigger', len(plain))
    # cases that can trigger a known-shaped failure cost three loads each: small chunks, scheduled first; strided so
    # that every chunk mixes all families (the first failures kept for reporting then cover every failure class)
    nchunks = max(1, len(trig) // 60)
    work = [trig[i::nchunks] for i in range(nchunks)]
    step = 400 if ctx.thorough else 150
    work += [plain[i:i + step] for i in range(0, len(plain), step)]
    ctx.pmap('verif.props.c03', 'worker', work)


def replay(ctx, case):
    case = dict(case)
    run_case(ctx, case)


# ------------------------------------------------------------------------------------------------ known findings
def _case_kinds(case):
    try:
        rep = model.region(case)
    except model.Grey:
        return set()
    return set(t['kind'] for j in range(len(case['comps'])) for t in victims(case, rep, j))


def _selector(kind):
    def sel(f):
        m = re.fullmatch(r'textual-rewrite:([a-z+\-]+):(rejected-valid-workflow|wrong-graph)', str(f.get('sig')))
        if not m or m.group(1) != kind:
            return False
        if (f.get('observed') or {}).get('explained_by') != [kind]:
            return False
        if (f.get('observed') or {}).get('equals_known_rewriting_model') is not True:
            return False
        return kind in _case_kinds(f['case'])
    return sel


KNOWN_SELECTORS = {
    'replicated_producer_name_is_proper_suffix_of_other_referenced_producer': _selector('suffix'),
    'replicated_producer_has_same_name_as_referenced_producer_of_other_stage': _selector('samename'),
    'replicated_producer_short_spelling_is_suffix_of_non_component_reference': _selector('direct-suffix'),
    'aggregated_producer_name_used_as_unescaped_regex_matches_other_producer': _selector('regex-dot'),
    'aggregating_command_line_with_two_paths_under_one_reference': _selector('multi-path'),
}
