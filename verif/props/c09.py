"""C09 — Data references parse, print and classify consistently.

Three layers, all exhaustive over the same structured reference grammar (verif/oracles/c09_refs.py):

  str : context-free.  Parse -> print round trips (FlowIR.ParseDataReferenceFull/ParseDataReference/compile_reference,
        graph.DataReference / ComponentIdentifier), relative vs absolute spelling of the same reference.
  fn  : every reference under every context (known components x manifest x application dependencies x owner stage):
        classification by ParseDataReferenceFull / is_datareference_to_component / expand_potential_component_reference
        / expand_component_references / validate_references, idempotence of expansion.  The list of top-level folders
        is obtained the way the product obtains it: Manifest(<manifest>).top_level_folders.
  doc : the same contexts end to end: one FlowIR document per context hosting one consumer component per reference,
        (a) FlowIRConcrete.validate(top_level_folders=Manifest(..).top_level_folders) and (b) the user-facing loader
        ExperimentConfigurationFactory.configurationForExperiment(<file>, manifest=<manifest>) which expands the
        references and validates them.
  appdep / manifest : FlowIR.application_dependency_to_name of every declared entry, Manifest.top_level_folders of
        every manifest.
  hist: a two-step history on the real configuration object: load under manifest A, parametrize(manifest=B); the
        references whose class differs between A and B are judged under B, the manifest in effect.
"""
import itertools
import os
import re

from verif.core.runner import HarnessError
from verif.oracles import c09_refs as R

PROPERTY = 'C09'
LEVEL = 'exploration'
EXHAUSTIVE = True
RULE = ('References are generated structurally as [stage<N>.]head[/path]:method, never parsed by the harness: '
        'head in 12 component-like names (A AA BA AB A-B A.B x A1B A2 0#A 1#A.B stage.B; explicit stage prefixes '
        'none/0/1/2 [+10 thorough]) + reserved folders (input data bin conf) + application-dependency folders '
        '(app tool.v2 rel plain) + manifest first segments (mf a c) + absolute paths (/abs/dir /abs) + variables (%(v)s %(v.w)s), '
        'no prefix for non-names; path in {none, f.txt, d/f.txt, d/e/f.txt, d.e/f-1.txt, b/f.txt, sub/f.txt, '
        'run-%(v)s/f.txt, frames[3]} (the last two put a variable / an array index into the file path, not the '
        'producer) [+ *.txt, data/f.txt, stage1.A/f.txt, %(v.w)s.txt, d/%(v)s[0]/f.txt thorough]; all 8 reference methods. Contexts = 4 known-component sets '
        '(empty; two disjoint rotations; same name in two stages) x 4 manifests (empty; top-level + nested keys a/b, '
        'c/d/e; top-level a + nested mf/sub; keys x and A-B/sub that are component names elsewhere) x 2 '
        'application-dependency lists (empty; App.application, /abs/path/Tool.v2.application/, Rel.application/, '
        '/abs/path/plain = relative/absolute x with/without trailing slash) [3 thorough] x owner stage 0/1 [+10 thorough], minus contexts where a known '
        'component shares a name with a folder (documented as unsupported). Layer str: every reference (context-free '
        'round trips, DataReference/ComponentIdentifier relative vs absolute); layer fn: every (reference, context) '
        'through the 5 classification/expansion functions; layer manifest: Manifest.top_level_folders of every context; '
        'layer doc: per (context, owner stage) FlowIR documents with one consumer component per reference, paths '
        '{none, b/f.txt, sub/f.txt, run-%(v)s/f.txt} x methods {ref, copy} (quick) / 6 paths x all 8 methods '
        '(thorough), the variables v and v.w defined in the document, variable heads '
        'left out, references the statement does not classify kept only without path; layer appdep: '
        'application_dependency_to_name of every declared entry; layer hist: for every ordered pair (A, B) of distinct '
        'manifests and known sets {empty, same-name-in-two-stages} [all 4 thorough] x application-dependency lists: '
        'configurationForExperiment(manifest=A) then parametrize(manifest=B), every reference (paths {none, b/f.txt, '
        'sub/f.txt, run-%(v)s/f.txt}, method ref, both owner stages) whose class under A differs from its class under B, '
        'judged under B. A case is non-trivial when the '
        'statement fixes its class (component / not-a-component) or it has a stage prefix or a path; distinct = '
        'distinct (layer, reference string, context id, owner stage). Failing cases that differ from an already recorded '
        'failure only in path/method/owner stage (same layer, context, head, prefix, signature) are counted in '
        'failing_cases but not recorded individually.')
ASSUMPTIONS = [
    'only canonical spellings are generated (no empty path segments, no trailing "/", no leading zeros in stage '
    'numbers, exactly one ":"); other spellings are outside the property',
    'explicit stage prefixes are only combined with component-like names; "stage0.data:ref", "stage0.%(v)s:ref", '
    '"stage0./abs:ref" are not generated, and a prefixed name that is a folder of the context ("stage0.x:ref" where the '
    'manifest has a key x) is skipped (counter excluded_stage_prefix_on_folder_name)',
    'a context in which a known component has the same name as a reserved / application-dependency / manifest folder is '
    'skipped (the code documents this as unsupported)',
    'references whose producer is neither a folder of the context nor a known component ("open") are judged for '
    'round trip, idempotence and relative/absolute agreement only, not for classification or acceptance',
    'graph.DataReference with a stage context is only judged for component-like names; direct references are '
    'constructed without a stage context as tests/test_identifier.py does',
    'names such as "stage1a.B" (prefix looks like a stage name but is not one) are excluded: ParseProducerReference '
    'documents a ValueError for malformed stage names, the statement does not say what a reference to them means',
    'in layer doc the "variable" heads are not used (the loader substitutes variables before validating) and '
    'arguments contain no references (C10 owns command lines)',
    'file paths with an array index ("frames[3]") are only used in layers str/fn: inside a document "[N]" is FlowIR '
    'array-access syntax that the loader resolves before it looks at references',
    'uid escaping (ComponentIdentifier.to_uid) has no inverse in the code base and is not judged',
]

NAMES = ['A', 'AA', 'BA', 'AB', 'A-B', 'A.B', 'x', 'A1B', 'A2', '0#A', '1#A.B', 'stage.B']
APPDEP_HEADS = ['app', 'tool.v2', 'rel', 'plain']
MANIFEST_HEADS = ['mf', 'a', 'c']
ABS_HEADS = ['/abs/dir', '/abs']
VAR_HEADS = ['%(v)s', '%(v.w)s']
# the last two: a variable / an array index inside the FILE PATH (the producer stays what the first segment says)
PATHS_Q = [None, 'f.txt', 'd/f.txt', 'd/e/f.txt', 'd.e/f-1.txt', 'b/f.txt', 'sub/f.txt', 'run-%(v)s/f.txt', 'frames[3]']
PATHS_T = PATHS_Q + ['*.txt', 'data/f.txt', 'stage1.A/f.txt', '%(v.w)s.txt', 'd/%(v)s[0]/f.txt']
DOC_PATHS_Q = [None, 'b/f.txt', 'sub/f.txt', 'run-%(v)s/f.txt']
DOC_PATHS_T = [None, 'b/f.txt', 'sub/f.txt', 'd/e/f.txt', 'run-%(v)s/f.txt', '%(v.w)s.txt']
DOC_METHODS_Q = ['ref', 'copy']

KNOWN_SETS = [
    {},
    {0: ['A', 'BA', 'A-B', '0#A', 'A1B'], 1: ['A.B', 'AA', 'x', 'A2']},
    {0: ['A.B', 'AA', 'x', 'A2', '1#A.B', 'stage.B'], 1: ['A', 'AB', 'A-B', '0#A']},
    {0: ['A', 'AA', 'A.B'], 1: ['A', 'BA', '1#A.B']},
]
MANIFESTS = [
    {},
    {'mf': '/src/mf:copy', 'a/b': '/src/ab:copy', 'c/d/e': '/src/cde:link'},
    {'a': '/src/a', 'mf/sub': '/src/mfsub:copy'},
    {'x': '/src/x:copy', 'A-B/sub': '/src/absub:link'},
]
# every spelling the package format documents for an entry: relative / absolute, with / without a trailing '/',
# with / without an extension
APPDEPS = [[], ['App.application', '/abs/path/Tool.v2.application/', 'Rel.application/', '/abs/path/plain']]
APPDEPS_T = APPDEPS + [['x', 'Mf.application']]

_STAGE_PREFIX = re.compile(r'^stage([0-9]+)\.')


# --------------------------------------------------------------------------------------------- enumeration
def stage_set(thorough):
    return [0, 1, 10] if thorough else [0, 1]


def prefixes(thorough):
    return [None, 0, 1, 2] + ([10] if thorough else [])


def heads():
    for n in NAMES:
        yield 'name', n
    for n in R.RESERVED:
        yield 'reserved', n
    for n in APPDEP_HEADS:
        yield 'appdep', n
    for n in MANIFEST_HEADS:
        yield 'manifest', n
    for n in ABS_HEADS:
        yield 'abs', n
    for n in VAR_HEADS:
        yield 'var', n


def references(thorough, paths=None, methods=None):
    """Simplest first: no prefix, no path, method ref."""
    paths = paths if paths is not None else (PATHS_T if thorough else PATHS_Q)
    methods = methods if methods is not None else ['ref'] + [m for m in R.METHODS if m != 'ref']
    for path in paths:
        for method in methods:
            for kind, head in heads():
                for p in (prefixes(thorough) if kind == 'name' else [None]):
                    yield {'prefix': p, 'kind': kind, 'head': head, 'path': path, 'method': method}


def known_for(k, thorough):
    known = {int(s): list(v) for s, v in KNOWN_SETS[k].items()}
    if thorough and known:
        # a third stage that re-uses the names of stage 0 not already used in stage 1
        known[10] = [n for n in known[0] if n not in known.get(1, [])][:3]
    return known


def contexts(thorough):
    """All supported contexts without the owner stage, with a stable id."""
    out = []
    deps = APPDEPS_T if thorough else APPDEPS
    for k, m, d in itertools.product(range(len(KNOWN_SETS)), range(len(MANIFESTS)), range(len(deps))):
        ctx = {'id': 'K%dM%dD%d' % (k, m, d), 'known': known_for(k, thorough), 'manifest': dict(MANIFESTS[m]),
               'appdeps': list(deps[d])}
        if R.context_is_supported(ctx):
            out.append(ctx)
    return out


def with_stage(ctx, stage):
    c = dict(ctx)
    c['stage'] = stage
    return c


def norm_ctx(ctx):
    """JSON turns the integer stage keys into strings; undo that (replay)."""
    c = dict(ctx)
    c['known'] = {int(s): list(v) for s, v in ctx['known'].items()}
    return c


class Recorder:
    """One failure record per failing case; failing cases that differ from an already recorded one only in path/method
    or owner stage (same layer, context, head, prefix and signature) are counted, not recorded."""

    def __init__(self, col):
        self.col = col
        self.seen = set()

    def fail(self, layer, case, cls, problems, observed, where):
        """problems: [(why, function, got)]"""
        ref, ctx = case['ref'], case.get('ctx') or {}
        gots = sorted(set(g for _, _, g in problems))
        sig = '%s:%s:%s' % (layer, cls, '+'.join(gots))
        self.col.count('failing_cases')
        key = (sig, ref['kind'], ref['head'], ref['prefix'], ctx.get('id'))
        if key in self.seen:
            self.col.count('failing_cases_not_recorded_same_head_context_signature')
            return
        self.seen.add(key)
        why = problems[0][0]
        if len(problems) > 1:
            why += ' (+%d more: %s)' % (len(problems) - 1, '; '.join('%s: %s' % (f, g) for _, f, g in problems[1:]))
        obs = dict(observed)
        obs['problems'] = [[f, g] for _, f, g in problems]
        self.col.fail(case, '%s [reference %r%s]' % (why, R.spell(ref), where), obs, sig=sig)


def describe(ctx, tlf):
    return ('; context %s: known=%s manifest keys=%s appdeps=%s stage=%d; top-level folders reported by Manifest=%s'
            % (ctx['id'], ctx['known'], sorted(ctx['manifest']), ctx['appdeps'], ctx['stage'], tlf))


def nontrivial(ref, cls):
    return cls != 'open' or ref['prefix'] is not None or ref['path'] is not None


# --------------------------------------------------------------------------------------------- layer str
def _join(producer, filename):
    if filename is None:
        return producer
    return producer + filename if producer.endswith('/') else '%s/%s' % (producer, filename)


def check_str(col, rec, ref, thorough):
    from experiment.model.frontends.flowir import FlowIR
    import experiment.model.conf as conf
    import experiment.model.graph as graph
    s = R.spell(ref)
    case = {'layer': 'str', 'ref': ref}
    col.evaluated()
    if ref['prefix'] is not None or ref['path'] is not None or ref['kind'] != 'name':
        col.nontriv('str|' + s)
    problems = []
    obs = {}

    def bad(why, fn, got):
        problems.append((why, fn, got))

    try:
        t = FlowIR.ParseDataReferenceFull(s)
        printed = FlowIR.compile_reference(t[1], t[2], t[3], t[0])
        t2 = FlowIR.ParseDataReferenceFull(printed)
        pdr = conf.ParseDataReference(s)
        printed_pdr = conf.CreateDataReference(*pdr)
    except Exception as e:
        bad('parsing/printing a well-formed reference raised %s: %s' % (type(e).__name__, e), 'parse/print', 'raises')
        t = None
    if t is not None:
        obs.update({'parsed': list(t), 'printed': printed, 'reparsed': list(t2), 'ParseDataReference': list(pdr),
                    'printed_ParseDataReference': printed_pdr})
        if printed != s:
            bad('compile_reference(*ParseDataReferenceFull(s)) gives %r, not the reference itself' % printed,
                'ParseDataReferenceFull+compile_reference', 'roundtrip-differs')
        if tuple(t2) != tuple(t):
            bad('parsing the printed form %r gives %r, the original parses to %r' % (printed, tuple(t2), tuple(t)),
                'ParseDataReferenceFull(printed)', 'reparse-differs')
        if printed_pdr != s:
            bad('CreateDataReference(*ParseDataReference(s)) gives %r, not the reference itself' % printed_pdr,
                'ParseDataReference+CreateDataReference', 'roundtrip-differs')
        if t[3] != ref['method']:
            bad('method parsed as %r' % (t[3],), 'ParseDataReferenceFull', 'wrong-method')
        if ref['kind'] == 'name':
            want = (ref['prefix'], ref['head'], ref['path'], ref['method'])
            if tuple(t) != want:
                bad('ParseDataReferenceFull gives (stage, producer, file, method) = %r, expected %r' % (tuple(t), want),
                    'ParseDataReferenceFull', 'wrong-parts')
        else:
            loc = _join(t[1], t[2])
            if t[0] is not None or loc != R.location(ref):
                bad('a direct reference parses to stage %r, location %r (expected no stage, %r)'
                    % (t[0], loc, R.location(ref)), 'ParseDataReferenceFull', 'wrong-direct-parts')

    # graph.DataReference / ComponentIdentifier
    try:
        if ref['kind'] == 'name':
            stages = stage_set(thorough) + [2]
            for S in ([ref['prefix']] if ref['prefix'] is not None else stages):
                rel, ab = R.spell(ref, None), R.spell(ref, S)
                other = [x for x in stages if x != S][0]
                views = {'rel@S': graph.DataReference(rel, S), 'abs': graph.DataReference(ab),
                         'abs@other': graph.DataReference(ab, other)}
                got = {k: [d.stageIndex, d.producerName, d.path, d.method, d.absoluteReference, d.relativeReference,
                           d.producerIdentifier.identifier, d.namespace] for k, d in views.items()}
                want = [S, ref['head'], ref['path'], ref['method'], ab, rel, 'stage%d.%s' % (S, ref['head']), 'stage%d' % S]
                for k in sorted(got):
                    if got[k] != want:
                        differ = len(set(tuple(v) for v in got.values())) > 1
                        obs['DataReference'] = {'views': got, 'expected': want}
                        bad('DataReference views of %r / %r (stage %d) %s: %s gives [stage, producer, file, method, absolute, '
                            'relative, producer id, namespace] = %r, expected %r'
                            % (rel, ab, S, 'differ' if differ else 'agree but are wrong', k, got[k], want),
                            'DataReference', 'relative-absolute-disagree' if differ else 'wrong-parts')
                        break
                cids = {'rel@S': graph.ComponentIdentifier(ref['head'], S),
                        'abs': graph.ComponentIdentifier('stage%d.%s' % (S, ref['head'])),
                        'abs@other': graph.ComponentIdentifier('stage%d.%s' % (S, ref['head']), other)}
                gc = {k: [c.stageIndex, c.componentName, c.identifier, c.relativeIdentifier, c.namespace]
                      for k, c in cids.items()}
                wc = [S, ref['head'], 'stage%d.%s' % (S, ref['head']), ref['head'], 'stage%d' % S]
                for k in sorted(gc):
                    if gc[k] != wc:
                        obs['ComponentIdentifier'] = {'views': gc, 'expected': wc}
                        bad('ComponentIdentifier %s of %r in stage %d gives [stage, name, identifier, relative, namespace] '
                            '= %r, expected %r' % (k, ref['head'], S, gc[k], wc), 'ComponentIdentifier', 'wrong-parts')
                        break
        else:
            d = graph.DataReference(s)
            g = [d.stageIndex, d.namespace, d.method, _join(d.producerName, d.path), d.absoluteReference, d.relativeReference]
            w = [None, None, ref['method'], R.location(ref), s, s]
            if g != w:
                obs['DataReference'] = {'got': g, 'expected': w}
                bad('DataReference of a direct reference gives [stage, namespace, method, location, absolute, relative] '
                    '= %r, expected %r' % (g, w), 'DataReference', 'wrong-direct-parts')
    except Exception as e:
        bad('DataReference/ComponentIdentifier raised %s: %s' % (type(e).__name__, e), 'DataReference', 'raises')
    if problems:
        rec.fail('str', case, ref['kind'], problems, obs, '')
        col.outcome('str:%s:FAIL' % ref['kind'])
    else:
        col.outcome('str:%s:%s-spelling-ok' % (ref['kind'], 'absolute' if ref['prefix'] is not None else 'relative'))


def worker_str(col, item, tier, seed):
    lo, hi = item
    rec = Recorder(col)
    refs = list(references(tier == 'thorough'))
    for ref in refs[lo:hi]:
        check_str(col, rec, ref, tier == 'thorough')
    col.sample({'layer': 'str', 'reference': R.spell(refs[lo])})


# --------------------------------------------------------------------------------------------- layer fn
def product_folders(ctx):
    """Top-level folders as the product computes them from the manifest."""
    from experiment.model.frontends.flowir import Manifest
    return list(Manifest(dict(ctx['manifest'])).top_level_folders)


def has_stage_prefix(s):
    return _STAGE_PREFIX.match(s) is not None


def observe_fn(ref, ctx, tlf, other):
    from experiment.model.frontends.flowir import FlowIR
    s = R.spell(ref)
    S, known, appdeps = ctx['stage'], ctx['known'], ctx['appdeps']
    dep_names = [FlowIR.application_dependency_to_name(a) for a in appdeps]
    folders = list(tlf) + dep_names
    comp_ids = [(st, n) for st in sorted(known) for n in known[st]]
    o = {'top_level_folders': list(tlf)}

    def full_print(x, stage):
        f = FlowIR.ParseDataReferenceFull(x, stage, list(appdeps), list(tlf))
        return list(f), FlowIR.compile_reference(f[1], f[2], f[3], f[0])

    o['full'], o['full_print'] = full_print(s, S)
    o['full_print2'] = full_print(o['full_print'], S)[1]
    o['full_print2_other'] = full_print(o['full_print'], other)[1]
    o['is_component'] = bool(FlowIR.is_datareference_to_component(s, list(folders)))
    with_reserved = list(folders) + list(R.RESERVED)
    o['exp'] = FlowIR.expand_potential_component_reference(s, S, known, list(with_reserved))
    o['exp2'] = FlowIR.expand_potential_component_reference(o['exp'], S, known, list(with_reserved))
    o['exp2_other'] = FlowIR.expand_potential_component_reference(o['exp'], other, known, list(with_reserved))
    o['expl'] = FlowIR.expand_component_references([s], S, known, list(appdeps), list(tlf))[0]
    o['expl_noknown'] = FlowIR.expand_component_references([s], S, None, list(appdeps), list(tlf))[0]
    o['expl2'] = FlowIR.expand_component_references([o['expl']], S, known, list(appdeps), list(tlf))[0]
    o['expl2_other'] = FlowIR.expand_component_references([o['expl']], other, known, list(appdeps), list(tlf))[0]
    o['missing'] = list(FlowIR.validate_references([o['exp']], list(comp_ids), S, list(folders)))
    return o


EXPANDERS = (('exp', 'expand_potential_component_reference'), ('expl', 'expand_component_references'),
             ('expl_noknown', 'expand_component_references(known=None)'),
             ('full_print', 'ParseDataReferenceFull+compile_reference'))


def judge_fn(ref, ctx, o):
    """Returns (class, [(why, function, got)])."""
    s = R.spell(ref)
    cls = R.classify(ref, ctx)
    ab = R.absolute_spelling(ref, ctx)
    out = []

    def bad(why, fn, got):
        out.append((why, fn, got))

    # --- idempotence of expansion (every class)
    for a, b, fn in (('exp', 'exp2', 'expand_potential_component_reference'),
                     ('expl', 'expl2', 'expand_component_references'),
                     ('full_print', 'full_print2', 'ParseDataReferenceFull+compile_reference')):
        if o[a] != o[b]:
            bad('%s is not idempotent: %r -> %r -> %r' % (fn, s, o[a], o[b]), fn, 'not-idempotent')
        elif (has_stage_prefix(o[a]) or cls.startswith('not-component')) and o[a] != o[b + '_other']:
            bad('%s: the expanded form %r of %r changes to %r when expanded again from another stage'
                % (fn, o[a], s, o[b + '_other']), fn, 'not-idempotent')
    # --- classification
    if cls.startswith('not-component'):
        why = cls.split(':', 1)[1]
        if o['full'][0] is not None:
            bad('ParseDataReferenceFull treats %r (first segment: %s) as a reference to component stage%s.%s'
                % (s, why, o['full'][0], o['full'][1]), 'ParseDataReferenceFull', 'treated-as-component')
        if o['is_component']:
            bad('is_datareference_to_component(%r) is True although the first segment is: %s' % (s, why),
                'is_datareference_to_component', 'treated-as-component')
        for k, fn in EXPANDERS:
            if has_stage_prefix(o[k]):
                bad('%s rewrites %r (first segment: %s) to the component reference %r' % (fn, s, why, o[k]), fn,
                    'treated-as-component')
            elif o[k] != s:
                bad('%s changes the direct reference %r to %r' % (fn, s, o[k]), fn, 'direct-reference-changed')
        if o['missing']:
            bad('validate_references reports unknown component(s) %r for %r (first segment: %s)' % (o['missing'], s, why),
                'validate_references', 'unknown-component-error')
    elif cls == 'component':
        want = [R.effective_stage(ref, ctx), ref['head'], ref['path'], ref['method']]
        if o['full'] != want:
            bad('ParseDataReferenceFull(%r, stage %d) = %r, expected %r (known component)' % (s, ctx['stage'], o['full'], want),
                'ParseDataReferenceFull', 'not-treated-as-component' if o['full'][0] is None else 'wrong-parts')
        if not o['is_component']:
            bad('is_datareference_to_component(%r) is False for a known component' % s,
                'is_datareference_to_component', 'not-treated-as-component')
        for k, fn in EXPANDERS:
            if o[k] != ab:
                bad('%s gives %r for %r in stage %d, expected the absolute spelling %r of the known component'
                    % (fn, o[k], s, ctx['stage'], ab), fn,
                    'not-treated-as-component' if not has_stage_prefix(o[k]) else 'wrong-absolute-form')
        if o['missing']:
            bad('validate_references reports %r as unknown for %r although the component is known' % (o['missing'], s),
                'validate_references', 'unknown-component-error')
    else:
        # open: whatever the decision, the result must be the reference itself or its absolute spelling
        for k, fn in EXPANDERS:
            if o[k] not in (s, ab):
                bad('%s gives %r for %r in stage %d: neither the reference itself nor its absolute spelling %r'
                    % (fn, o[k], s, ctx['stage'], ab), fn, 'wrong-absolute-form')
        if ref['kind'] == 'name':
            want = [R.effective_stage(ref, ctx), ref['head'], ref['path'], ref['method']]
            if o['full'][1:] != want[1:] or o['full'][0] not in (None, want[0]):
                bad('ParseDataReferenceFull(%r, stage %d) = %r, expected producer/file/method %r'
                    % (s, ctx['stage'], o['full'], want[1:]), 'ParseDataReferenceFull', 'wrong-parts')
    return cls, out


def check_fn(col, rec, ref, ctx, tlf, other):
    s = R.spell(ref)
    case = {'layer': 'fn', 'ref': ref, 'ctx': ctx}
    if R.classify(ref, ctx) == 'excluded':
        col.count('excluded_stage_prefix_on_folder_name')
        return
    col.evaluated()
    try:
        o = observe_fn(ref, ctx, tlf, other)
    except Exception as e:
        col.outcome('fn:FAIL:raises')
        rec.fail('fn', case, R.classify(ref, ctx),
                 [('a classification/expansion function raised %s: %s' % (type(e).__name__, e), 'observe', 'raises')],
                 {'exception': type(e).__name__, 'top_level_folders': list(tlf)}, describe(ctx, tlf))
        return
    cls, problems = judge_fn(ref, ctx, o)
    if nontrivial(ref, cls):
        col.nontriv('fn|%s|%s|%d' % (s, ctx['id'], ctx['stage']))
    if problems:
        rec.fail('fn', case, cls, problems, o, describe(ctx, tlf))
        col.outcome('fn:FAIL:%s' % cls)
    elif cls == 'open':
        col.outcome('fn:open:%s' % ('expanded' if has_stage_prefix(o['exp']) and ref['prefix'] is None else
                                    ('kept' if ref['prefix'] is None else 'already-absolute')))
    else:
        col.outcome('fn:%s' % cls)


def check_manifest(col, ctx):
    """Manifest.top_level_folders itself: the left-most folder of every key."""
    case = {'layer': 'manifest', 'ctx': ctx}
    col.evaluated()
    col.nontriv('manifest|' + ctx['id'])
    got = product_folders(ctx)
    want = R.manifest_top_folders(ctx['manifest'])
    if sorted(set(got)) != sorted(set(want)):
        col.outcome('manifest:FAIL')
        col.fail(case, 'Manifest(%r).top_level_folders = %r, the left-most folders of these keys are %r'
                 % (ctx['manifest'], got, want), {'top_level_folders': got, 'expected': want},
                 sig='manifest:top_level_folders:' + ('nested-key-not-split' if any('/' in g for g in got) else 'wrong'))
    else:
        col.outcome('manifest:%s' % ('nested' if any('/' in k for k in ctx['manifest']) else
                                     ('flat' if ctx['manifest'] else 'empty')))


def check_appdeps(col, ctx):
    """FlowIR.application_dependency_to_name for every declared entry: the folder the entry is unpacked into."""
    from experiment.model.frontends.flowir import FlowIR
    for a in ctx['appdeps']:
        case = {'layer': 'appdep', 'ctx': ctx, 'entry': a}
        col.evaluated()
        col.nontriv('appdep|' + a)
        try:
            got = FlowIR.application_dependency_to_name(a)
        except Exception as e:
            got = 'raised %s' % type(e).__name__
        want = R.appdep_folder(a)
        shape = ('absolute' if a.startswith('/') else 'relative') + ('+trailing-slash' if a.endswith('/') else '')
        if got != want:
            col.outcome('appdep:FAIL')
            col.fail(case, 'application_dependency_to_name(%r) = %r, the folder of this application dependency is %r'
                     % (a, got, want), {'name': got, 'expected': want}, sig='appdep:name:%s' % shape)
        else:
            col.outcome('appdep:%s' % shape)


def worker_fn(col, item, tier, seed):
    ci = item
    thorough = tier == 'thorough'
    rec = Recorder(col)
    base = contexts(thorough)[ci]
    tlf = product_folders(base)
    check_manifest(col, base)
    check_appdeps(col, base)
    n = 0
    for stage in stage_set(thorough):
        ctx = with_stage(base, stage)
        other = [x for x in stage_set(thorough) if x != stage][0]
        for ref in references(thorough):
            check_fn(col, rec, ref, ctx, tlf, other)
            n += 1
    col.sample({'layer': 'fn', 'context': base, 'owner_stages': stage_set(thorough), 'evaluations': n})


# --------------------------------------------------------------------------------------------- layer doc
def doc_references(thorough, methods):
    paths = DOC_PATHS_T if thorough else DOC_PATHS_Q
    return [r for r in references(thorough, paths=paths, methods=methods) if r['kind'] != 'var']


def build_doc(ctx, refs_by_stage):
    comps = []
    for st in sorted(ctx['known']):
        for n in ctx['known'][st]:
            comps.append({'name': n, 'stage': st, 'command': {'executable': 'ls'}})
    consumers = {}
    for st, refs in sorted(refs_by_stage.items()):
        for i, ref in enumerate(refs):
            name = 'cons-%d-%d' % (st, i)
            consumers[(st, name)] = ref
            comps.append({'name': name, 'stage': st, 'command': {'executable': 'ls', 'arguments': '-l'},
                          'references': [R.spell(ref)]})
    # the variables that file paths may mention are defined (validation resolves them before it looks at references)
    doc = {'variables': {'default': {'global': {'v': 'val', 'v.w': 'valw'}}}, 'components': comps}
    if ctx['appdeps']:
        doc['application-dependencies'] = {'default': list(ctx['appdeps'])}
    return doc, consumers


def errors_by_consumer(errors, consumers):
    """Maps FlowIRReferenceToUnknownComponent errors to the consumer they name; everything else -> 'other'."""
    import experiment.model.errors as E
    per, other = {}, []
    for e in errors:
        key = (getattr(e, 'stage', None), getattr(e, 'component', None))
        if isinstance(e, E.FlowIRReferenceToUnknownComponent) and key in consumers:
            per.setdefault(key, []).append(str(getattr(e, 'references', '')))
        else:
            other.append('%s: %s' % (type(e).__name__, str(e)[:200]))
    return per, other


def run_doc(col, rec, ctx, refs_by_stage, scratch):
    import copy
    import yaml
    import experiment.model.conf as conf
    from experiment.model.frontends.flowir import FlowIRConcrete
    doc, consumers = build_doc(ctx, refs_by_stage)
    tlf = product_folders(ctx)
    # (a) FlowIRConcrete.validate on the document as written
    errs_a = FlowIRConcrete(copy.deepcopy(doc), 'default', {}).validate(top_level_folders=list(tlf))
    per_a, other_a = errors_by_consumer(errs_a, consumers)
    # (b) the loader (validate=False so that the configuration object survives; its validation is run explicitly)
    path = os.path.join(scratch, 'wf-%s.yaml' % ctx['id'])
    with open(path, 'w') as f:
        yaml.safe_dump(doc, f, sort_keys=False)
    cfg = conf.ExperimentConfigurationFactory.configurationForExperiment(
        path, manifest=dict(ctx['manifest']), createInstanceFiles=False, updateInstanceFiles=False, validate=False,
        primitive=True)
    if sorted(cfg.top_level_folders) != sorted(tlf):
        raise HarnessError('loader and Manifest disagree on top-level folders: %r vs %r' % (cfg.top_level_folders, tlf))
    concrete = cfg.get_flowir_concrete(return_copy=False)
    errs_b = []
    cfg.validate(errs_b)
    per_b, other_b = errors_by_consumer(errs_b, consumers)
    if other_a or other_b:
        raise HarnessError('unexpected validation errors in the generated document for context %s: %r'
                           % (ctx['id'], (other_a + other_b)[:3]))
    for (st, name), ref in consumers.items():
        c = with_stage(ctx, st)
        s = R.spell(ref)
        cls = R.classify(ref, c)
        if cls == 'excluded':
            continue
        ab = R.absolute_spelling(ref, c)
        stored = list(concrete.get_component((st, name)).get('references', []))
        obs = {'top_level_folders': list(tlf), 'validate_errors': per_a.get((st, name), []),
               'loader_references': stored, 'loader_errors': per_b.get((st, name), [])}
        case = {'layer': 'doc', 'ref': ref, 'ctx': c}
        col.evaluated()
        if nontrivial(ref, cls):
            col.nontriv('doc|%s|%s|%d' % (s, c['id'], st))
        problems = []
        if len(stored) != 1:
            problems.append(('the loader stores %d references %r for the single reference %r' % (len(stored), stored, s),
                             'loader', 'reference-count'))
        elif cls.startswith('not-component'):
            why = cls.split(':', 1)[1]
            if has_stage_prefix(stored[0]):
                problems.append(('the loader rewrites %r (first segment: %s) to the component reference %r'
                                 % (s, why, stored[0]), 'loader', 'treated-as-component'))
            elif stored[0] != s:
                problems.append(('the loader changes the direct reference %r to %r' % (s, stored[0]), 'loader',
                                 'direct-reference-changed'))
        elif cls == 'component':
            if stored[0] != ab:
                problems.append(('the loader stores %r for %r of stage %d, expected the absolute spelling %r of the known '
                                 'component' % (stored[0], s, st, ab), 'loader',
                                 'wrong-absolute-form' if has_stage_prefix(stored[0]) else 'not-treated-as-component'))
        elif stored[0] not in (s, ab):
            problems.append(('the loader stores %r for %r of stage %d: neither the reference nor its absolute spelling %r'
                             % (stored[0], s, st, ab), 'loader', 'wrong-absolute-form'))
        if cls != 'open':
            what = 'first segment: %s' % cls.split(':', 1)[1] if cls.startswith('not-component') else 'known component'
            if obs['validate_errors']:
                problems.append(('FlowIRConcrete.validate reports unknown component(s) %s for the reference %r (%s)'
                                 % (obs['validate_errors'], s, what), 'FlowIRConcrete.validate', 'unknown-component-error'))
            if obs['loader_errors']:
                problems.append(('the loader reports unknown component(s) %s for the reference %r (%s)'
                                 % (obs['loader_errors'], s, what), 'loader', 'unknown-component-error'))
        if problems:
            rec.fail('doc', case, cls, problems, obs, describe(c, tlf))
            col.outcome('doc:FAIL:%s' % cls)
        elif cls == 'open':
            col.outcome('doc:open:%s' % ('rejected' if obs['validate_errors'] or obs['loader_errors'] else 'accepted'))
        else:
            col.outcome('doc:%s:accepted' % cls)


_SCRATCH_PARENT = None   # set by run() before the fork pool starts: the parent removes it even if workers are killed


def _scratch(prefix):
    """A scratch directory: below the run's own directory when there is one (workers), self-removing otherwise."""
    import contextlib
    import tempfile
    from verif.gen.pkg import scratch_dir
    if _SCRATCH_PARENT is not None and os.path.isdir(_SCRATCH_PARENT):
        @contextlib.contextmanager
        def below_parent():
            yield tempfile.mkdtemp(prefix=prefix, dir=_SCRATCH_PARENT)
        return below_parent()
    return scratch_dir(prefix)


def worker_doc(col, item, tier, seed):
    scratch_dir = _scratch
    ci = item
    thorough = tier == 'thorough'
    ctx = contexts(thorough)[ci]
    rec = Recorder(col)
    method_groups = [[m] for m in R.METHODS] if thorough else [list(DOC_METHODS_Q)]
    docs = consumers = 0
    with scratch_dir('c09-') as d:
        for stage in stage_set(thorough):
            c = with_stage(ctx, stage)
            for methods in method_groups:
                refs = []
                for r in doc_references(thorough, methods):
                    cls = R.classify(r, c)
                    # references the statement does not classify are only kept in their simplest shape (layer fn has all)
                    if cls == 'excluded' or (cls == 'open' and r['path'] is not None):
                        continue
                    refs.append(r)
                run_doc(col, rec, ctx, {stage: refs}, d)
                docs += 1
                consumers += len(refs)
    col.count('documents', docs)
    col.sample({'layer': 'doc', 'context': ctx, 'documents': docs, 'consumers': consumers})


# --------------------------------------------------------------------------------------------- layer hist
def hist_pairs(thorough):
    """(known-set index, appdeps index, manifest index A, manifest index B): a configuration loaded under manifest A whose
    manifest is then replaced by B. Both contexts must be supported."""
    deps = APPDEPS_T if thorough else APPDEPS
    ks = range(len(KNOWN_SETS)) if thorough else [0, 3]
    out = []
    for k, d, a, b in itertools.product(ks, range(len(deps)), range(len(MANIFESTS)), range(len(MANIFESTS))):
        if a == b:
            continue
        ok = True
        for m in (a, b):
            ok = ok and R.context_is_supported({'known': known_for(k, thorough), 'manifest': MANIFESTS[m],
                                                'appdeps': deps[d]})
        if ok:
            out.append((k, d, a, b))
    return out


def hist_context(k, d, m, thorough):
    deps = APPDEPS_T if thorough else APPDEPS
    return {'id': 'K%dM%dD%d' % (k, m, d), 'known': known_for(k, thorough), 'manifest': dict(MANIFESTS[m]),
            'appdeps': list(deps[d])}


def hist_references(ctx_a, ctx_b, thorough):
    """Per owner stage: the references whose class under A differs from their class under B (that is where a stale
    folder list shows), simplest shapes first."""
    out = {}
    for st in stage_set(thorough):
        ca, cb = with_stage(ctx_a, st), with_stage(ctx_b, st)
        refs = []
        for r in references(thorough, paths=DOC_PATHS_Q, methods=['ref']):
            if r['kind'] == 'var':
                continue
            a, b = R.classify(r, ca), R.classify(r, cb)
            if a != b and b != 'excluded' and not (b == 'open' and r['path'] is not None):
                refs.append(r)
        out[st] = refs
    return out


def run_hist(col, rec, ctx_a, ctx_b, refs_by_stage, scratch):
    """load(manifest A) -> parametrize(manifest B): everything is judged under B, the manifest in effect."""
    import yaml
    import experiment.model.conf as conf
    doc, consumers = build_doc(ctx_a, refs_by_stage)
    path = os.path.join(scratch, 'wf-hist-%s-%s.yaml' % (ctx_a['id'], ctx_b['id']))
    with open(path, 'w') as f:
        yaml.safe_dump(doc, f, sort_keys=False)
    cfg = conf.ExperimentConfigurationFactory.configurationForExperiment(
        path, manifest=dict(ctx_a['manifest']), createInstanceFiles=False, updateInstanceFiles=False, validate=False,
        primitive=True)
    cfg.parametrize(platform=None, variable_files=None, systemvars=None, is_instance=False, createInstanceFiles=False,
                    primitive=True, updateInstanceFiles=False, variable_substitute=True, manifest=dict(ctx_b['manifest']),
                    validate=False)
    if sorted(cfg.manifestData) != sorted(ctx_b['manifest']):
        raise HarnessError('parametrize(manifest=B) did not install manifest B: %r' % (cfg.manifestData,))
    tlf = list(cfg.top_level_folders)
    want_tlf = R.manifest_top_folders(ctx_b['manifest'])
    history = {'loaded_with_manifest': dict(ctx_a['manifest']), 'then_parametrize_manifest': dict(ctx_b['manifest'])}
    col.evaluated()
    col.nontriv('hist-folders|%s>%s' % (ctx_a['id'], ctx_b['id']))
    if sorted(set(tlf)) != sorted(set(want_tlf)):
        stale = sorted(set(tlf)) == sorted(set(R.manifest_top_folders(ctx_a['manifest'])))
        col.outcome('hist:folders:FAIL')
        col.fail({'layer': 'hist', 'ctx': ctx_b, 'ctx_before': ctx_a, 'ref': None},
                 'after load(manifest keys %s) and parametrize(manifest keys %s) the configuration reports manifest keys %s '
                 'but top-level folders %r (expected %r)' % (sorted(ctx_a['manifest']), sorted(ctx_b['manifest']),
                                                           sorted(cfg.manifestData), tlf, want_tlf),
                 {'top_level_folders': tlf, 'expected': want_tlf, 'history': history},
                 sig='hist:top_level_folders:' + ('stale' if stale else 'wrong'))
    else:
        col.outcome('hist:folders:follow-the-manifest')
    concrete = cfg.get_flowir_concrete(return_copy=False)
    errs = []
    cfg.validate(errs)
    per, other = errors_by_consumer(errs, consumers)
    if other:
        raise HarnessError('unexpected validation errors in the generated document for history %s -> %s: %r'
                           % (ctx_a['id'], ctx_b['id'], other[:3]))
    for (st, name), ref in consumers.items():
        c = with_stage(ctx_b, st)
        s = R.spell(ref)
        cls = R.classify(ref, c)
        cls_before = R.classify(ref, with_stage(ctx_a, st))
        ab = R.absolute_spelling(ref, c)
        stored = list(concrete.get_component((st, name)).get('references', []))
        obs = {'top_level_folders': tlf, 'loader_references': stored, 'loader_errors': per.get((st, name), []),
               'history': history, 'class_under_first_manifest': cls_before}
        case = {'layer': 'hist', 'ref': ref, 'ctx': c, 'ctx_before': ctx_a}
        col.evaluated()
        col.nontriv('hist|%s|%s>%s|%d' % (s, ctx_a['id'], c['id'], st))
        problems = []
        if len(stored) != 1:
            problems.append(('the configuration stores %d references %r for the single reference %r' % (len(stored), stored, s),
                             'parametrize', 'reference-count'))
        elif cls.startswith('not-component'):
            why = cls.split(':', 1)[1]
            if has_stage_prefix(stored[0]):
                problems.append(('after the manifest was replaced the configuration rewrites %r (first segment: %s under '
                                 'the manifest in effect) to the component reference %r' % (s, why, stored[0]),
                                 'parametrize', 'treated-as-component'))
            elif stored[0] != s:
                problems.append(('the configuration changes the direct reference %r to %r' % (s, stored[0]), 'parametrize',
                                 'direct-reference-changed'))
        elif cls == 'component':
            if stored[0] != ab:
                problems.append(('after the manifest was replaced the configuration stores %r for %r of stage %d, expected '
                                 'the absolute spelling %r of the known component' % (stored[0], s, st, ab), 'parametrize',
                                 'wrong-absolute-form' if has_stage_prefix(stored[0]) else 'not-treated-as-component'))
        elif stored[0] not in (s, ab):
            problems.append(('the configuration stores %r for %r of stage %d: neither the reference nor its absolute '
                             'spelling %r' % (stored[0], s, st, ab), 'parametrize', 'wrong-absolute-form'))
        if cls != 'open' and obs['loader_errors']:
            what = 'first segment: %s' % cls.split(':', 1)[1] if cls.startswith('not-component') else 'known component'
            problems.append(('after the manifest was replaced validation reports unknown component(s) %s for the reference '
                             '%r (%s under the manifest in effect)' % (obs['loader_errors'], s, what), 'validate',
                             'unknown-component-error'))
        if problems:
            rec.fail('hist', case, cls, problems, obs,
                     '; loaded with manifest keys %s, then parametrize(manifest keys %s)%s'
                     % (sorted(ctx_a['manifest']), sorted(ctx_b['manifest']), describe(c, tlf)))
            col.outcome('hist:FAIL:%s' % cls)
        else:
            col.outcome('hist:%s-was-%s' % (cls.split(':')[0], cls_before.split(':')[0]))


def worker_hist(col, item, tier, seed):
    thorough = tier == 'thorough'
    k, d, a, b = item
    ctx_a, ctx_b = hist_context(k, d, a, thorough), hist_context(k, d, b, thorough)
    refs = hist_references(ctx_a, ctx_b, thorough)
    with _scratch('c09-') as sd:
        run_hist(col, Recorder(col), ctx_a, ctx_b, refs, sd)
    col.count('histories')
    col.sample({'layer': 'hist', 'loaded_with': ctx_a, 'then_manifest': ctx_b['manifest'],
                'consumers': sum(len(v) for v in refs.values())})


# --------------------------------------------------------------------------------------------- entry points
def run(ctx):
    thorough = ctx.thorough
    refs = list(references(thorough))
    ctxs = contexts(thorough)
    ctx.count('reference_strings', len(refs))
    ctx.count('contexts', len(ctxs) * len(stage_set(thorough)))
    chunk = max(1, len(refs) // (ctx.jobs * 2) + 1)
    ctx.pmap('verif.props.c09', 'worker_str', [(i, min(len(refs), i + chunk)) for i in range(0, len(refs), chunk)])
    ctx.pmap('verif.props.c09', 'worker_fn', list(range(len(ctxs))))
    global _SCRATCH_PARENT
    from verif.gen.pkg import scratch_dir
    with scratch_dir('c09-run-') as parent:
        _SCRATCH_PARENT = parent
        try:
            ctx.pmap('verif.props.c09', 'worker_doc', list(range(len(ctxs))), maxtasksperchild=4)
            ctx.pmap('verif.props.c09', 'worker_hist', hist_pairs(thorough), maxtasksperchild=8)
        finally:
            _SCRATCH_PARENT = None


def replay(ctx, case):
    thorough = ctx.thorough
    layer = case['layer']
    rec = Recorder(ctx)
    if layer == 'str':
        check_str(ctx, rec, case['ref'], thorough)
    elif layer == 'manifest':
        check_manifest(ctx, norm_ctx(case['ctx']))
    elif layer == 'appdep':
        c = norm_ctx(case['ctx'])
        c['appdeps'] = [case['entry']]
        check_appdeps(ctx, c)
    elif layer == 'fn':
        c = norm_ctx(case['ctx'])
        others = [x for x in stage_set(thorough) + [2] if x != c['stage']]
        check_fn(ctx, rec, case['ref'], c, product_folders(c), others[0])
    elif layer == 'hist':
        from verif.gen.pkg import scratch_dir
        c, before = norm_ctx(case['ctx']), norm_ctx(case['ctx_before'])
        st = c.get('stage', 0)
        refs = {st: [case['ref']]} if case.get('ref') else hist_references(before, c, thorough)
        with scratch_dir('c09-') as d:
            run_hist(ctx, rec, before, c, refs, d)
        if not case.get('ref'):
            keep = [f for f in ctx.failures if not f['case'].get('ref')]
            ctx.failures[:] = keep
            ctx.n_failures = len(keep)
    elif layer == 'doc':
        from verif.gen.pkg import scratch_dir
        c = norm_ctx(case['ctx'])
        with scratch_dir('c09-') as d:
            run_doc(ctx, rec, c, {c['stage']: [case['ref']]}, d)
    else:
        raise HarnessError('unknown layer %r' % (layer,))


# --------------------------------------------------------------------------------------------- known findings
def _sig_parts(f):
    parts = f['sig'].split(':')
    return parts[0], ':'.join(parts[1:-1]), set(parts[-1].split('+'))


def _sel_nested_manifest_key(f):
    """Manifest.top_level_folders returns nested keys ("a/b") unsplit, so references under the left-most folder "a" are
    treated as references to a component "a". Matches only: no stage prefix, head is the left-most folder of a nested
    manifest key and not a folder for any other reason, the product's folder list holds the unsplit key and not the
    head, and the wrong observation is 'treated as component' / 'unknown component' (nothing else)."""
    case, obs = f['case'], f.get('observed') or {}
    tlf = obs.get('top_level_folders') or []
    if case.get('layer') == 'manifest':
        keys = list(case['ctx']['manifest'])
        return (f['sig'] == 'manifest:top_level_folders:nested-key-not-split' and sorted(tlf) == sorted(keys)
                and any('/' in k for k in keys))
    ref, ctx = case.get('ref'), case.get('ctx')
    if not ref or not ctx or ref['prefix'] is not None:
        return False
    layer, cls, gots = _sig_parts(f)
    if layer not in ('fn', 'doc') or cls != 'not-component:nested-manifest':
        return False
    if not gots or not gots <= {'treated-as-component', 'unknown-component-error'}:
        return False
    head = ref['head']
    if R.folder_role(head, R_norm(ctx)) != 'nested-manifest':
        return False
    return head not in tlf and any('/' in t and t.split('/', 1)[0] == head for t in tlf)


def R_norm(ctx):
    c = dict(ctx)
    c.setdefault('stage', 0)
    return c


def _sel_root_level_absolute_path(f):
    """'/abs:ref' (a path directly below '/', no file part) parses to producer '/' + file 'abs' and is printed with a
    doubled slash. Matches only that reference shape and only the parse->print observations with the doubled slash."""
    case, obs = f['case'], f.get('observed') or {}
    ref = case.get('ref')
    if not ref or ref['kind'] != 'abs' or ref['path'] is not None or ref['prefix'] is not None:
        return False
    if ref['head'].count('/') != 1 or not ref['head'].startswith('/'):
        return False
    layer, cls, gots = _sig_parts(f)
    s = R.spell(ref)
    fns = set(p[0] for p in obs.get('problems', []))
    if layer == 'str':
        return (cls == 'abs' and gots <= {'roundtrip-differs', 'reparse-differs'} and obs.get('printed') == '/' + s
                and fns <= {'ParseDataReferenceFull+compile_reference', 'ParseDataReferenceFull(printed)',
                            'ParseDataReference+CreateDataReference'})
    if layer == 'fn':
        return (cls == 'not-component:absolute' and gots <= {'not-idempotent', 'direct-reference-changed'}
                and obs.get('full_print') == '/' + s and fns == {'ParseDataReferenceFull+compile_reference'})
    return False


KNOWN_SELECTORS = {'nested_manifest_key_not_split': _sel_nested_manifest_key,
                   'root_level_absolute_path_doubled_slash': _sel_root_level_absolute_path}
