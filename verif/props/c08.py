"""C08 — Configuration queries always reflect the latest updates.

Breadth-first search over histories of the REAL mutators and queries of FlowIRExperimentConfiguration /
FlowIRConcrete.  The transition function is the code under check; nothing of it is modelled.

* A state is reached by replaying a history (list of operations) on a fresh object built from one of the initial
  documents.  Its canonical key is (typed canonical form of raw(), consistency of the component look-up view,
  sorted cache labels with digests of the cached values); states with equal keys are merged.
* After EVERY transition a differential oracle runs on the reached object: for every (component, platform) the
  cached flavour of get_component_configuration must equal the same query on a FlowIRConcrete built from scratch from
  raw() (or both must raise the same error class); the returned dict is then scrambled in place and the query is
  repeated twice more (private-copy clause).  The flavours that by-pass the cache (raw=True, include_default=False)
  are compared afterwards, and finally the description must still answer as before (no leak of scrambled results).
* Failing observations are grouped by class; the two shortest histories of each class are handed to the runner.
* Every layer (default/platform global, default/platform stage, component) owns a variable no higher layer shadows and
  all components interpolate all of them, so that a write is observable on every platform it applies to. A second,
  shallower stratum adds setters that write ==-equal values of a different type (2 -> 2.0, 1 -> True, 0 -> False).
"""
import hashlib
import json
import os
import pickle
import re

from verif.core.runner import HarnessError

PROPERTY = 'C08'
LEVEL = 'model_checking'
EXHAUSTIVE = True
def plats(spec):
    return ('default', spec['P'])


DEPTH = {'quick': 3, 'thorough': 5}
# thorough additionally explores the three documents with the *other* active platform to this depth
DEPTH_SWAPPED = {'quick': 0, 'thorough': 3}
# the alphabet extended with ==-equal values of a different type is explored to this depth
DEPTH_TYPED = {'quick': 2, 'thorough': 3}
FULL_ORACLE_DEPTH = 2

RULE = (
    'BFS over ALL histories (length <= 3 quick, <= 5 thorough) of the per-document alphabet of 26-27 real operations: '
    'for c in {c0,c1}: setOptionForNode(c,"v"), removeOptionForNode(c,"v"), setOptionForNode(c,"#command.arguments"), '
    'removeOptionForNode(c0,"#command.arguments"), setOptionForNode(c0,"#resourceRequest.numberThreads"), '
    'setOptionForNode(c1,"#command", whole section: a single-segment option that rebinds a top-level field), '
    'update_component(c), delete_component(c), cached query of c on platform default and on platform P '
    '(configurationForNode when it is the active platform); set_global_variable, set_stage_variable (each stage in '
    'use), set_platform_global_variable(platform=P | default), set_platform_stage_variable(platform=P | default), '
    'configure_platform(the platform that is not active), add_component(new c2), add_component(c1 again, with a description that differs from the update_component one). '
    'The documents carry stage blueprints for default and P with nested sections the global blueprint lacks, component '
    'options inside those sections, and interpreter components that leave expandArguments to the post-resolution '
    'fix-up (also produced by update_component(c0)). Every layer owns a variable that no higher layer shadows '
    '(default global n, default stage m, P global pn, P stage pm, component k/v) and every component interpolates all '
    'of them, so a write to any layer is visible in the resolved configuration on every platform it applies to. '
    'A second stratum (typed values, length <= 2 quick, <= 3 thorough) extends the alphabet by 9 setters that write a '
    'value which compares == to the stored one but is a different value (2 -> 2.0, 1 -> True, 0 -> False, 3 -> 3.0) '
    'for the component, global, stage, platform-global and platform-stage variables. '
    '3 initial documents, each wrapped by the real FlowIRExperimentConfiguration constructor: '
    '"layered" (global/stage/platform variables, the same name in two stages, active platform default), "override" '
    '(blueprints + component override for P + prefix-colliding names A/AB/A.B, active platform P), "flattened" (a '
    'replicated primitive=False configuration with an unresolvable variable, names x / x.y / xy and a platform P that '
    'does not exist until a mutator creates it). The second platform has a legal name with characters outside '
    '[A-Za-z0-9_] in two documents ("P-1", "p2-x_y") and a plain word in the third; thorough adds the same documents with the other active platform to '
    'depth 3. States with equal canonical key (active platform + typed raw() with the component list as a set + cache '
    'labels/digests) are merged; the lexicographically smallest history of the first level that reaches a state '
    'represents it. Every transition is judged: 3 components x 2 platforms of the cached flavour against a '
    'from-scratch object (values compared with == AND typed: 2, 2.0 and True differ); entries the history left in the '
    'cache additionally get the private-copy rounds (scramble result, query, scramble, query); after histories of '
    'length <= 2 the private-copy rounds run for every entry (this is also what compares the value served from '
    'the cache with the value returned when it was filled), followed by the three uncached flavours (raw=True; '
    'include_default=False; raw=True+inject_missing_fields=False) for c0,c1 on the active platform, instance() for '
    'both platforms, and a check that neither scrambled results nor these read-only calls changed what the '
    'description answers; then, on a second replay of the history, the MODE pass: validate(), and for every '
    '(component, platform) the lenient modes is_primitive=True and ignore_convert_errors=True BEFORE the regular '
    'query, each compared with the same call on a from-scratch object (the added component c2 refers to %(replica)s, '
    'the re-added c1 has an option that cannot be converted, so lenient and regular answers really differ); '
    'a query operation of the history is itself judged against the description it was asked on. '
    'A history is non-trivial when it contains at least one mutator and at least one cached query; distinct = '
    'distinct (document, history). Excluded (grey zone): component names with regular-expression meta characters '
    'other than ".", update_component with a description whose stage/name differ from the id, writes through live '
    'references obtained with return_copy=False, DoWhile documents, concurrent callers.')

ASSUMPTIONS = [
    '"computed from scratch from the current description" = FlowIRConcrete(obj.raw(), CURRENTLY active platform, '
    'documents={}); queries for the active platform are asked with platform=None (implicit), the others explicitly '
    'built anew for every (component, platform, flavour), asked with the same arguments',
    '"resolved configuration" = get_component_configuration(comp, include_default=True, platform=p) with the other '
    'arguments at their defaults (the flavour that is cached; it is what configurationForNode returns); the raw=True '
    'and include_default=False flavours are compared as well on the active platform',
    'when the from-scratch query raises, the live query must raise the same exception class (messages not compared); '
    'whether a *mutator* should have raised is not judged, the state it leaves behind is explored like any other',
    'a description from which no FlowIRConcrete can be built at all is not judged (counted as scratch-unbuildable)',
    'single caller, no concurrency (the cache lock is not under test)',
    'merging states on the canonical key assumes the future of a FlowIRConcrete depends only on its active platform, '
    '_flowir, the _component_dictionary view of it and _cache; dict insertion order and the order of the component '
    'list are deliberately ignored (the latter depends on string hashing for a replicated configuration)',
    'fresh objects re-use one FlowIRExperimentConfiguration wrapper per process whose _concrete is replaced by '
    'FlowIRConcrete(description produced by the real constructor) plus the cached queries needed to reproduce the '
    'cache entries the constructor leaves behind; the equivalence (same canonical state) is verified at start-up',
    'failing observations are grouped by class (sig); two shortest cases per class are reported, the rest counted',
    'two configurations are equal when they compare == and have the same typed canonical text (an int, the float '
    'and the bool that compare equal to it are different values: they interpolate and serialise differently)',
    'the copy-leak rounds on entries filled by the oracle itself and the uncached flavours exercise code that does not '
    'depend on the history; they are run after every history of length <= 2 only',
]

MC_EXPLANATION = (
    'state = a live FlowIRExperimentConfiguration/FlowIRConcrete reached by a history of real calls, identified by '
    'sha1(typed canonical raw() | view consistency | sorted (cache label, digest of cached value)); '
    'transition = one real mutator or cached query executed on a fresh replay of the source state\'s representative '
    'history, followed by the differential oracle; traces = histories executed on the implementation (one per '
    'transition, plus the initial states); completed depth is reported in the counter completed_depth.')


# ----------------------------------------------------------------------------------------------- initial documents
def _specs():
    # the second platform: legal names with characters outside [A-Za-z0-9_] (hyphenated names such as lsf-gpu are
    # common) in two documents, a plain word in the third
    P0, P1 = 'P-1', 'p2-x_y'
    d0 = {
        'platforms': ['default', P0],
        'blueprint': {'default': {'stages': {0: {'resourceManager': {'lsf': {'queue': 'q0'}}}}},
                      P0: {'stages': {0: {'resourceManager': {'lsf': {'queue': 'qp', 'reservation': 'rp'}}}}}},
        'variables': {'default': {'global': {'g': 'g0', 'v': 'gv', 'n': 2, 'pn': 5},
                                  'stages': {0: {'s': 's0', 'm': 0, 'pm': 6}, 1: {'s': 's1', 'm': 0}}},
                      P0: {'global': {'g': 'pg', 'pn': 1}, 'stages': {0: {'s': 'ps0', 'pm': 3}}}},
        'components': [
            {'name': 'A', 'stage': 0,
             'command': {'executable': 'echo', 'arguments': '%(g)s %(s)s %(v)s %(n)s %(pn)s %(m)s %(pm)s %(k)s'},
             'variables': {'v': 'c0v', 'k': 1}, 'resourceRequest': {'numberThreads': 2}},
            {'name': 'A', 'stage': 1,
             'command': {'executable': 'echo', 'arguments': '%(g)s-%(s)s-%(v)s-%(n)s-%(pn)s-%(m)s-%(k)s'},
             'variables': {'v': 'c1v', 'k': 1}, 'resourceRequest': {'numberThreads': 3}},
        ]}
    d1 = {
        'platforms': ['default', P1],
        'blueprint': {'default': {'global': {'command': {'environment': 'none'}},
                                  'stages': {0: {'resourceManager': {'config': {'walltime': 30.0}}}}},
                      P1: {'global': {'resourceRequest': {'numberThreads': 4}},
                            'stages': {0: {'command': {'expandArguments': 'none'}}}}},
        'variables': {'default': {'global': {'g': 'g0', 'n': 2, 'pn': 5}, 'stages': {0: {'s': 's0', 'm': 0, 'pm': 6}}},
                      P1: {'global': {'g': 'pg', 'v': 'pv', 'pn': 1}, 'stages': {0: {'s': 'ps0', 'pm': 3}}}},
        'components': [
            {'name': 'A', 'stage': 0,
             'command': {'executable': 'echo', 'arguments': '%(g)s %(s)s %(v)s %(n)s %(pn)s %(m)s %(pm)s %(k)s'},
             'variables': {'v': 'c0v', 'k': 1}, 'resourceRequest': {'numberThreads': 2},
             'resourceManager': {'config': {'backend': 'local'}, 'lsf': {'queue': 'qa'}},
             'override': {P1: {'command': {'arguments': 'over %(v)s %(g)s %(n)s %(pn)s %(m)s %(pm)s %(k)s'},
                                'variables': {'v': 'ov'}}}},
            # an interpreter component that leaves expandArguments to the default (fixed up after resolution)
            {'name': 'AB', 'stage': 0,
             'command': {'interpreter': 'bash', 'executable': 'echo', 'arguments': '%(s)s %(v)s %(n)s %(pm)s %(k)s'},
             'variables': {'v': 'c1v', 'k': 1}},
        ]}
    d2 = {
        'variables': {'default': {'global': {'n': 2}, 'stages': {0: {'m': 0}}}},
        'components': [
            {'name': 'x', 'stage': 0, 'command': {'executable': 'echo', 'arguments': '%(g)s lit'}},
            {'name': 'x.y', 'stage': 0, 'command': {'executable': 'echo', 'arguments': 'lit %(v)s %(n)s %(m)s %(k)s'},
             'variables': {'v': 'xv', 'k': 1}},
        ]}
    specs = [
        {'name': 'layered', 'doc': d0, 'active': 'default', 'P': P0, 'primitive': True,
         'comps': [[0, 'A'], [1, 'A']],
         'add': {'name': 'AA', 'stage': 0,
                 'command': {'executable': 'echo', 'arguments': 'add %(g)s %(s)s %(n)s %(m)s %(replica)s'}}},
        {'name': 'override', 'doc': d1, 'active': P1, 'P': P1, 'primitive': True,
         'comps': [[0, 'A'], [0, 'AB']],
         'add': {'name': 'A.B', 'stage': 0,
                 'command': {'executable': 'echo', 'arguments': 'add %(g)s %(s)s %(n)s %(m)s %(replica)s'}}},
        {'name': 'flattened', 'doc': d2, 'active': 'default', 'P': 'P', 'primitive': False, 'gvar': 'g',
         'comps': [[0, 'x'], [0, 'x.y']],
         'add': {'name': 'xy', 'stage': 1, 'command': {'executable': 'echo', 'arguments': 'add %(g)s %(n)s'}}},
    ]
    out = {}
    for s in specs:
        out[s['name']] = s
        other = dict(s, name=s['name'] + '@' + ('P' if s['active'] == 'default' else 'default'),
                     active=s['P'] if s['active'] == 'default' else 'default', swapped=True)
        out[other['name']] = other
    return out


SPECS = _specs()


def spec_names(tier):
    core = [n for n, s in SPECS.items() if not s.get('swapped')]
    swapped = [n for n, s in SPECS.items() if s.get('swapped')]
    return core, (swapped if DEPTH_SWAPPED[tier] > 0 else [])


def ops_for(spec, typed=False):
    """The alphabet (JSON-able lists), in a fixed order. typed=True appends, for every setter of a variable, a variant
    that writes a value which compares == to the value the initial document holds but is a different value in the
    description (2 -> 2.0, 1 -> True, 0 -> False): an update guarded by `old != new` must still be visible."""
    ops = []
    for i in (0, 1):
        ops.append(['setvar', i])
    for i in (0, 1):
        ops.append(['delvar', i])
    for i in (0, 1):
        ops.append(['setarg', i])
    ops.append(['setthr', 0])
    ops.append(['setcmd', 1])       # single-segment option: replaces the whole command section
    ops.append(['rmarg', 0])
    ops.append(['configure'])       # configure_platform(the platform that is not active now)
    ops.append(['setglobal'])
    stages = sorted({c[0] for c in spec['comps']})
    for st in stages:
        ops.append(['setstage', st])
    ops.append(['setpglobal', spec['P']])
    ops.append(['setpglobal', 'default'])
    ops.append(['setpstage', stages[0], spec['P']])
    ops.append(['setpstage', stages[0], 'default'])
    ops.append(['add', 2])
    ops.append(['add', 1])
    for i in (0, 1):
        ops.append(['update', i])
    for i in (0, 1):
        ops.append(['delete', i])
    for i in (0, 1):
        for p in plats(spec):
            ops.append(['query', i, p])
    if typed:
        for i in (0, 1):
            ops.append(['setvar', i, 'eq'])
        ops.append(['setglobal', 'eq'])
        ops.append(['setstage', stages[0], 'eq'])
        for p in plats(spec):
            ops.append(['setpglobal', p, 'eq'])
        for p in plats(spec):
            ops.append(['setpstage', stages[0], p, 'eq'])
    return ops


MUTATORS = ('setvar', 'delvar', 'setarg', 'setthr', 'setcmd', 'rmarg', 'configure', 'setglobal', 'setstage', 'setpglobal', 'setpstage',
            'add', 'update', 'delete')


def _ref(cid):
    return 'stage%d.%s' % (cid[0], cid[1])


def _component_desc(spec, i, purpose='update'):
    """Description used by add_component / update_component for component index i (always a fresh object).
    The description that re-adds c1 differs from the one that replaces it."""
    if i == 2:
        import copy
        return copy.deepcopy(spec['add'])
    st, name = spec['comps'][i]
    if purpose == 'add':
        # numberThreads cannot be converted to a number: strict queries raise, ignore_convert_errors=True ones do not
        return {'name': name, 'stage': st, 'command': {'executable': 'echo', 'arguments': 'readd %(n)s %(m)s'},
                'variables': {'v': 'rv', 'k': 1}, 'resourceRequest': {'numberThreads': 'many'}}
    if i == 0:
        return {'name': name, 'stage': st,
                'command': {'interpreter': 'bash', 'executable': 'echo', 'arguments': 'upd0 %(g)s %(v)s %(n)s %(m)s'},
                'variables': {'v': 'uv0'}, 'resourceRequest': {'numberThreads': 5}}
    # deliberately without a 'variables' section
    return {'name': name, 'stage': st, 'command': {'executable': 'echo', 'arguments': 'upd1 %(s)s %(n)s %(m)s'}}


def apply_op(spec, conf, op):
    """Executes one operation through the real interface. Returns ('ok', value|None) or ('raised', class name)."""
    conc = conf.get_flowir_concrete(return_copy=False)
    kind = op[0]
    try:
        eq = op[-1] == 'eq'
        if kind == 'setvar':
            if eq:
                conf.setOptionForNode(_ref(spec['comps'][op[1]]), 'k', 1.0)            # document: k = 1
            else:
                conf.setOptionForNode(_ref(spec['comps'][op[1]]), 'v', 'nv%d' % op[1])
        elif kind == 'delvar':
            conf.removeOptionForNode(_ref(spec['comps'][op[1]]), 'v')
        elif kind == 'setarg':
            conf.setOptionForNode(_ref(spec['comps'][op[1]]), '#command.arguments',
                                  'na%d %%(g)s %%(s)s %%(v)s %%(n)s %%(m)s' % op[1])
        elif kind == 'setthr':
            conf.setOptionForNode(_ref(spec['comps'][op[1]]), '#resourceRequest.numberThreads', 7 + op[1])
        elif kind == 'setcmd':
            conf.setOptionForNode(_ref(spec['comps'][op[1]]), '#command',
                                  {'executable': 'echo', 'arguments': 'cmd%d %%(n)s %%(m)s' % op[1]})
        elif kind == 'configure':
            ps = plats(spec)
            conc.configure_platform(ps[1] if conc.active_platform == ps[0] else ps[0])
        elif kind == 'rmarg':
            conf.removeOptionForNode(_ref(spec['comps'][op[1]]), '#command.arguments')
        elif kind == 'setglobal':
            # n is defined by the default platform only (document: n = 2), so the write is visible on every platform;
            # the flattened document writes the variable its component x cannot resolve until then
            if eq:
                conc.set_global_variable('n', 2.0)
            else:
                conc.set_global_variable(spec.get('gvar', 'n'), 'ng')
        elif kind == 'setstage':
            # m is defined by the default platform's stages only (document: m = 0)
            if eq:
                conc.set_stage_variable(op[1], 'm', False)
            else:
                conc.set_stage_variable(op[1], 'm', 'ns%d' % op[1])
        elif kind == 'setpglobal':
            # default: the unshadowed n; P: pn, which P defines on top of the default platform (document: P pn = 1)
            if op[1] == 'default':
                conc.set_platform_global_variable('n', 2.0 if eq else 'ndg', op[1])
            else:
                conc.set_platform_global_variable('pn', True if eq else 'npg', op[1])
        elif kind == 'setpstage':
            # default: the unshadowed m; P: pm (document: P pm = 3)
            if op[2] == 'default':
                conc.set_platform_stage_variable(op[1], 'm', False if eq else 'nds', op[2])
            else:
                conc.set_platform_stage_variable(op[1], 'pm', 3.0 if eq else 'nps', op[2])
        elif kind == 'add':
            conc.add_component(_component_desc(spec, op[1], 'add'))
        elif kind == 'update':
            conc.update_component(tuple(spec['comps'][op[1]]), _component_desc(spec, op[1]))
        elif kind == 'delete':
            conc.delete_component(tuple(spec['comps'][op[1]]))
        elif kind == 'query':
            cid = tuple(spec['comps'][op[1]])
            if op[2] == conc.active_platform:      # implicit platform (platform=None)
                return 'ok', conf.configurationForNode(_ref(cid))
            return 'ok', conc.get_component_configuration(cid, include_default=True, platform=op[2])
        else:
            raise HarnessError('unknown operation %r' % (op,))
    except HarnessError:
        raise
    except Exception as e:
        return 'raised', type(e).__name__
    return 'ok', None


# --------------------------------------------------------------------------------------------------- canonical form
def canon_obj(o):
    """Typed, order-insensitive (for dicts) canonical text of a nested description."""
    if isinstance(o, dict):
        items = sorted(((type(k).__name__, repr(k)), canon_obj(v)) for k, v in o.items())
        return '{' + ','.join('%s:%s=%s' % (k[0], k[1], v) for k, v in items) + '}'
    if isinstance(o, (list, tuple)):
        return ('[' if isinstance(o, list) else '(') + ','.join(canon_obj(v) for v in o) + ']'
    return '%s:%r' % (type(o).__name__, o)


def canon_fast(o):
    """Same purpose as canon_obj (typed: 2, 2.0, True, "2" all differ; dict order ignored) through the C json encoder;
    falls back to canon_obj for anything json cannot sort or encode."""
    try:
        return json.dumps(o, sort_keys=True, allow_nan=True, separators=(',', ':'))
    except (TypeError, ValueError):
        return canon_obj(o)


def digest(text):
    return hashlib.sha1(text.encode('utf-8', 'backslashreplace')).hexdigest()[:20]


def cache_labels(conc):
    return sorted(conc._cache.keys())


def state_key(conc):
    """Returns (state key, description key, raw description)."""
    raw = conc.raw()
    # the order of the component list carries no meaning for the interface (look-ups go through ids) and the order the
    # real constructor produces for a replicated configuration depends on string hashing: fingerprint it as a set
    view_of = dict(raw)
    if isinstance(raw.get('components'), list):
        view_of['components'] = sorted(canon_fast(c) for c in raw['components'])
    dkey = digest(canon_fast(view_of))
    try:
        comps = conc._flowir['components']
        view = conc._component_dictionary
        ok = len(view) == len(comps) and all(
            (c.get('stage'), c.get('name')) in view and view[(c.get('stage'), c.get('name'))] is c for c in comps)
    except (AttributeError, KeyError, TypeError) as e:
        raise HarnessError('FlowIRConcrete internals changed, cannot fingerprint the look-up view: %r' % (e,))
    cache = []
    for label in cache_labels(conc):
        cache.append('%s=%s' % (label, digest(canon_fast(conc._cache[label]))))
    return digest('%s|%s|view:%s|%s' % (conc.active_platform, dkey, 'ok' if ok else 'diverged', ';'.join(cache))), dkey, raw


# ------------------------------------------------------------------------------------------- building live objects
_SHELLS = {}      # spec name -> (conf, initial raw)   (per process)
_SHELL_DIGEST = {}
_SHELL_NOTES = []
_EXPECT = {}      # (active, description key) -> {pair: ('ok', value) | ('raised', cls)}   (per process memo)
_EXPECT_MAX = 2000


def _shell(spec):
    """The real FlowIRExperimentConfiguration constructor is run once per process and document; later fresh objects
    re-use the wrapper with a fresh FlowIRConcrete built from the constructor's resulting description. The equivalence
    of the two (same canonical state, hence same future) is verified here."""
    hit = _SHELLS.get(spec['name'])
    if hit is not None:
        return hit
    from experiment.model.frontends.flowir import FlowIRConcrete
    from experiment.model.conf import FlowIRExperimentConfiguration
    import copy
    conf = FlowIRExperimentConfiguration(
        path=None, platform=spec['active'], variable_files=None, system_vars=None, is_instance=False,
        createInstanceFiles=False, primitive=spec['primitive'],
        concrete=FlowIRConcrete(copy.deepcopy(spec['doc']), spec['active'], {}), updateInstanceFiles=False,
        validate=False)
    conc = conf.get_flowir_concrete(return_copy=False)
    if not isinstance(conc, FlowIRConcrete):
        raise HarnessError('could not build the initial configuration for %s' % spec['name'])
    key0, _, raw0 = state_key(conc)
    # the constructor may leave entries in the cache (it resolves components while it checks the workflow): a fresh
    # object is brought to the same state by the same cached queries
    warm = []
    for label in cache_labels(conc):
        # which cached query produces this entry is found by trying them (the label format is the implementation's)
        for cid, p in pairs_of(spec):
            probe = FlowIRConcrete(copy.deepcopy(raw0), spec['active'], {})
            try:
                probe.get_component_configuration(cid, include_default=True, platform=p)
            except Exception:
                continue
            if label in cache_labels(probe) and (p, cid) not in warm:
                warm.append((p, cid))
                break
    fresh = FlowIRConcrete(copy.deepcopy(raw0), spec['active'], {})
    _warm_up(fresh, warm)
    if state_key(fresh)[1] != state_key(conc)[1] or fresh.active_platform != conc.active_platform \
            or conc._documents != {}:
        raise HarnessError('a fresh FlowIRConcrete built from the constructor\'s description is not equivalent to the '
                           'object the FlowIRExperimentConfiguration constructor holds (%s)' % spec['name'])
    if state_key(fresh)[0] != key0:
        # same description, but the constructor's cache content could not be reproduced with cached queries: start
        # from the entries that could (the oracle still judges every entry of every state that is explored)
        _SHELL_NOTES.append('the cache the constructor leaves for %s is not reproduced exactly' % spec['name'])
    _SHELLS[spec['name']] = (conf, raw0, warm)
    _SHELL_DIGEST[spec['name']] = digest(canon_obj(raw0))
    return conf, raw0, warm


def _warm_up(conc, warm):
    for platform, cid in warm:
        try:
            conc.get_component_configuration(cid, include_default=True, platform=platform)
        except Exception as e:
            raise HarnessError('cannot reproduce the cache entry the constructor left for %r on %s: %r' % (cid, platform, e))


def fresh(spec):
    from experiment.model.frontends.flowir import FlowIRConcrete
    conf, raw0, warm = _shell(spec)
    conf._concrete = FlowIRConcrete(raw0, spec['active'], {})   # the constructor deep-copies its argument
    if warm:
        _warm_up(conf._concrete, warm)
    return conf


# flavours of the query that by-pass the cache: (name, keyword arguments)
FLAVOURS = (('raw', {'raw': True, 'include_default': True}),       # what getOptionForNode asks
            ('nodefaults', {}),                                    # include_default=False (the method's defaults)
            # what store_unreplicated_flowir_to_disk / ccommand ask: no built-in defaults underneath the blueprints
            ('rawnofill', {'raw': True, 'include_default': True, 'inject_missing_fields': False}))


# query MODES that are more lenient than the regular one; interleaved with regular queries on one object they must not
# influence each other: (name, keyword arguments)
MODES = (('primitive', {'include_default': True, 'is_primitive': True}),
         ('lenient', {'include_default': True, 'ignore_convert_errors': True}))
_EXPECT_MODES = {}


def expected_modes(spec, raw, dkey, active):
    mk = (active, dkey)
    hit = _EXPECT_MODES.get(mk)
    if hit is not None:
        return hit
    from experiment.model.frontends.flowir import FlowIRConcrete
    out = {}
    for cid, p in pairs_of(spec):
        for mname, kw in MODES:
            try:
                scratch = FlowIRConcrete(raw, active, {})
            except Exception as e:
                out[(cid, p, mname)] = ('unbuildable', type(e).__name__)
                continue
            try:
                out[(cid, p, mname)] = ('ok', scratch.get_component_configuration(cid, platform=p, **kw))
            except Exception as e:
                out[(cid, p, mname)] = ('raised', type(e).__name__)
    if len(_EXPECT_MODES) >= _EXPECT_MAX:
        _EXPECT_MODES.clear()
    _EXPECT_MODES[mk] = out
    return out


def pairs_of(spec):
    cids = [tuple(c) for c in spec['comps']] + [(spec['add']['stage'], spec['add']['name'])]
    return [(cid, p) for cid in cids for p in plats(spec)]


def expected_for(spec, raw, dkey, active):
    """The right-hand side of the property: every pair asked on an object built from scratch from `raw`."""
    mk = (active, dkey)
    hit = _EXPECT.get(mk)
    if hit is not None:
        return hit
    from experiment.model.frontends.flowir import FlowIRConcrete
    out = {}
    for cid, p in pairs_of(spec):
        try:
            scratch = FlowIRConcrete(raw, active, {})
        except Exception as e:
            out[(cid, p)] = ('unbuildable', type(e).__name__)
            continue
        try:
            out[(cid, p)] = ('ok', scratch.get_component_configuration(cid, include_default=True, platform=p))
        except Exception as e:
            out[(cid, p)] = ('raised', type(e).__name__)
    # the flavours that are never cached, asked on the active platform for the two mutable components
    for cid in [tuple(c) for c in spec['comps']]:
        for fname, kw in FLAVOURS:
            try:
                scratch = FlowIRConcrete(raw, active, {})
            except Exception as e:
                out[(cid, active, fname)] = ('unbuildable', type(e).__name__)
                continue
            try:
                out[(cid, active, fname)] = ('ok', scratch.get_component_configuration(
                    cid, platform=active, **kw))
            except Exception as e:
                out[(cid, active, fname)] = ('raised', type(e).__name__)
    if len(_EXPECT) >= _EXPECT_MAX:
        _EXPECT.clear()
    _EXPECT[mk] = out
    return out


# ----------------------------------------------------------------------------------------------------------- oracle
def scramble(o):
    """Changes every part of a returned configuration in place (nested containers are mutated, not replaced)."""
    if isinstance(o, dict):
        for k in list(o):
            if isinstance(o[k], (dict, list)):
                scramble(o[k])
            else:
                o[k] = 'SCRAMBLED'
        o['__scrambled__'] = True
    elif isinstance(o, list):
        for i, v in enumerate(o):
            if isinstance(v, (dict, list)):
                scramble(v)
            else:
                o[i] = 'SCRAMBLED'
        o.append('__scrambled__')


def diff(a, b, path='', out=None, limit=6):
    out = [] if out is None else out
    if len(out) >= limit:
        return out
    if isinstance(a, dict) and isinstance(b, dict):
        for k in sorted(set(a) | set(b), key=repr):
            if k not in a:
                out.append('%s.%s: missing in live, scratch=%r' % (path, k, b[k]))
            elif k not in b:
                out.append('%s.%s: live=%r, missing in scratch' % (path, k, a[k]))
            else:
                diff(a[k], b[k], '%s.%s' % (path, k), out, limit)
            if len(out) >= limit:
                break
    elif isinstance(a, list) and isinstance(b, list) and len(a) == len(b):
        for i, (x, y) in enumerate(zip(a, b)):
            diff(x, y, '%s[%d]' % (path, i), out, limit)
    elif a != b or type(a) is not type(b):
        out.append('%s: live=%r scratch=%r' % (path, a, b))
    return out


def last_mutator(history):
    for op in reversed(history):
        if op[0] in MUTATORS:
            return op[0]
    return 'none'


def platform_sections(raw, p):
    """Which sections the description holds for the variables of platform p (part of the failure shape)."""
    try:
        sec = raw.get('variables', {}).get(p)
        return 'absent' if sec is None else ('+'.join(sorted(str(k) for k in sec)) or 'empty')
    except Exception:
        return 'unreadable'


def judge(col, sink, spec, history, raw, got, exp, pair, phase, was_cached):
    """Compares one observation with the from-scratch expectation. Returns True when it agrees.
    Failures go to `sink` (a list of dicts with the arguments of Collector.fail)."""
    if exp[0] == 'unbuildable':
        col.outcome('pair:scratch-unbuildable:%s' % exp[1])
        return True
    if got[0] == exp[0] and got[1] == exp[1] and (got[0] != 'ok' or canon_fast(got[1]) == canon_fast(exp[1])):
        # the second clause: 2 / 2.0 / True compare equal in python but are different values of a configuration
        return True
    cid, p = pair[0], pair[1]
    flavour = pair[2] if len(pair) > 2 else 'resolved'
    where = 'get_component_configuration(%s, %s, platform=%s)' % (
        _ref(cid), {'resolved': 'include_default=True', 'raw': 'raw=True, include_default=True',
                    'nodefaults': 'include_default=False',
                    'rawnofill': 'raw=True, include_default=True, inject_missing_fields=False',
                    'primitive': 'include_default=True, is_primitive=True',
                    'lenient': 'include_default=True, ignore_convert_errors=True',
                    'resolved-after-modes': 'include_default=True [asked after validate() and the is_primitive=True / '
                                            'ignore_convert_errors=True queries of the same component]'}[flavour], p)
    cached = 'cached' if was_cached else 'uncached'
    live_r = 'ok' if got[0] == 'ok' else got[1]
    scratch_r = 'ok' if exp[0] == 'ok' else exp[1]
    if phase == 'description-after-queries':
        kind = 'copy-leak-into-description'
        why = ('read-only calls (queries of every flavour whose returned dicts the caller then changed, instance()) '
               'changed the description itself: %s asked on a FlowIRConcrete built from raw() now differs from what '
               'it was before them' % where)
    elif phase != 'first':
        kind = 'copy-leak'
        why = ('%s answered correctly, the caller changed the returned dict, and the %s query then returned a different '
               'configuration' % (where, phase))
    elif got[0] == 'ok' and exp[0] == 'ok':
        kind = 'stale-value'
        why = '%s differs from the same query on a FlowIRConcrete built from scratch from raw()' % where
    elif got[0] == 'ok':
        kind = 'live-answers-scratch-raises'
        why = '%s returns a configuration but the same query from scratch raises %s' % (where, exp[1])
    elif exp[0] == 'ok':
        kind = 'live-raises-scratch-answers'
        why = '%s raises %s but the same query from scratch returns a configuration' % (where, got[1])
    else:
        kind = 'different-error'
        why = '%s raises %s, from scratch it raises %s' % (where, got[1], exp[1])
    if got[0] == 'ok' and exp[0] == 'ok':
        detail = diff(got[1], exp[1])
        fields = sorted({d.split(':')[0].strip('.').split('.')[0] for d in detail})
    else:
        detail = ['live=%s scratch=%s' % (live_r, scratch_r)]
        fields = []
    sections = platform_sections(raw, p)
    sig = '%s:%s:%s:live=%s:scratch=%s:platform=%s:variables-sections=%s:fields=%s:after-%s' % (
        kind, flavour, cached, live_r, scratch_r, p, sections, ','.join(fields) or '-', last_mutator(history))
    col.outcome('FAIL:' + kind)
    sink.append({
        'case': {'init': spec['name'], 'history': [list(op) for op in history]},
        'why': '%s [%s entry, history of %d operations]: %s' % (why, cached, len(history), '; '.join(detail)),
        'observed': {'pair': [list(cid), p], 'flavour': flavour, 'phase': phase, 'kind': kind,
                     'cached_before': was_cached,
                     'live': live_r, 'scratch': scratch_r, 'diff': detail, 'last_mutator': last_mutator(history),
                     'platform_variables_sections': sections},
        'sig': sig})
    return False


def _ask(conc, cid, p, kw=None):
    try:
        if kw is not None:
            return 'ok', conc.get_component_configuration(cid, platform=p, **kw)
        # the active platform is asked implicitly (platform=None), the other one explicitly
        return 'ok', conc.get_component_configuration(cid, include_default=True,
                                                      platform=None if p == conc.active_platform else p)
    except HarnessError:
        raise
    except Exception as e:
        return 'raised', type(e).__name__


def _label(p, cid):
    return 'component:%s:stage%s:%s' % (p, cid[0], cid[1])


def oracle(col, sink, spec, conf, history, raw, dkey):
    """Full differential check of the object `conf` currently holds. Perturbs the object (fills its cache)."""
    conc = conf.get_flowir_concrete(return_copy=False)
    exp = expected_for(spec, raw, dkey, conc.active_platform)
    labels = set(cache_labels(conc))
    # The copy-leak rounds on entries the oracle itself has just filled and the cache-by-passing flavours exercise code
    # paths that do not depend on how the state was reached: they run after histories of length <= FULL_ORACLE_DEPTH;
    # entries that the HISTORY left in the cache get the copy-leak rounds at every depth.
    full = len(history) <= FULL_ORACLE_DEPTH
    for cid, p in pairs_of(spec):
        was_cached = _label(p, cid) in labels
        e = exp[(cid, p)]
        col.count('oracle_comparisons')
        got = _ask(conc, cid, p)
        if not judge(col, sink, spec, history, raw, got, e, (cid, p), 'first', was_cached):
            continue
        if e[0] == 'unbuildable':
            continue
        col.outcome('pair:%s:%s' % ('equal' if got[0] == 'ok' else 'both-raise-' + got[1],
                                    'cached' if was_cached else 'uncached'))
        for phase in ('second', 'third'):
            if got[0] != 'ok' or not (full or was_cached):
                break
            scramble(got[1])
            got = _ask(conc, cid, p)
            col.count('oracle_comparisons')
            if not judge(col, sink, spec, history, raw, got, e, (cid, p), phase, was_cached):
                break
    # now that every cache entry that can exist is filled: the flavours that must by-pass the cache
    p = conc.active_platform
    for cid in ([tuple(c) for c in spec['comps']] if full else []):
        for fname, kw in FLAVOURS:
            e = exp[(cid, p, fname)]
            if e[0] == 'unbuildable':
                continue
            col.count('oracle_comparisons')
            got = _ask(conc, cid, p, kw)
            if not judge(col, sink, spec, history, raw, got, e, (cid, p, fname), 'first', _label(p, cid) in labels):
                continue
            col.outcome('flavour:%s:%s' % (fname, 'equal' if got[0] == 'ok' else 'both-raise-' + got[1]))
            if got[0] == 'ok':
                scramble(got[1])     # a leak shows in the next query or in the description check below
    # the other read-only view of the configuration: the instance description for each platform (its value is not
    # judged here, only that producing it leaves the configuration alone)
    for p in (plats(spec) if full else ()):
        try:
            conc.instance(platform=p, ignore_errors=True)
            col.outcome('instance:produced')
        except HarnessError:
            raise
        except Exception as e:
            col.outcome('instance:raised-%s' % type(e).__name__)
    # neither the scrambled dicts nor the read-only calls may have changed the description: what a from-scratch object
    # answers for the description as it is NOW must be what it answered before (getters may add empty sections, which
    # is why descriptions are not compared literally)
    if canon_fast(conc.raw()) == canon_fast(raw):
        return
    _, dkey2, raw2 = state_key(conc)
    if dkey2 != dkey:
        col.outcome('description-touched-by-queries')
        exp2 = expected_for(spec, raw2, dkey2, conc.active_platform)
        for k in exp:
            if exp[k] != exp2[k] and exp[k][0] != 'unbuildable':
                judge(col, sink, spec, history, raw, exp2[k], exp[k], k, 'description-after-queries', False)
                break


def mode_pass(col, sink, spec, history):
    """Second replay of the history: the lenient modes are asked BEFORE the regular query of each (component, platform),
    after validate() (which queries every component in primitive mode). Each answer must be what a from-scratch object
    answers to the same call."""
    conf = fresh(spec)
    for op in history:
        apply_op(spec, conf, op)
    conc = conf.get_flowir_concrete(return_copy=False)
    _, dkey, raw = state_key(conc)
    exp = expected_for(spec, raw, dkey, conc.active_platform)
    expm = expected_modes(spec, raw, dkey, conc.active_platform)
    labels = set(cache_labels(conc))
    try:
        conc.validate()
        col.outcome('validate:returned')
    except HarnessError:
        raise
    except Exception as e:
        col.outcome('validate:raised-%s' % type(e).__name__)
    for cid, p in pairs_of(spec):
        was_cached = _label(p, cid) in labels
        for mname, kw in MODES:
            col.count('oracle_comparisons')
            got = _ask(conc, cid, p, kw)
            if judge(col, sink, spec, history, raw, got, expm[(cid, p, mname)], (cid, p, mname), 'first', was_cached):
                col.outcome('mode:%s:%s' % (mname, 'equal' if got[0] == 'ok' else 'both-raise-' + got[1]))
        col.count('oracle_comparisons')
        got = _ask(conc, cid, p)
        if judge(col, sink, spec, history, raw, got, exp[(cid, p)], (cid, p, 'resolved-after-modes'), 'first', was_cached):
            col.outcome('mode:regular-after-modes:%s' % ('equal' if got[0] == 'ok' else 'both-raise-' + got[1]))


def run_history(col, sink, spec, history, judged=True):
    """Replays `history` on a fresh object; judges the last operation (when it is a query) and the final state with
    the oracle. Returns the canonical key of the state reached (taken before the oracle perturbs the object).
    judged=False only computes the key (used for histories another stratum of the search has judged already)."""
    if not judged:
        conf = fresh(spec)
        for op in history:
            apply_op(spec, conf, op)
        col.count('transitions_of_the_typed_stratum_judged_in_the_core_stratum')
        return state_key(conf.get_flowir_concrete(return_copy=False))[0]
    conf = fresh(spec)
    last = ('ok', None)
    pre_labels = ()
    exp = None
    for n, op in enumerate(history):
        final = n == len(history) - 1
        if final:
            conc = conf.get_flowir_concrete(return_copy=False)
            pre_labels = cache_labels(conc)
            if op[0] == 'query':
                # the interleaved query itself is an observation: judge it against the description it is asked on
                _, dk, rw = state_key(conc)
                exp = expected_for(spec, rw, dk, conc.active_platform)[(tuple(spec['comps'][op[1]]), op[2])]
        last = apply_op(spec, conf, op)
        if final and op[0] == 'query':
            cid = tuple(spec['comps'][op[1]])
            col.count('oracle_comparisons')
            judge(col, sink, spec, history, rw, last, exp, (cid, op[2]), 'first', _label(op[2], cid) in pre_labels)
    conc = conf.get_flowir_concrete(return_copy=False)
    key, dkey, raw = state_key(conc)
    post_labels = cache_labels(conc)
    if history:
        op = history[-1]
        if op[0] == 'query':
            lab = 'query:%s:%s' % ('answered' if last[0] == 'ok' else 'raised-' + last[1],
                                   ('hit' if list(post_labels) == list(pre_labels) else 'fill') if last[0] == 'ok'
                                   else 'nofill')
        else:
            lab = 'mutator:%s:%s' % ('done' if last[0] == 'ok' else 'raised-' + last[1],
                                     'cache-kept' if list(post_labels) == list(pre_labels) else
                                     ('cache-cleared' if not post_labels else 'cache-partly-invalidated'))
        col.outcome(lab)
    oracle(col, sink, spec, conf, history, raw, dkey)
    if len(history) <= FULL_ORACLE_DEPTH:
        mode_pass(col, sink, spec, history)
    col.evaluated()
    col.traces += 1
    col.state(key)
    kinds = {op[0] for op in history}
    if 'query' in kinds and kinds & set(MUTATORS):
        col.nontriv(digest(spec['name'] + canon_obj(history)))
    return key


# ------------------------------------------------------------------------------------- failure bookkeeping
KEEP_PER_CLASS = 2


def _fail_order(f):
    h = f['case']['history']
    return (len(h), canon_obj(h), canon_obj(f['observed']['pair']), f['observed']['phase'])


def compact(failures):
    """Keeps the KEEP_PER_CLASS shortest cases of every failure class (= sig, which encodes kind, entry cached or
    not, both results, platform, the platform's variable sections, differing fields and the last mutator).
    Returns (kept, number dropped)."""
    groups = {}
    for f in failures:
        groups.setdefault((f['case']['init'], f['sig']), []).append(f)
    kept = []
    for k in sorted(groups):
        g = sorted(groups[k], key=_fail_order)
        kept.extend(g[:KEEP_PER_CLASS])
    return kept, len(failures) - len(kept)


# -------------------------------------------------------------------------------------------------------------- BFS
_FRONTIER = []    # list of (spec name, tuple of op indices)      (set in the parent, inherited by forked workers)
_SEEN = set()


def _check_shells_untouched():
    for name, (conf, raw0, _) in _SHELLS.items():
        if digest(canon_obj(raw0)) != _SHELL_DIGEST[name]:
            raise HarnessError('the initial description of %s was modified during the search' % name)


def expand_worker(col, item, tier, seed):
    lo, hi, outfile, typed = item
    found = {}
    sink = []
    for name, hist in _FRONTIER[lo:hi]:
        spec = SPECS[name]
        ops = ops_for(spec, typed)
        history = [ops[i] for i in hist]
        for j, op in enumerate(ops):
            h = history + [op]
            if typed and len(h) <= DEPTH[tier] and not any(o[-1] == 'eq' for o in h):
                key = run_history(col, sink, spec, h, judged=False)     # the core stratum executes and judges it
            else:
                key = run_history(col, sink, spec, h)
                col.transitions += 1
            sk = (name, key)
            if sk in _SEEN:
                continue
            h2 = hist + (j,)
            if sk not in found or h2 < found[sk]:
                found[sk] = h2
    _check_shells_untouched()
    total = len(sink)
    kept, _ = compact(sink)
    with open(outfile, 'wb') as f:
        pickle.dump((found, kept, total), f, protocol=pickle.HIGHEST_PROTOCOL)


def bfs(ctx, sink, names, depth, scratch, tag, typed=False):
    """Level-synchronous BFS. Returns (completed depth, total number of failing observations)."""
    global _FRONTIER, _SEEN
    _SEEN = set()
    _FRONTIER = []
    total_fail = 0
    for name in names:
        n0 = len(sink)
        key = run_history(ctx, sink, SPECS[name], [])
        total_fail += len(sink) - n0
        _SEEN.add((name, key))
        _FRONTIER.append((name, ()))
        ctx.sample({'init': name, 'history': []})
    done = 0
    for level in range(1, depth + 1):
        n = len(_FRONTIER)
        chunk = max(1, min(48, n // (ctx.jobs * 6) + 1))
        items = []
        for k, lo in enumerate(range(0, n, chunk)):
            items.append((lo, min(n, lo + chunk), os.path.join(scratch, '%s-L%d-%d.pkl' % (tag, level, k)), typed))
        ctx.pmap('verif.props.c08', 'expand_worker', items)
        merged = {}
        for _, _, path, _ in items:
            if not os.path.exists(path):
                raise HarnessError('worker result %s is missing' % path)
            with open(path, 'rb') as f:
                part, fails, nfail = pickle.load(f)
            os.remove(path)
            total_fail += nfail
            sink.extend(fails)
            for sk, h in part.items():
                if sk not in merged or h < merged[sk]:
                    merged[sk] = h
        sink[:] = compact(sink)[0]
        _SEEN |= set(merged)
        _FRONTIER = sorted((sk[0], h) for sk, h in merged.items())
        done = level
        ctx.count('%s_new_states_depth_%d' % (tag, level), len(merged))
        if _FRONTIER:
            name, h = _FRONTIER[len(_FRONTIER) // 2]
            ops = ops_for(SPECS[name], typed)
            ctx.sample({'init': name, 'history': [ops[i] for i in h]})
        if not _FRONTIER:
            break
    _FRONTIER = []
    _SEEN = set()
    return done, total_fail


def run(ctx):
    from verif.gen.pkg import scratch_dir
    core, swapped = spec_names(ctx.tier)
    sink = []
    total = 0
    with scratch_dir('c08-') as d:
        done, nf = bfs(ctx, sink, core, DEPTH[ctx.tier], d, 'core')
        total += nf
        ctx.count('completed_depth', done)
        ctx.count('alphabet_size_max', max(len(ops_for(SPECS[n])) for n in core))
        if swapped:
            done2, nf = bfs(ctx, sink, swapped, DEPTH_SWAPPED[ctx.tier], d, 'swapped')
            total += nf
            ctx.count('completed_depth_swapped_platform', done2)
        # the alphabet extended with the ==-equal / different-type values
        done3, nf = bfs(ctx, sink, core, DEPTH_TYPED[ctx.tier], d, 'typed', typed=True)
        total += nf
        ctx.count('completed_depth_typed_values_alphabet', done3)
        ctx.count('alphabet_size_typed_max', max(len(ops_for(SPECS[n], True)) for n in core))
    kept, _ = compact(sink)
    # one representative pair of cases per failure class is handed to the runner; the rest is only counted
    for f in sorted(kept, key=lambda f: (_fail_order(f), f['sig'])):
        ctx.fail(f['case'], f['why'], f['observed'], sig=f['sig'])
    ctx.count('failing_observations_total', total)
    ctx.count('failing_observations_of_an_already_represented_class', total - len(kept))
    for n in _SHELL_NOTES:
        ctx.note('NOTE: ' + n)


def replay(ctx, case):
    spec = SPECS.get(case['init'])
    if spec is None:
        raise HarnessError('unknown initial document %r' % (case['init'],))
    sink = []
    run_history(ctx, sink, spec, [list(op) for op in case['history']])
    for f in sink:
        ctx.fail(f['case'], f['why'], f['observed'], sig=f['sig'])


# ------------------------------------------------------------------------------------------------- known findings
def _sel_platform_created_by_global_variable(f):
    """set_platform_global_variable on a platform that has no variables yet creates variables[P] = {'global': ...}
    without a 'stages' section; every later query for that platform raises FlowIRInconsistency('Missing field stages')
    on the live object although a FlowIRConcrete built from raw() answers (or raises something else)."""
    o = f.get('observed') or {}
    case = f.get('case') or {}
    if o.get('kind') not in ('live-raises-scratch-answers', 'different-error'):
        return False
    if o.get('live') != 'FlowIRInconsistency' or o.get('cached_before'):
        return False
    if o.get('platform_variables_sections') != 'global':
        return False
    platform = (o.get('pair') or [None, None])[1]
    hist = case.get('history') or []
    created = [i for i, op in enumerate(hist) if op[0] == 'setpglobal' and op[1] == platform]
    if not created:
        return False
    # nothing in the history may have given the platform a 'stages' section
    return not any(op[0] == 'setpstage' and op[2] == platform for op in hist)


def _sel_lenient_conversion_result_served_to_strict_query(f):
    """get_component_configuration(..., ignore_convert_errors=True) stores its partially converted result in the cache
    under the label of the regular query (ignore_convert_errors is not part of the caching condition); a later strict
    query of the same component/platform is served that result instead of raising
    FlowIRFailedComponentConvertType as a from-scratch object does."""
    o = f.get('observed') or {}
    case = f.get('case') or {}
    if o.get('kind') != 'live-answers-scratch-raises' or o.get('flavour') != 'resolved-after-modes':
        return False
    if o.get('live') != 'ok' or o.get('scratch') != 'FlowIRFailedComponentConvertType':
        return False
    spec = SPECS.get(case.get('init'))
    if spec is None:
        return False
    # the only component with an option that cannot be converted is c1 after it was re-added
    hist = [list(op) for op in (case.get('history') or [])]
    return ['add', 1] in hist and list((o.get('pair') or [None])[0] or []) == list(spec['comps'][1])


KNOWN_SELECTORS = {'platform_created_by_global_variable_lacks_stages': _sel_platform_created_by_global_variable,
                   'lenient_conversion_result_served_to_strict_query':
                       _sel_lenient_conversion_result_served_to_strict_query}
