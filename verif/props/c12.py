"""C12 — Task restarts stay within the configured policy.

Every (configuration, exit-reason sequence, restart-hook answer sequence) of the stated prefix tree is driven through the
REAL path ComponentState -> Controller.postMortemCheck -> _restartComponent -> ComponentState.restart -> Engine.restart ->
Engine.run under the controlled runtime (backend 'local', so the restart-hook protocol is used; the hook is a real
hooks/<file>.py whose Restart() pops its answer from the script).  One on-disk experiment hosts a batch of independent
components, one per case, to amortise the set-up.
"""
import itertools

from verif.core.runner import HarnessError, canon

PROPERTY = 'C12'
LEVEL = 'model_checking'
EXHAUSTIVE = True
RULE = ('(A) History enumeration on the real Controller.postMortemCheck/_restartComponent/ComponentState.restart/Engine.restart path: '
        'case = (maxRestarts, restartHookFile, restartHookOn incl. the empty list, shutdownOn, system-stability answer) x script. Scripts: '
        'every sequence over {ResourceExhausted, KnownIssue, SystemIssue, SubmissionFailed as a failed launch, SubmissionFailed '
        'reported by a task object} up to length L (3 quick / 4 thorough) followed by every terminal reason {Success, Killed, Cancelled, '
        'UnknownIssue, SystemIssue}, plus long runs X^k (k up to 8) and alternations that cross the 5-resubmission cap and '
        'maxRestarts=3; restart-hook answers: all-positive and every single deviation (one of 10 other answers at one position) '
        'for scripts of length <=1 (quick) / <=2 (thorough); after the final state one more restart request is issued (it must be '
        'refused and launch nothing). (B) a repeating observer through the real controller stage loop: last execution x restarted '
        'execution over {ResourceExhausted, KnownIssue, Success, SystemIssue} x {ResourceExhausted, Success, KnownIssue, restart '
        'submission fails after 12 s} x retries x restartHookOn x maxRestarts. (C) an external kill at every scheduling step between '
        'a restart and the exit of the restarted task. The monitor checks every relaunch against the policy of the statement. '
        'distinct = distinct (config, script, hook answers); non-trivial = script has >=1 non-terminal step.')
ASSUMPTIONS = [
    'controlled-runtime assumptions of C01 (scripted task backend / clock / stability tracker); canonical schedule only: '
    'the restart policy is sequential per component (a batch of independent components shares one controller)',
    'in batch mode every non-success reason is on shutdownOn so that one component\'s failure does not stop the stage; the '
    'FAILED final state is covered by the single-component cases',
    'upper bounds only: the statement limits when a task MAY be started again; it does not require that it is',
]
MC_EXPLANATION = ('states = distinct (config, restart counter, resubmission counter, last reason) situations reached; transitions = '
                  'task executions (launch attempts) driven through the real restart path; traces_validated_against_impl = complete '
                  'controller executions (all traces are implementation traces)')

CONT = ['ResourceExhausted', 'KnownIssue', 'SystemIssue', 'SubmissionFailed', 'SubmissionFailed!']
TERM = ['Success', 'Killed', 'Cancelled', 'UnknownIssue', 'SystemIssue']
NONSUCCESS = ['KnownIssue', 'SystemIssue', 'SubmissionFailed', 'UnknownIssue', 'Killed', 'Cancelled', 'ResourceExhausted']
HOOK_OK = 'RestartContextRestartPossible'
HOOK_OTHERS = ['RestartContextHookNotAvailable', 'RestartContextRestartNotRequired', 'RestartContextRestartNotPossible',
               'RestartContextHookFailed', 'RestartContextRestartConditionsNotMet', 'raise', 'raise-ioerror', True, False, 'junk', None]

HOOK_SRC = '''
from verif.vsched.harness import H, ev

def Restart(workingDirectory, restarts, componentName, log, exitReason, exitCode):
    answers = H.hook_answers.get(componentName) or []
    a = answers.pop(0) if answers else 'RestartContextRestartPossible'
    ev('hook', ref='stage0.' + componentName, answer=repr(a), restarts=restarts, reason=exitReason)
    if a == 'raise':
        raise ValueError('scripted hook failure')
    if a == 'raise-ioerror':
        raise IOError('scripted hook io error')
    return a
'''


def configs(thorough):
    ms = [None, -1, 0, 1, 2, 3] if thorough else [None, -1, 0, 1, 3]
    files = ['unset', '', 'restart.py', 'custom.py', 'missing.py'] if thorough else ['unset', '', 'custom.py']
    # (SubmissionFailed may itself be listed as restartable: the cap on consecutive re-submissions still applies; it once
    # did not, fixed in /repo 0d7950c)
    ons = [None, ['KnownIssue', 'ResourceExhausted'], ['SystemIssue'], ['Success'], [], ['SubmissionFailed'],
           ['SubmissionFailed', 'ResourceExhausted']] if thorough else \
        [None, ['KnownIssue', 'ResourceExhausted'], [], ['SubmissionFailed', 'ResourceExhausted']]
    for m in ms:
        for f in files:
            for on in ons:
                yield {'maxRestarts': m, 'restartHookFile': f, 'restartHookOn': on}


def scripts(thorough):
    """yields (reasons, whether single hook-answer deviations are enumerated for it)"""
    L = 4 if thorough else 3     # (L = 5 was tried: 4 million cases, about 45 CPU-hours)
    LH = 2 if thorough else 1
    seen = set()

    def emit(reasons, hooks):
        k = canon([reasons, hooks])
        if k not in seen:
            seen.add(k)
            return True
        return False

    for l in range(0, L + 1):
        for body in itertools.product(CONT, repeat=l):
            for t in TERM:
                r = list(body) + [t]
                if emit(r, []):
                    yield r, (l <= LH)
    for x in ('ResourceExhausted', 'KnownIssue', 'SubmissionFailed', 'SubmissionFailed!', 'Success'):
        for k in range(4, 9):
            r = [x] * k + (['Success'] if x != 'Success' else ['Killed'])
            if emit(r, []):
                yield r, False
    longs = [['ResourceExhausted', 'SubmissionFailed'] * 4 + ['Success'],
             ['SubmissionFailed'] * 5 + ['ResourceExhausted'] + ['SubmissionFailed'] * 3 + ['Success'],
             ['SubmissionFailed'] * 3 + ['ResourceExhausted'] * 3 + ['SubmissionFailed'] * 3 + ['ResourceExhausted', 'Success'],
             ['ResourceExhausted'] * 3 + ['Killed'], ['ResourceExhausted'] * 2 + ['Cancelled'],
             ['SubmissionFailed'] * 6 + ['Killed'], ['KnownIssue', 'ResourceExhausted'] * 3 + ['Success'],
             ['SubmissionFailed', 'SubmissionFailed!'] * 4 + ['Success'], ['SubmissionFailed!'] * 3 + ['ResourceExhausted'] + ['SubmissionFailed!'] * 4 + ['Success']]
    for r in longs:
        if emit(r, []):
            yield r, False


def hook_variants(cfg, reasons, deviate):
    """All-positive answers, plus (if deviate) every single non-default answer at every hook call the policy can reach."""
    yield []
    if not deviate:
        return
    on, m = effective(cfg)
    calls = sum(1 for r in reasons if r in on)
    for j in range(calls):
        for a in HOOK_OTHERS:
            yield [HOOK_OK] * j + [a]


def make_doc(cases, batch_mode=True):
    comps = []
    for i, c in enumerate(cases):
        cfg = c['config']
        wa = {}
        if cfg['maxRestarts'] is not None:
            wa['maxRestarts'] = cfg['maxRestarts']
        if cfg['restartHookFile'] != 'unset':
            wa['restartHookFile'] = cfg['restartHookFile']
        if cfg['restartHookOn'] is not None:
            wa['restartHookOn'] = list(cfg['restartHookOn'])
        wa['shutdownOn'] = list(NONSUCCESS) if batch_mode else list(c.get('shutdownOn', []))
        comps.append({'name': 'k%d' % i, 'stage': 0, 'command': {'executable': 'ls', 'arguments': '/tmp'},
                      'resourceManager': {'config': {'backend': 'local'}}, 'workflowAttributes': wa})
    return {'components': comps}


def effective(cfg):
    on = cfg['restartHookOn'] if cfg['restartHookOn'] is not None else ['ResourceExhausted']
    m = cfg['maxRestarts']
    if m is None:
        # unlimited only when a hook file is named without a maximum
        m = -1 if cfg['restartHookFile'] not in ('unset', '') else 3
    return on, m


def judge(case, attempts, final_state, extra_launch_after_final):
    """attempts: list of reasons in order of task executions (SubmissionFailed for a failed launch).
    Returns list of (why, sig)."""
    cfg = case['config']
    on, m = effective(cfg)
    bad = []
    restarts = 0
    run_resub = 0
    for k in range(1, len(attempts)):
        prev = attempts[k - 1]
        if prev in ('Killed', 'Cancelled'):
            bad.append(('task started again after a %s task (attempt %d of %r)' % (prev, k + 1, attempts), 'C12:restart-after-%s' % prev.lower()))
        elif prev == 'SubmissionFailed':
            run_resub += 1
            if run_resub > 5:
                bad.append(('%d consecutive re-submissions after failed submissions (%r)' % (run_resub, attempts), 'C12:resubmission-cap'))
            continue
        elif prev in on:
            restarts += 1
            if m != -1 and restarts > m:
                bad.append(('%d restarts but the maximum is %d (maxRestarts=%r, hook file %r): %r' % (
                    restarts, m, cfg['maxRestarts'], cfg['restartHookFile'], attempts), 'C12:max-restarts'))
        else:
            bad.append(('task started again after exit reason %s which is not restartable (restartHookOn=%r): %r' % (
                prev, on, attempts), 'C12:restart-after-nonrestartable'))
        if prev != 'SubmissionFailed':
            run_resub = 0
    if final_state not in ('finished', 'failed', 'component_shutdown'):
        bad.append(('after the last task (%r) the component did not receive a final state: %r' % (attempts, final_state), 'C12:no-final-state'))
    return bad


class _Env:
    """One on-disk experiment per (config, shutdownOn); reused for every script of that config inside a worker."""
    cache = {}


def get_env(cfg, shutdown_on):
    from verif.vsched import harness as h, runtime as vrt
    from verif.gen.pkg import experiment_from_doc
    import tempfile
    key = canon([cfg, shutdown_on])
    if key in _Env.cache:
        return _Env.cache[key]
    if len(_Env.cache) > 40:
        drop_envs()
    h.install()
    rt = vrt.Runtime()
    vrt.set_runtime(rt)
    h.reset_class_state()
    location = tempfile.mkdtemp(prefix='c12-', dir='/dev/shm')
    doc = make_doc([{'config': cfg, 'shutdownOn': shutdown_on}], batch_mode=False)
    extra = {'hooks/__init__.py': '', 'hooks/restart.py': HOOK_SRC, 'hooks/custom.py': HOOK_SRC}
    exp = experiment_from_doc(doc, location, extra_files=extra, check_executables=False)
    job = exp._stages[0].jobWithName('k0')
    comp0 = h.M.workflow.ComponentState(job, exp.experimentGraph, create_engine=True)
    controller = h.M.control.Controller(exp)
    controller.initialise(exp._stages[0], h.FakeStatus())
    rt.teardown()
    env = {'exp': exp, 'job': job, 'controller': controller, 'location': location, 'keep': comp0}
    _Env.cache[key] = env
    return env


def drop_envs():
    import shutil
    for env in _Env.cache.values():
        shutil.rmtree(env['location'], ignore_errors=True)
    _Env.cache.clear()


def drive(case, stable=True, kill_at=None):
    """Sequential driver over the REAL restart path for one component. Returns (attempts, final_state, codes, steps)."""
    from verif.vsched import harness as h, runtime as vrt
    cfg = case['config']
    env = get_env(cfg, case.get('shutdownOn', []))
    rt = vrt.Runtime()
    vrt.set_runtime(rt)
    h.reset_class_state()
    h.STABLE.stable = stable
    h.H.on_launch = None
    ref = 'stage0.k0'
    h.H.script = {ref: [['LaunchOSError' if r == 'SubmissionFailed' else r.rstrip('!'), 0.0] for r in case['reasons']] + [['Success', 0.0]]}
    h.H.hook_answers = {'k0': list(case['hooks'])}
    h.H.outmode = {ref: 'never'}
    controller = env['controller']
    comp = h.M.workflow.ComponentState(env['job'], env['exp'].experimentGraph, create_engine=True)
    env['keep'] = comp
    steps = [0]
    kill_info = {}

    def pump(until, cap=4000):
        while not until():
            alts = h.alternatives(rt)
            if not alts:
                raise HarnessError('C12 driver: nothing enabled while waiting (%r)' % (case,))
            kind, obj = alts[0]
            if kind == 't':
                rt.run_thread(obj)
            elif kind == 'tick':
                rt.advance_to(obj)
            else:
                obj.finish()
            steps[0] += 1
            if steps[0] > cap * 50:
                raise HarnessError('C12 driver: step cap hit for %r' % (case,))

    try:
        done = []
        rt.spawn(lambda: (comp.run(), done.append(1)), 'drv:run')
        pump(lambda: done and comp.engine.exitReason() is not None)
        rounds = 0
        while True:
            rounds += 1
            if rounds > 60:
                break
            d2 = []
            st = comp.state
            rt.spawn(lambda: (controller.postMortemCheck(st, comp), d2.append(1)), 'drv:postmortem')
            pump(lambda: bool(d2))
            if comp.controllerState is not None:
                break
            # restart initiated: wait for the new task to exit
            if kill_at is not None and rounds == 1:
                # environment event: the engine is killed from outside `kill_at` scheduling steps after the restart
                n0 = steps[0]
                pump(lambda: comp.engine.exitReason() is not None or steps[0] - n0 >= kill_at)
                kill_info['alive_at_kill'] = comp.engine.isAlive()
                kill_info['launches_before_kill'] = sum(h.H.launches.values())
                kill_info['exits_before_kill'] = len([e for e in h.H.events if e['kind'] in ('exit', 'launch-failed')])
                kill_info['steps'] = steps[0] - n0
                if comp.engine.isAlive():
                    comp.engine.kill()
                    kill_info['killed'] = True
            pump(lambda: comp.engine.exitReason() is not None)
        if comp.controllerState is not None and kill_at is None:
            # a late restart request (e.g. a post-mortem handler that was still waiting) arrives after the component
            # received its final state: it must be refused and no task may start
            n_before = sum(h.H.launches.values()) + len([e for e in h.H.events if e['kind'] == 'launch-failed'])
            kill_info['events_before_late'] = len(h.H.events)
            d3 = []

            def _late():
                try:
                    kill_info['late_code'] = comp.restart(reason=comp.engine.exitReason())
                except Exception as e:  # noqa
                    kill_info['late_code'] = 'raised:%s' % type(e).__name__
                d3.append(1)

            rt.spawn(_late, 'drv:late-restart')
            pump(lambda: bool(d3))
            t0 = rt.now
            pump(lambda: not h.alternatives(rt) or rt.now - t0 > 90.0)
            kill_info['late_launches'] = sum(h.H.launches.values()) + len(
                [e for e in h.H.events if e['kind'] == 'launch-failed']) - n_before
            kill_info['late_final'] = comp.state
        attempts = []
        hook_calls = []
        for e in h.H.events[:kill_info.get('events_before_late')]:
            if e['kind'] == 'exit':
                attempts.append(e['reason'])
            elif e['kind'] == 'launch-failed':
                attempts.append('SubmissionFailed')
            elif e['kind'] == 'hook':
                hook_calls.append(e['answer'])
        kill_info['launches_total'] = sum(h.H.launches.values())
        return attempts, comp.state, hook_calls, steps[0], comp.engine.restarts, comp.engine.resubmissionAttempts(), rounds, list(rt.errors), kill_info
    finally:
        rt.teardown()


def run_case(col, case, stable=True):
    attempts, final_state, hook_calls, steps, restarts, resub, rounds, errors, ki = drive(case, stable)
    col.evaluated()
    col.traces += 1
    col.transitions += len(attempts)
    cc = dict(case, stable=stable)
    if len(case['reasons']) > 1:
        col.nontriv(cc)
    on, m = effective(case['config'])
    r = rs = 0
    for a in attempts:
        col.state((canon(case['config']), r, rs, a))
        if a == 'SubmissionFailed':
            rs += 1
        elif a in on:
            r += 1
    bad = judge(cc, attempts, final_state, False)
    if rounds > 60 and m == -1 and all(a in on or a == 'SubmissionFailed' for a in attempts):
        # unlimited restarts were asked for and every exit reason is one the component lists as restartable (e.g. restartHookOn
        # [Success] with a hook file and no maximum): the policy allows this to go on for ever; the driver stops after 60 rounds
        bad = [b for b in bad if b[1] != 'C12:no-final-state']
        col.count('cases_with_unlimited_restarts_cut_after_60_rounds')
    elif rounds > 60:
        bad.append(('the component kept restarting for more than 60 rounds: %r' % (attempts[:12],), 'C12:endless'))
    if ki.get('late_launches'):
        bad.append(('a restart request after the component received its final state started the task again (%d more '
                    'submission(s); the request returned %s; state afterwards %s)' % (
                        ki['late_launches'], ki.get('late_code'), ki.get('late_final')), 'C12:restart-after-final-state'))
    elif 'late_code' in ki and ki.get('late_final') not in ('finished', 'failed', 'component_shutdown'):
        bad.append(('after a refused late restart request the component lost its final state: %r' % (ki.get('late_final'),),
                    'C12:late-restart-lost-final-state'))
    if 'late_code' in ki:
        col.count('late_restart_requests_after_final_state')
    col.outcome('attempts=%d final=%s' % (len(attempts), final_state))
    for why, sig in bad:
        col.fail(cc, why, {'attempts': attempts, 'final': final_state, 'hook_calls': hook_calls,
                           'engine.restarts': restarts, 'engine.resubmissions': resub}, sig=sig)


def worker(col, item, tier, seed):
    cfg, shutdown_on, stable, lo, hi = item
    scr = list(scripts(tier == 'thorough'))
    if not stable:
        scr = [(r, False) for r, d in scr if len(r) <= 2]
    try:
        for reasons, deviate in scr[lo:hi]:
            for hooks in hook_variants(cfg, reasons, deviate):
                case = {'config': cfg, 'reasons': reasons, 'hooks': hooks, 'shutdownOn': shutdown_on}
                run_case(col, case, stable)
                if not col.samples:
                    col.sample(case)
    finally:
        drop_envs()


# ------------------------------------------------------------------ part C: an external kill racing a restart
def run_kill_case(col, case):
    """After the first restart has been initiated the engine is killed from outside at EVERY scheduling step between
    the restart and the exit of the restarted task; afterwards the controller's post-mortem decision runs. No task
    may be started after the kill."""
    base = drive(case, True)
    if len(base[0]) < 2:
        return
    k = 0
    while True:
        attempts, final_state, hook_calls, steps, restarts, resub, rounds, errors, ki = drive(case, True, kill_at=k)
        col.evaluated()
        col.traces += 1
        col.transitions += 1
        if not ki.get('killed'):
            break
        cc = dict(case, kill_at=k, part='kill')
        col.nontriv(cc)
        col.state(('kill', canon(case['config']), k, ki['launches_before_kill']))
        col.outcome('kill: launches before=%d exits before=%d total=%d final=%s' % (
            ki['launches_before_kill'], ki['exits_before_kill'], ki['launches_total'], final_state))
        # Judged only when the kill provably hit the restarted execution: either the restarted task had not been created
        # yet (one launch, one exit so far) or it was running (two launches, one exit). If the restarted task had already
        # exited by itself the kill merely raced its exit and the exit reason of that task decides (generic monitor).
        # A launch that was already in flight inside Engine.run when the kill arrived may still create its task; the engine
        # then kills it at once (documented case 2B of Engine.run). That is tolerated: at most one launch after the kill and
        # its task must end Killed/Cancelled.
        after = ki['launches_total'] - ki['launches_before_kill']
        in_flight_ok = after == 1 and attempts and attempts[-1] in ('Killed', 'Cancelled')
        if ki['exits_before_kill'] == 1 and after >= 1 and not in_flight_ok:
            col.fail(cc, 'a task was started after the engine had been killed from outside (%d launch(es) and %d exit(s) before the kill, %d launches in total; attempts %r)' % (
                ki['launches_before_kill'], ki['exits_before_kill'], ki['launches_total'], attempts),
                {'attempts': attempts, 'final': final_state, 'kill': ki}, sig='C12:restart-after-external-kill')
        if final_state not in ('finished', 'failed', 'component_shutdown'):
            col.fail(cc, 'after an external kill the component did not receive a final state: %r' % (final_state,),
                     {'attempts': attempts, 'kill': ki}, sig='C12:no-final-state-after-kill')
        k += 1
        if k > 400:
            raise HarnessError('C12 kill driver: more than 400 positions')


def worker_kill(col, item, tier, seed):
    try:
        for case in item:
            run_kill_case(col, case)
    finally:
        drop_envs()


def kill_cases(thorough):
    cfgs = [{'maxRestarts': None, 'restartHookFile': 'unset', 'restartHookOn': None},
            {'maxRestarts': None, 'restartHookFile': 'custom.py', 'restartHookOn': ['KnownIssue', 'ResourceExhausted']},
            {'maxRestarts': 1, 'restartHookFile': '', 'restartHookOn': None}]
    scr = [['ResourceExhausted', 'Success'], ['ResourceExhausted', 'ResourceExhausted', 'Success'], ['SubmissionFailed', 'Success'],
           ['SubmissionFailed!', 'Success']]
    if thorough:
        scr += [['KnownIssue', 'Success'], ['ResourceExhausted', 'KnownIssue', 'Success']]
    for c in cfgs:
        for r in scr:
            yield {'config': c, 'reasons': r, 'hooks': [], 'shutdownOn': []}


# ------------------------------------------------------------------ part B: repeating components (RepeatingEngine.restart)
def rep_cases(thorough):
    lasts = ['ResourceExhausted', 'KnownIssue', 'Success', 'SystemIssue']
    # LaunchFails: the restart submission itself raises, after the backend kept the caller waiting for 12 s (a submission
    # that fails at once is never noticed by the component - its state stream only carries changes - so nothing asks again)
    seconds = ['ResourceExhausted', 'Success', 'KnownIssue', 'LaunchFails']
    for x in lasts:
        for y in seconds:
            for retries in ((0, 1) if not thorough else (0, 1, 2)):
                for on in (None, ['KnownIssue', 'ResourceExhausted']):
                    for m in ((None, 0, 1) if not thorough else (None, -1, 0, 1, 3)):
                        yield {'last': x, 'second': y, 'retries': retries, 'restartHookOn': on, 'maxRestarts': m}


def run_rep_case(col, c):
    """A same-stage observer whose executions after its producer finished exit with `last`; if it is restarted the
    restarted task exits with `second`. Driven through the real Controller stage loop."""
    from verif.vsched import harness as h, runtime as vrt
    wa = {'repeatInterval': 7.0, 'repeatRetries': c['retries'], 'shutdownOn': list(NONSUCCESS)}
    if c['restartHookOn'] is not None:
        wa['restartHookOn'] = list(c['restartHookOn'])
    if c['maxRestarts'] is not None:
        wa['maxRestarts'] = c['maxRestarts']
    doc = {'components': [
        {'name': 'P', 'stage': 0, 'command': {'executable': 'ls', 'arguments': '/tmp'},
         'resourceManager': {'config': {'backend': 'local'}}},
        {'name': 'Obs', 'stage': 0, 'command': {'executable': 'ls', 'arguments': 'P:ref'}, 'references': ['P:ref'],
         'resourceManager': {'config': {'backend': 'local'}}, 'workflowAttributes': wa,
         'variables': {'check-producer-output': 'false'}}]}
    # the observer runs once while P lives (Success), then P finishes; afterwards every repeat exits with `last`;
    # restart launches are recognised by the way the task is created (no outputFile argument)
    script = {'stage0.P': [['Success', 12.0]], 'stage0.Obs': [['Success', 0.0], [c['last'], 0.0]]}
    scn = h.Scenario(doc, script=script, extra_files={'hooks/__init__.py': '', 'hooks/restart.py': HOOK_SRC})
    h.install()
    h.H.on_launch = None
    orig = h.M.FakeTask.__init__

    def patched(self, job, **kw):
        if job.reference == 'stage0.Obs' and 'outputFile' not in kw and c['second'] == 'LaunchFails':
            h.ev('launch-failed', ref=job.reference, n=h.H.launches[job.reference], why='OSError', via='restart')
            h.H.launches[job.reference] += 1
            vrt.RT.yield_blocked(("sleep",), due=vrt.RT.now + 12.0)
            raise OSError('scripted submission failure of the restart')
        orig(self, job, **kw)
        if job.reference == 'stage0.Obs' and 'outputFile' not in kw:
            self._planned = c['second']

    h.M.FakeTask.__init__ = patched
    try:
        x = h.execute(scn, [], horizon=2000.0, want_fps=False)
    finally:
        h.M.FakeTask.__init__ = orig
    col.evaluated()
    col.traces += 1
    launches = [e for e in x.events if e['kind'] in ('launch', 'launch-failed') and e['ref'] == 'stage0.Obs']
    exits = {e['n']: e['reason'] for e in x.events if e['kind'] == 'exit' and e['ref'] == 'stage0.Obs'}
    for k, e in enumerate(launches):
        if e['kind'] == 'launch-failed' and e['n'] not in exits and k > 0:
            # a failed restart submission leaves the exit reason of the previous task in place
            exits[e['n']] = exits.get(launches[k - 1]['n'])
    col.transitions += len(launches)
    restarts = [e for e in launches if e.get('via') == 'restart']
    on = c['restartHookOn'] if c['restartHookOn'] is not None else ['ResourceExhausted']
    m = c['maxRestarts'] if c['maxRestarts'] is not None else 3
    case = {'part': 'repeating', 'case': c}
    col.nontriv(case)
    col.state(('rep', c['last'], c['second'], len(restarts)))
    col.outcome('rep: restarts=%d final=%s ret=%s' % (len(restarts), x.final.get('stage0.Obs', {}).get('state'), x.result.get('ret')))
    bad = []
    for e in restarts:
        prev = exits.get(e['n'] - 1)
        if prev in ('Killed', 'Cancelled') or prev not in on:
            bad.append(('repeating component restarted after its last task exited with %s (restartable: %r)' % (prev, on), 'C12:rep-restart-after-nonrestartable'))
    if m != -1 and len(restarts) > m:
        bad.append(('repeating component restarted %d times, maximum %d' % (len(restarts), m), 'C12:rep-max-restarts'))
    if x.result.get('ret') != 'done' or x.final.get('stage0.Obs', {}).get('state') not in ('finished', 'failed', 'component_shutdown'):
        bad.append(('repeating component did not receive a final state: %r %r' % (x.result, x.final.get('stage0.Obs')), 'C12:rep-no-final-state'))
    for why, sig in bad:
        col.fail(case, why, {'launches': [[e['n'], e['via']] for e in launches], 'exits': exits, 'final': x.final, 'result': x.result}, sig=sig)


def worker_rep(col, item, tier, seed):
    for c in item:
        run_rep_case(col, c)


def run(ctx):
    rc = list(rep_cases(ctx.thorough))
    ctx.count('repeating_cases', len(rc))
    ctx.pmap('verif.props.c12', 'worker_rep', [rc[i:i + 6] for i in range(0, len(rc), 6)], maxtasksperchild=4)
    kc = list(kill_cases(ctx.thorough))
    ctx.count('kill_racing_restart_cases', len(kc))
    ctx.pmap('verif.props.c12', 'worker_kill', [[c] for c in kc], maxtasksperchild=4)
    scr = list(scripts(ctx.thorough))
    ctx.count('scripts', len(scr))
    items = []
    chunk = 150
    for cfg in configs(ctx.thorough):
        for sd in ([], ['KnownIssue', 'SystemIssue']):
            if sd and not (cfg['restartHookFile'] in ('unset', 'custom.py')):
                continue
            for lo in range(0, len(scr), chunk):
                items.append((cfg, sd, True, lo, min(len(scr), lo + chunk)))
        n_unstable = len([x for x in scr if len(x[0]) <= 2])
        items.append((cfg, [], False, 0, n_unstable))
    ctx.count('configs', len(list(configs(ctx.thorough))))
    ctx.pmap('verif.props.c12', 'worker', items, maxtasksperchild=8)


def replay(ctx, case):
    if case.get('part') == 'repeating':
        run_rep_case(ctx, case['case'])
        return
    if case.get('part') == 'kill':
        try:
            run_kill_case(ctx, {k: case[k] for k in ('config', 'reasons', 'hooks', 'shutdownOn')})
        finally:
            drop_envs()
        return
    try:
        run_case(ctx, {'config': case['config'], 'reasons': case['reasons'], 'hooks': case['hooks'],
                       'shutdownOn': case.get('shutdownOn', [])}, case.get('stable', True))
    finally:
        drop_envs()
