"""C20 — Reported progress is a proper weighted fraction.

Part A: exhaustive enumeration of stage-weight vectors through FlowIRConcrete (the loader's normalisation).
Part B: the same through a real StatusMonitor on a real n-stage experiment, with a stand-in controller whose
        answers (current stage, finished / in-transit partition, per-stage progress) are enumerated exhaustively.
"""
import itertools
import math
import os
from fractions import Fraction

PROPERTY = 'C20'
LEVEL = 'exploration'
RULE = ('Part C: a real StatusMonitor asks the REAL Controller (running under the controlled runtime) at every choice point of '
        '3-stage executions with overlapping task durations (thorough: plus every schedule with one boundary deviation); '
        'Part A: every stage-weight vector of the stated grids (all compositions of 1 in hundredths for n<=3 '
        '[n<=4 thorough], thousandths for n<=2, k/m rationals m<=12, uniform 1/n for n<=12, 4-decimal near misses, '
        'missing weights at every subset of positions, malformed values at every position) is loaded with '
        'FlowIRConcrete; Part B: a real StatusMonitor per (n, weight vector of a reduced family) and every '
        '(current stage, finished/in-transit/not-started partition, per-stage progress in {0,.5,1}) assignment. '
        'Part B also: a stage transition of the (lock-aware) stand-in controller at EVERY call position of a status pass, 11/12/21 '
        'stages with distinct weights, default weights up to 130 stages and near-one sums. '
        'Part A also loads legacy (DOSINI) packages with 2, 3, 11, 12 [13, 21, 101] stages whose status.conf lists distinct weights in '
        'ascending / descending section order, or omits the sections of some stages. '
        'A case is non-trivial if it has >=2 stages or a non-default weight; distinct = distinct (part, weights, answers).')
ASSUMPTIONS = [
    '"sum to one" is judged with tolerance 1e-6 on the result; given weights count as "already summing to one" when '
    'all are finite numbers >= 0 and |sum-1| <= 1e-9',
    'weights that are not numbers (strings) are only judged at the StatusMonitor level (the weights actually used)',
    'a document whose load raises is counted as "rejected" and not judged (C11 owns rejection)',
    'per-stage progress values are supplied by a stand-in controller (component-completion based progress)',
]
EPS_OUT = 1e-6
EPS_IN = 1e-9


def doc_for(ws):
    return {'components': [{'name': 'c%d' % i, 'stage': i, 'command': {'executable': 'ls'}} for i in range(len(ws))],
            'status-report': {i: {'stage-weight': w} for i, w in enumerate(ws) if w != 'MISSING'}}


def is_num(w):
    return isinstance(w, (int, float)) and not isinstance(w, bool)


def given_valid(ws):
    if not all(is_num(w) and math.isfinite(w) and w >= 0 for w in ws):
        return False
    return abs(math.fsum(ws) - 1.0) <= EPS_IN


def judge_weights(got, given, where):
    """Returns None or a (why, sig) tuple."""
    try:
        gf = [float(g) for g in got]
    except (TypeError, ValueError):
        return ('%s: weight is not a number: %r' % (where, got), '%s:not-a-number' % where)
    if any(not math.isfinite(g) for g in gf):
        return ('%s: non-finite weight %r' % (where, gf), '%s:non-finite' % where)
    if any(g < 0 for g in gf):
        return ('%s: negative weight in %r (given %r)' % (where, gf, given), '%s:negative' % where)
    if abs(math.fsum(gf) - 1.0) > EPS_OUT:
        return ('%s: weights %r sum to %r (given %r)' % (where, gf, math.fsum(gf), given), '%s:sum' % where)
    if given_valid(given) and any(abs(a - float(b)) > 1e-12 for a, b in zip(gf, given)):
        return ('%s: given weights %r already sum to one but %r is used' % (where, given, gf), '%s:changed' % where)
    return None


def compositions(total, n):
    if n == 1:
        yield (total,)
        return
    for a in range(total + 1):
        for rest in compositions(total - a, n - 1):
            yield (a,) + rest


def weight_vectors(thorough):
    """Yields (family, tuple of weights). 'MISSING' marks an absent stage-weight."""
    for n in (1, 2, 3) + ((4,) if thorough else ()):
        for c in compositions(100, n):
            yield 'hundredths', tuple(x / 100.0 for x in c)
    if not thorough:
        # a sparse slice of n=4 (step 5 hundredths)
        for c in compositions(20, 4):
            yield 'twentieths', tuple(x / 20.0 for x in c)
    for n in (1, 2):
        for c in compositions(1000, n):
            yield 'thousandths', tuple(x / 1000.0 for x in c)
    for m in range(2, 13):
        for n in (2, 3) + ((4,) if thorough else ()):
            for c in compositions(m, n):
                yield 'rational', tuple(float(Fraction(x, m)) for x in c)
    for n in list(range(1, 13)) + list(range(13, 131)):
        if n > 12:
            yield 'all-missing', tuple(['MISSING'] * n)
            yield 'not-summing', tuple([0.5] * n)
            continue
        yield 'uniform', tuple([1.0 / n] * n)
        yield 'uniform-int', tuple([1] + [0] * (n - 1))
        yield 'all-missing', tuple(['MISSING'] * n)
    for v in ((0.5002, 0.5002), (0.3333, 0.3333, 0.3333), (0.50001, 0.50001), (0.5000004, 0.5000004), (0.2, 0.3, 0.4996),
              (0.5004, 0.5004), (0.3334, 0.3333, 0.3333), (0.9, 0.2), (0.33, 0.33, 0.33), (0.5, 0.5, 0.5),
              (0.0, 0.0), (0.25, 0.25, 0.25, 0.2501), (1e-7, 1 - 1e-7), (0.9995, 0.0005), (0.4996, 0.5004)):
        yield 'near-miss', v
    base = {2: (0.25, 0.75), 3: (0.2, 0.3, 0.5), 4: (0.1, 0.2, 0.3, 0.4)}
    for n, b in base.items():
        for k in range(1, n + 1):
            for pos in itertools.combinations(range(n), k):
                yield 'missing', tuple('MISSING' if i in pos else b[i] for i in range(n))
    bad = ['abc', '0.5', -0.5, 1.5, 2, -1, float('nan'), float('inf'), None, True, [0.5], '']
    for n, b in base.items():
        for pos in range(n):
            for v in bad:
                ws = list(b)
                ws[pos] = v
                yield 'malformed', tuple(ws)
    for v in ((1.5, -0.5), (2, -1), (-0.25, 0.5, 0.75), (1.2, -0.1, -0.1), ('0.5', '0.5'), ('abc', 1.0), (1.0, 'abc')):
        yield 'malformed', v


def jsonable(ws):
    return [w if not (isinstance(w, float) and not math.isfinite(w)) else repr(w) for w in ws]


def from_jsonable(ws):
    return tuple(float(w) if w in ('nan', 'inf', '-inf') else w for w in ws)


def check_part_a(col, ws, family):
    from experiment.model.frontends.flowir import FlowIRConcrete
    case = {'part': 'A', 'family': family, 'weights': jsonable(ws)}
    col.evaluated()
    if len(ws) >= 2 or ws != (1.0,):
        col.nontriv(case)
    try:
        st = FlowIRConcrete(doc_for(ws), 'default', {}).get_status()
        got = [st[i]['stage-weight'] for i in range(len(ws))]
    except Exception as e:
        col.outcome('A:rejected:%s' % type(e).__name__)
        return
    given = [0.0 if w == 'MISSING' else w for w in ws]
    if not all(is_num(w) for w in given):
        col.outcome('A:non-numeric-not-judged-here')
        return
    r = judge_weights(got, given, 'FlowIRConcrete.get_status')
    if r:
        col.outcome('A:FAIL:' + r[1])
        col.fail(case, r[0], {'got': got}, sig='A:%s:%s' % (family, r[1]))
    else:
        col.outcome('A:kept' if [float(g) for g in got] == [float(g) for g in given if is_num(g)] else 'A:normalised')


# the same property through the legacy (DOSINI) package format: conf/status.conf with one [STAGE<i>] section per stage
def dosini_cases(thorough):
    ns = (2, 3, 11, 12) + ((13, 21, 101) if thorough else ())
    for n in ns:
        base = [round(0.01 * (i + 1), 2) for i in range(n - 1)] if n <= 13 else [round(0.001 * (i % 7 + 1), 3) for i in range(n - 1)]
        ws = base + [round(1.0 - math.fsum(base), 6)]
        assert min(ws) >= 0
        for order in ('ascending', 'descending'):
            yield {'n': n, 'weights': ws, 'order': order, 'omit': []}
        # every second stage also names a status executable
        yield {'n': n, 'weights': ws, 'order': 'ascending', 'omit': [], 'executables': True}
        if n >= 3:
            # the sections of some stages are absent (their weight is missing)
            yield {'n': n, 'weights': ws, 'order': 'ascending', 'omit': [0]}
            yield {'n': n, 'weights': ws, 'order': 'ascending', 'omit': [1, n - 1]}


def check_dosini(col, c):
    import shutil, tempfile
    import experiment.model.conf
    d = tempfile.mkdtemp(prefix='c20d-', dir='/dev/shm')
    case = dict(c, part='A-dosini')
    col.evaluated()
    col.nontriv(case)
    try:
        pkg = os.path.join(d, 'p.package')
        os.makedirs(os.path.join(pkg, 'conf', 'stages.d'))
        open(os.path.join(pkg, 'conf', 'experiment.conf'), 'w').write('[DEFAULT]\n')
        for i in range(c['n']):
            open(os.path.join(pkg, 'conf', 'stages.d', 'stage%d.conf' % i), 'w').write(
                '[Work%d]\nexecutable=echo\narguments=stage %d\n' % (i, i))
        idx = [i for i in range(c['n']) if i not in c['omit']]
        if c['order'] == 'descending':
            idx.reverse()
        with open(os.path.join(pkg, 'conf', 'status.conf'), 'w') as f:
            for i in idx:
                f.write('[STAGE%d]\nstage-weight=%r\n' % (i, c['weights'][i]))
                if c.get('executables') and i % 2 == 0:
                    f.write('executable=echo\narguments=status of stage %d\n' % i)
                f.write('\n')
        try:
            conf = experiment.model.conf.ExperimentConfigurationFactory.configurationForExperiment(
                pkg, createInstanceFiles=False, updateInstanceFiles=False, primitive=False)
            st = conf.get_flowir_concrete(return_copy=False).get_status()
            got = [st[i]['stage-weight'] for i in range(c['n'])]
        except Exception as e:
            col.outcome('A-dosini:rejected:%s' % type(e).__name__)
            col.fail(case, 'a legacy package with %d stages and valid stage weights could not be loaded: %s: %s' % (
                c['n'], type(e).__name__, str(e)[:200]), {}, sig='A-dosini:rejected:%s' % type(e).__name__)
            return
        given = [0.0 if i in c['omit'] else c['weights'][i] for i in range(c['n'])]
        r = judge_weights(got, given if not c['omit'] else [-1.0] * c['n'], 'DOSINI.get_status')
        if r is None and c['omit']:
            r = None   # weights were incomplete: only "non-negative and summing to one" is required
        if r:
            col.outcome('A-dosini:FAIL:' + r[1])
            col.fail(case, r[0], {'got': got}, sig='A-dosini:%s' % r[1])
        else:
            col.outcome('A-dosini:kept' if not c['omit'] else 'A-dosini:normalised')
    finally:
        shutil.rmtree(d, ignore_errors=True)


def worker_a_dosini(col, item, tier, seed):
    for c in item:
        check_dosini(col, c)


def worker_a(col, item, tier, seed):
    lo, hi = item
    vs = list(weight_vectors(tier == 'thorough'))
    for family, ws in vs[lo:hi]:
        check_part_a(col, ws, family)
    col.sample({'part': 'A', 'family': vs[lo][0], 'weights': jsonable(vs[lo][1])})


# ------------------------------------------------------------------ part B
class FakeStage:
    def __init__(self, stage):
        self._s = stage

    def __getattr__(self, n):
        return getattr(self._s, n)


class _Lock:
    def __init__(self, owner):
        self.owner = owner
        self.depth = 0

    def __enter__(self):
        self.depth += 1
        return self

    def __exit__(self, *a):
        self.depth -= 1

    def acquire(self, *a, **k):
        self.depth += 1
        return True

    def release(self):
        self.depth -= 1


class FakeController:
    """Answers what StatusMonitor.CheckStatus asks a Controller. Optionally ONE state transition (a stage in transit becomes
    finished) happens when the number of calls made so far reaches `transition_at` — but, like the real controller, never
    while comp_lock is held by the caller."""

    def __init__(self, exp):
        self.exp = exp
        self.comp_lock = _Lock(self)
        self.current = 0
        self.in_transit = []
        self.finished = []
        self.progress = {}
        self.calls = 0
        self.transition_at = None
        self.transition_stage = None
        self.transition_done = False

    def _tick(self):
        if self.transition_at is not None and not self.transition_done and self.calls >= self.transition_at \
                and self.comp_lock.depth == 0:
            s = self.transition_stage
            if s in self.in_transit:
                self.in_transit.remove(s)
            if s not in self.finished:
                self.finished.append(s)
            self.progress[s] = 1.0
            self.transition_done = True
        self.calls += 1

    def stage(self):
        self._tick()
        return self.exp._stages[self.current]

    def stageState(self, stage):
        import experiment.model.codes
        self._tick()
        return experiment.model.codes.RUNNING_STATE

    def get_stages_in_transit(self):
        self._tick()
        return list(self.in_transit)

    def get_stages_finished(self):
        self._tick()
        return list(self.finished)

    def get_stage_status(self, idx):
        self._tick()
        return self.progress.get(idx)

    def generate_status_report_for_nodes(self, *a, **k):
        return ''


def sm_weight_vectors(n, thorough):
    yield tuple([1.0 / n] * n)
    yield tuple(['MISSING'] * n)
    if n == 1:
        yield (1.0,)
        yield (0.5,)
        yield ('abc',)
        yield (-1.0,)
        yield (2.0,)
        return
    step = 10 if not thorough else 20
    if n <= 3:
        for c in compositions(step, n):
            yield tuple(x / float(step) for x in c)
    else:
        for c in compositions(5, n):
            yield tuple(x / 5.0 for x in c)
    for m in (3, 7, 9, 11):
        yield tuple([float(Fraction(1, m))] * (n - 1) + [float(Fraction(m - n + 1, m))]) if m >= n else tuple([1.0 / n] * n)
    yield tuple([1.5, -0.5] + [0.0] * (n - 2))
    yield tuple([-0.25, 1.25] + [0.0] * (n - 2))
    yield tuple(['abc'] + [1.0] + [0.0] * (n - 2))
    yield tuple(['0.5', '0.5'] + [0.0] * (n - 2))
    yield tuple([0.57, 0.43] + [0.0] * (n - 2))
    yield tuple([0.5004, 0.5004] + [0.0] * (n - 2))
    yield tuple(['MISSING', 1.0] + [0.0] * (n - 2))
    yield tuple([0.9] + [0.9] * (n - 1))


def worker_b(col, item, tier, seed):
    import experiment.runtime.monitor
    import experiment.runtime.output
    from verif.gen.pkg import scratch_dir, experiment_from_doc
    n, ws = item
    ws = from_jsonable(ws)
    case0 = {'part': 'B', 'n': n, 'weights': jsonable(ws)}
    with scratch_dir('c20-') as d:
        try:
            exp = experiment_from_doc(doc_for(ws), d)
        except Exception as e:
            col.evaluated()
            col.outcome('B:rejected:%s' % type(e).__name__)
            return
        calls = []

        def fake_create_monitor(interval, action, cancelEvent=None, name=None, **kw):
            calls.append(action)
            return lambda: None

        orig = experiment.runtime.monitor.CreateMonitor
        experiment.runtime.monitor.CreateMonitor = fake_create_monitor
        try:
            sm = experiment.runtime.output.StatusMonitor(exp, report_components=False)
            ctrl = FakeController(exp)
            sm.run(ctrl)
        finally:
            experiment.runtime.monitor.CreateMonitor = orig
        if len(calls) != 1:
            from verif.core.runner import HarnessError
            raise HarnessError('StatusMonitor.run did not create exactly one monitor')
        check = calls[0]
        given = [0.0 if w == 'MISSING' else w for w in ws]
        col.evaluated()
        col.nontriv(case0)
        # what the loader kept decides what "given" means for the monitor: the monitor must use weights that
        # satisfy the property; if the package's weights were valid they must be the ones used
        r = judge_weights(sm.stageWeights, given if all(is_num(g) for g in given) else [float('nan')], 'StatusMonitor.stageWeights')
        if r:
            col.outcome('B:FAIL:' + r[1])
            col.fail(case0, r[0], {'stageWeights': list(sm.stageWeights)}, sig='B:%s' % r[1])
        else:
            col.outcome('B:weights-ok')
        if n > 5:
            # many stages: the first m stages finished, stage m current with progress p, the rest not started
            given_ok = given_valid(given) if all(is_num(g) for g in given) else False
            for m_done in range(n):
                for p in (0.0, 0.5, 1.0):
                    ctrl.current = m_done
                    ctrl.finished = list(range(m_done))
                    ctrl.in_transit = []
                    ctrl.progress = {m_done: p}
                    ctrl.transition_at = None
                    check(False)
                    total = exp.statusFile.totalProgress()
                    col.evaluated()
                    c = dict(case0, current=m_done, partition='first-%d-finished' % m_done, progress=[p])
                    if given_ok:
                        want = math.fsum(float(g) for g in given[:m_done]) + p * float(given[m_done])
                        if not isinstance(total, (int, float)) or abs(total - want) > 1e-6:
                            col.outcome('B:FAIL:partial-progress')
                            col.fail(c, 'with stages 0..%d finished and stage %d at %.1f the total progress is %r, the package weights give %r' % (
                                m_done - 1, m_done, p, total, want), {'total': total, 'stageWeights': list(sm.stageWeights)}, sig='B:partial-progress')
                            continue
                    if not isinstance(total, (int, float)) or not math.isfinite(total) or total < -EPS_OUT or total > 1 + EPS_OUT:
                        col.outcome('B:FAIL:progress-range')
                        col.fail(c, 'total progress %r outside [0,1]' % (total,), {'total': total}, sig='B:progress-range')
                    else:
                        col.outcome('B:many-stages-progress-ok')
            col.sample(dict(case0, stageWeights=list(sm.stageWeights)))
            return
        # progress: every current stage, every partition of the others, every progress assignment
        others_states = ('finished', 'transit', 'notstarted')
        for cur in range(n):
            others = [i for i in range(n) if i != cur]
            for part in itertools.product(others_states, repeat=len(others)):
                active = [cur] + [o for o, p in zip(others, part) if p == 'transit']
                for prog in itertools.product((0.0, 0.5, 1.0), repeat=len(active)):
                    ctrl.current = cur
                    ctrl.finished = [o for o, p in zip(others, part) if p == 'finished']
                    ctrl.in_transit = [o for o, p in zip(others, part) if p == 'transit']
                    ctrl.progress = dict(zip(active, prog))
                    check(False)
                    total = exp.statusFile.totalProgress()
                    col.evaluated()
                    col.transitions += 0
                    all_done = all(p == 'finished' for p in part) and prog[0] == 1.0 and \
                        all(ctrl.progress[a] == 1.0 for a in active)
                    all_done = all_done or (all(p in ('finished', 'transit') for p in part) and all(x == 1.0 for x in prog))
                    c = dict(case0, current=cur, partition=list(part), progress=list(prog))
                    why = None
                    if not (isinstance(total, float) or isinstance(total, int)) or not math.isfinite(total):
                        why = ('total progress is not a finite number: %r' % (total,), 'B:progress-nan')
                    elif total < -EPS_OUT or total > 1 + EPS_OUT:
                        why = ('total progress %r outside [0,1]' % (total,), 'B:progress-range')
                    elif all_done and abs(total - 1.0) > EPS_OUT:
                        why = ('all stages complete but total progress is %r' % (total,), 'B:progress-not-one')
                    if why:
                        col.outcome('B:FAIL:' + why[1])
                        col.fail(c, why[0], {'total': total, 'stageWeights': list(sm.stageWeights)}, sig=why[1])
                    else:
                        col.outcome('B:progress=1' if abs(total - 1) <= EPS_OUT else ('B:progress=0' if abs(total) <= EPS_OUT else 'B:progress-in-(0,1)'))
        # one transition (a stage in transit finishes) landing at every position of the monitor's conversation with the controller
        if n >= 2 and not r:
            for cur in range(n):
                for s in range(n):
                    if s == cur:
                        continue
                    for p0 in (0.0, 0.5, 1.0):
                        j = 0
                        while True:
                            ctrl.current = cur
                            ctrl.in_transit = [s]
                            ctrl.finished = [o for o in range(n) if o not in (cur, s)]
                            ctrl.progress = {cur: 1.0, s: p0}
                            ctrl.calls = 0
                            ctrl.transition_at, ctrl.transition_stage, ctrl.transition_done = j, s, False
                            check(False)
                            total = exp.statusFile.totalProgress()
                            col.evaluated()
                            col.count('transition_positions')
                            c = dict(case0, current=cur, transition={'stage': s, 'at_call': j, 'progress_before': p0})
                            if not isinstance(total, (int, float)) or not math.isfinite(total) or total < -EPS_OUT or total > 1 + EPS_OUT:
                                col.outcome('B:FAIL:transition-progress-range')
                                col.fail(c, 'a stage finishing while the monitor computes the status gives total progress %r (outside [0,1])' % (total,),
                                         {'total': total, 'stageWeights': list(sm.stageWeights)}, sig='B:transition-progress-range')
                            else:
                                col.outcome('B:transition-ok')
                            done = ctrl.transition_done
                            j += 1
                            if not done or j > 60:
                                break
        ctrl.transition_at = None
        col.sample(dict(case0, stageWeights=list(sm.stageWeights)))


# ------------------------------------------------------------------ part C: the real Controller answers the monitor
def c_docs():
    from verif.vsched.ctl import comp
    docs = []
    # A2 is independent of everything else: when it is slow, the later stages run to completion while stage 0 is still
    # the current stage (the controller schedules the whole DAG; stages in transit / finished are what the monitor asks for)
    for weights in ([0.2, 0.3, 0.5], [0.5, 0.25, 0.25], None):
        d = {'components': [comp('A'), comp('A2'), comp('B', ['stage0.A:ref'], stage=1), comp('B2', ['stage0.A:ref'], stage=1),
                            comp('C', ['stage1.B:ref', 'stage1.B2:ref'], stage=2)]}
        if weights:
            d['status-report'] = {i: {'stage-weight': w} for i, w in enumerate(weights)}
        docs.append(d)
    return docs


def c_dowhile():
    from verif.vsched import ctl
    doc, meta = ctl.workflows()['dowhile']
    doc = dict(doc)
    doc['status-report'] = {0: {'stage-weight': 0.7}, 1: {'stage-weight': 0.3}}
    ex = ctl.DOWHILE_EXTRAS['dowhile']
    return doc, ex


def worker_c(col, item, tier, seed):
    """A real StatusMonitor asks the REAL Controller (under the controlled runtime) at every choice point of an execution."""
    import experiment.runtime.monitor
    import experiment.runtime.output
    from verif.vsched import harness as h
    di, durs, prefix = item
    if di == 'dowhile':
        doc, ex = c_dowhile()
        scn = h.Scenario(doc, script={'stage1.C': [['Success', durs[0]]]}, extra_files=ex['extra_files'], exit_files=ex['exit_files'])
    else:
        doc = c_docs()[di]
        script = {'stage0.A': [['Success', durs[0]]], 'stage0.A2': [['Success', durs[1]]], 'stage1.B': [['Success', durs[2]]],
                  'stage1.B2': [['Success', durs[3]]], 'stage2.C': [['Success', 0.0]]}
        scn = h.Scenario(doc, script=script)
    h.install()
    h.H.on_launch = None
    holder = {}

    def setup(exp, controller):
        calls = []
        orig = experiment.runtime.monitor.CreateMonitor
        experiment.runtime.monitor.CreateMonitor = lambda interval, action, cancelEvent=None, name=None, **kw: (calls.append(action) or (lambda: None))
        try:
            sm = experiment.runtime.output.StatusMonitor(exp, report_components=False)
            sm.run(controller)
        finally:
            experiment.runtime.monitor.CreateMonitor = orig
        holder['check'] = calls[0]
        holder['exp'] = exp
        holder['sm'] = sm

    def probe(rt, controller, x):
        if controller.comp_lock._owner is not None or controller.stage() is None:
            return
        holder['check'](False)
        total = holder['exp'].statusFile.totalProgress()
        col.evaluated()
        col.count('monitor_probes')
        states = tuple(sorted((n, controller.get_compstate(n).state, n in controller.comp_done) for n in controller.graph.nodes))
        col.state(states)
        all_done = all(st == 'finished' and d for n, st, d in states)
        ok = isinstance(total, (int, float)) and math.isfinite(total) and -EPS_OUT <= total <= 1 + EPS_OUT
        if ok and all_done and abs(total - 1.0) > EPS_OUT:
            ok = False
        if not ok:
            col.outcome('C:FAIL')
            col.fail({'part': 'C', 'doc': di, 'durations': durs, 'choices': prefix, 'step': len(x.points)},
                     'the status monitor asked the real controller at step %d and reported total progress %r (in transit %r, finished %r, all finished: %s)' % (
                         len(x.points), total, controller.get_stages_in_transit(), controller.get_stages_finished(), all_done),
                     {'total': total, 'states': [list(t) for t in states], 'weights': list(holder['sm'].stageWeights)}, sig='C:progress-from-real-controller')
        else:
            col.outcome('C:progress=1' if abs(total - 1) <= EPS_OUT else ('C:progress=0' if abs(total) <= EPS_OUT else 'C:progress-in-(0,1)'))

    x = h.execute(scn, prefix, want_fps=False, setup=setup, probe=probe)
    col.traces += 1
    col.transitions += x.steps
    col.nontriv({'part': 'C', 'doc': di, 'durs': durs, 'prefix': prefix})
    if x.result.get('ret') != 'done':
        from verif.core.runner import HarnessError
        raise HarnessError('C20 part C: execution did not finish: %r' % (x.result,))
    if not prefix:
        col.payload.append(('C', (di, tuple(durs)), x.points, x.alts))


def run(ctx):
    items = [(di, durs, []) for di in range(3) for durs in ([0, 0, 0, 0], [0, 40, 0, 0], [0, 40, 7, 0], [3, 12, 7, 0], [0, 40, 0, 9])]
    items += [('dowhile', [0], []), ('dowhile', [12], [])]
    ctx.pmap('verif.props.c20', 'worker_c', items, maxtasksperchild=4)
    ctx.count('part_c_executions_canonical', len(items))
    if ctx.thorough:
        from verif.vsched.ctl import is_boundary
        dev = []
        for tag, key, pts, alts in ctx.payload:
            if key[0] != 0:
                continue
            for i in range(len(pts)):
                for a in range(1, pts[i]):
                    if is_boundary(alts[i][a]):
                        dev.append((key[0], list(key[1]), [0] * i + [a]))
        ctx.count('part_c_executions_1_boundary_deviation', len(dev))
        ctx.pmap('verif.props.c20', 'worker_c', dev, maxtasksperchild=20)
    ctx.payload = []
    vs = list(weight_vectors(ctx.thorough))
    chunk = max(1, len(vs) // (ctx.jobs * 4) + 1)
    ctx.pmap('verif.props.c20', 'worker_a', [(i, min(len(vs), i + chunk)) for i in range(0, len(vs), chunk)])
    ctx.count('part_a_vectors', len(vs))
    dc = list(dosini_cases(ctx.thorough))
    ctx.count('part_a_legacy_packages', len(dc))
    ctx.pmap('verif.props.c20', 'worker_a_dosini', [dc[i:i + 2] for i in range(0, len(dc), 2)])
    items = []
    for n in range(1, (5 if ctx.thorough else 4) + 1):
        seen = set()
        for ws in sm_weight_vectors(n, ctx.thorough):
            k = repr(ws)
            if k in seen:
                continue
            seen.add(k)
            items.append((n, jsonable(ws)))
    for n in (11, 12, 21):
        base = [float(i + 1) for i in range(n)]
        tot = sum(base)
        ws = [round(b / tot, 6) for b in base]
        ws[-1] = round(1.0 - sum(ws[:-1]), 6)
        items.append((n, ws))
        items.append((n, ['MISSING'] * n))
    ctx.count('part_b_experiments', len(items))
    ctx.pmap('verif.props.c20', 'worker_b', items, maxtasksperchild=20)


def replay(ctx, case):
    if case['part'] == 'C':
        worker_c(ctx, (case['doc'], case['durations'], case['choices']), ctx.tier, ctx.seed)
        ctx.payload = []
        return
    if case['part'] == 'A-dosini':
        check_dosini(ctx, {k: case[k] for k in ('n', 'weights', 'order', 'omit', 'executables') if k in case})
        return
    if case['part'] == 'A':
        check_part_a(ctx, from_jsonable(case['weights']), case.get('family', 'replay'))
    else:
        worker_b(ctx, (case['n'], case['weights']), ctx.tier, ctx.seed)
        # keep only failures of the requested shape when the case pins the controller answers
        if 'current' in case:
            ctx.failures = [f for f in ctx.failures if all(f['case'].get(k) == case[k] for k in ('current', 'partition', 'progress'))]
            ctx.n_failures = len(ctx.failures)


def _sel_truncation(f):
    return f['sig'].endswith(':changed')


def _sel_negative(f):
    return f['sig'].endswith(':negative') or f['sig'] in ('B:progress-range',)


KNOWN_SELECTORS = {'weights_changed_by_truncation': _sel_truncation, 'negative_weights_kept': _sel_negative}
